//go:build verif

package ingress

import (
	"encoding/hex"
	"errors"
	"io"
	"net/http"
	"net/url"
	"strings"
	"time"

	"github.com/nuetzliches/hookaido/internal/queue"
	vrt "github.com/nuetzliches/hookaido/internal/verifrt"
)

type hFailingBody struct{}

func (hFailingBody) Read(p []byte) (int, error) { return 0, errors.New("connection reset") }
func (hFailingBody) Close() error               { return nil }

// verif:harness props=C01,C07,C08,C12,C10 tier=quick weight=60 tonly=C08
// verif:bounds one ingress request through the real ServeHTTP: route resolved or not (with or without other allowed methods), rate limiter verdict, admission verdict, basic auth absent/ok/wrong, body empty / 3 bytes (symbolic when the route has no HMAC, fixed incl. NUL and 0xff when signed) / a failing read, max_body 2 or default, forward auth absent or present with the auth service answering any status or failing (havoc client) and copy_headers, HMAC absent / valid / corrupted signature, header X-A with 1 symbolic byte plus optional Authorization/Cookie/Proxy-Authorization in mixed case, max_headers tight or default, 1 or 3 fan-out targets, every Enqueue may fail
func VerifIngressHandler() {
	w := &hRW{}
	st := &hStore{w: w}
	s := NewServer(st)
	// ---- environment verdicts: drawn lazily, when the handler consults them ----
	resolved, otherMethods, rateOK, admitOK := true, false, true, true
	resolveAsked, rateAsked, admitAsked := 0, 0, 0
	s.ResolveRoute = func(r *http.Request, p string) (string, bool) {
		resolveAsked++
		resolved = vrt.Choose("route-resolves", 2) == 1
		return "/r", resolved
	}
	s.AllowedMethodsFor = func(r *http.Request, p string) []string {
		otherMethods = vrt.Choose("other-methods-allowed", 2) == 1
		if otherMethods {
			return []string{"GET", "PUT"}
		}
		return nil
	}
	s.AllowRequestFor = func(string) bool {
		rateAsked++
		rateOK = vrt.Choose("rate-limit-admits", 2) == 1
		return rateOK
	}
	s.AllowEnqueueFor = func(string) (bool, int, string) {
		admitAsked++
		admitOK = vrt.Choose("admission-admits", 2) == 1
		return admitOK, 0, "backlog"
	}
	// ---- request ----
	hm := vrt.Choose("hmac", 3)       // 0 none, 1 valid, 2 corrupted
	bodyKind := vrt.Choose("body", 3) // empty, 3 bytes, read failure
	body := ""
	if bodyKind == 1 {
		if hm == 0 {
			body = vrt.StringN("body", 3) // arbitrary bytes
		} else {
			body = "a\x00\xff" // concrete when signed: real SHA-256/HMAC are computed (signature semantics: VerifC08HMAC*)
		}
	}
	bodyFails := bodyKind == 2
	xa := vrt.StringN("x-a", 1)
	vrt.Assume(hTrimmed(xa))
	h := http.Header{"X-A": []string{xa}, "X-Multi": []string{"1", "2"}}
	creds := vrt.Choose("credential-headers", 2) == 1
	if creds {
		h["Cookie"] = []string{"sid=1"}
		h["Proxy-Authorization"] = []string{"Basic zzz"}
	}
	// ---- basic ----
	basic := vrt.Choose("basic", 3) // 0 none, 1 right credentials, 2 wrong
	if basic > 0 {
		s.BasicAuthFor = func(string) *BasicAuth { return NewBasicAuth(map[string]string{"u": "p"}) }
		if basic == 1 {
			h["Authorization"] = []string{"Basic dTpw"} // u:p
		} else {
			h["Authorization"] = []string{"Basic dTpx"} // u:q
		}
	} else if creds {
		h["Authorization"] = []string{"Bearer abc"}
	}
	// ---- limits ----
	tightBody := vrt.Choose("max-body-2", 2) == 1
	tightHdr := vrt.Choose("max-headers-tight", 2) == 1
	s.LimitsFor = func(string) (int64, int) {
		mb, mh := int64(0), 0
		if tightBody {
			mb = 2
		}
		if tightHdr {
			mh = 14 // X-A + up to 2 bytes (3..5) and X-Multi + "1,2" (10): fits only without extras
		}
		return mb, mh
	}
	// ---- forward auth ----
	forward := vrt.Choose("forward-auth", 2) == 1
	if forward {
		fa := NewForwardAuth("https://auth.internal/check")
		fa.Client = &http.Client{}
		fa.CopyHeaders = []string{"x-user"}
		s.ForwardAuthFor = func(string) *ForwardAuth { return fa }
	}
	// ---- hmac ----
	now := time.Unix(1700000005, 0)
	if hm > 0 {
		a := NewHMACAuth([][]byte{[]byte("k0")})
		a.Now = func() time.Time { return now }
		s.HMACAuthFor = func(string) *HMACAuth { return a }
		bh := vrt.SHA256([]byte(body))
		canon := "1700000000" + "\n" + "POST" + "\n" + "/in/hook" + "\n" + hex.EncodeToString(bh[:])
		mac := vrt.HMACSHA256([]byte("k0"), []byte(canon))
		sig := hex.EncodeToString(mac[:])
		if hm == 2 {
			// corrupt the first hex digit (whatever it is)
			nc := byte('0')
			if sig[0] == '0' {
				nc = '1'
			}
			sig = string([]byte{nc}) + sig[1:]
		}
		h["X-Signature"], h["X-Timestamp"], h["X-Nonce"] = []string{sig}, []string{"1700000000"}, []string{"n1"}
	}
	ntargets := 1 + 2*vrt.Choose("targets", 2)
	targets := []string{"t1", "t2", "t3"}[:ntargets]
	s.TargetsFor = func(string) []string { return targets }
	var rb io.ReadCloser = io.NopCloser(strings.NewReader(body))
	if bodyFails {
		rb = hFailingBody{}
	}
	// the URL path has a dot segment and a trailing slash: the route and HMAC see the cleaned path
	r := &http.Request{Method: "POST", URL: &url.URL{Path: "/in/./hook/"}, Header: h, Body: rb, RemoteAddr: "1.2.3.4:5", Host: "h"}
	s.ServeHTTP(w, r)

	// ---- reference: the documented order route -> rate limit -> admission -> basic -> bounded body read -> forward auth -> HMAC -> headers -> enqueue ----
	want := 0
	switch {
	case !resolved && otherMethods:
		want = 405
	case !resolved:
		want = 404
	case !rateOK:
		want = 429
	case !admitOK:
		want = 503
	case basic == 2:
		want = 401
	case !bodyFails && tightBody && len(body) > 2:
		want = 413
	case bodyFails:
		want = 400
	}
	fwdStatus := 0
	if want == 0 && forward {
		transportErr := false
		for _, e := range vrt.Trace() {
			if e == "http.Do:error" {
				transportErr = true
			}
		}
		code := vrt.LastHTTPStatus()
		switch {
		case transportErr:
			fwdStatus = 503
		case code >= 200 && code <= 299:
		case code == 401 || code == 403:
			fwdStatus = code
		default:
			fwdStatus = 503
		}
		want = fwdStatus
	}
	if want == 0 && hm == 2 {
		want = 401
	}
	// header budget: stored headers are X-A, X-Multi (joined) and nothing else (credentials stripped; no copy header in the stub response)
	hdrBytes := len("X-A") + len(xa) + len("X-Multi") + len("1,2")
	if hm > 0 {
		hdrBytes += len("X-Signature") + 64 + len("X-Timestamp") + 10 + len("X-Nonce") + 2
	}
	if want == 0 && tightHdr && hdrBytes > 14 {
		want = 413
	}
	if want != 0 {
		vrt.Cover("handler.refused")
		vrt.Assert("C08.handler.refusal-status-as-documented", w.status == want)
		vrt.Assert("C12.handler.every-refusal-leaves-the-queue-untouched", len(st.envs) == 0)
		if want == 405 {
			vrt.Assert("C10.handler.405-carries-allow", w.Header().Get("Allow") == "GET, PUT")
		}
		return
	}
	// ---- admitted: every configured gate was consulted exactly once; one Enqueue per target, in order, until the first failure ----
	vrt.Cover("handler.admitted")
	vrt.Assert("C12.handler.admission-consulted-route-rate-and-backpressure", resolveAsked == 1 && rateAsked == 1 && admitAsked == 1)
	if st.failed > 0 {
		vrt.Assert("C01.handler.enqueue-failure-is-503-never-202", w.status == 503 && st.failed == 1 && len(st.envs) <= ntargets)
	} else {
		vrt.Assert("C01.handler.202-only-after-every-target-was-enqueued", w.status == 202 && len(st.envs) == ntargets)
	}
	for i, env := range st.envs {
		vrt.Assert("C01.handler.nothing-acknowledged-before-the-enqueue", st.statusAt[i] == 0)
		okEnv := env.Route == "/r" && env.Target == targets[i] && string(env.Payload) == body
		vrt.Assert("C07.handler.payload-is-the-body-byte-for-byte", okEnv)
		okH := env.Headers["X-A"] == xa && env.Headers["X-Multi"] == "1,2"
		for k := range env.Headers {
			lk := strings.ToLower(k)
			if lk == "authorization" || lk == "cookie" || lk == "proxy-authorization" {
				okH = false
			}
			known := k == "X-A" || k == "X-Multi" || (hm > 0 && (k == "X-Signature" || k == "X-Timestamp" || k == "X-Nonce"))
			if !known {
				okH = false
			}
		}
		vrt.Assert("C07.handler.headers-are-the-received-ones-minus-credentials-and-nothing-else", okH)
	}
	_ = queue.StateQueued
}

// verif:harness props=C07 tier=quick native=yes weight=15
// verif:bounds two ingress requests A then B (bodies of 2 and 3 symbolic bytes, one header each) accepted into a real MemoryStore, then both dequeued: each payload and header value is the one of its own request (no aliasing between requests or with the caller's buffers)
func VerifC07NoAliasingAcrossRequests() {
	ms := queue.NewMemoryStore()
	s := NewServer(ms)
	s.ResolveRoute = func(r *http.Request, p string) (string, bool) { return "/r", true }
	bodyA, bodyB := vrt.StringN("bodyA", 2), vrt.StringN("bodyB", 3)
	ha, hb := vrt.StringN("hdrA", 1), vrt.StringN("hdrB", 1)
	vrt.Assume(hTrimmed(ha) && hTrimmed(hb))
	send := func(body, hv string) int {
		w := &hRW{}
		hdr := http.Header{"X-A": []string{hv}}
		s.ServeHTTP(w, &http.Request{Method: "POST", URL: &url.URL{Path: "/r"}, Header: hdr, Body: io.NopCloser(strings.NewReader(body)), RemoteAddr: "1.2.3.4:5"})
		// the caller reuses its header map afterwards
		hdr["X-A"][0] = "clobbered"
		return w.status
	}
	okA := send(bodyA, ha) == 202
	okB := send(bodyB, hb) == 202
	vrt.Assert("C07.alias.both-accepted", okA && okB)
	resp, err := ms.Dequeue(queue.DequeueRequest{Route: "/r", Batch: 2, LeaseTTL: time.Minute})
	vrt.Assert("C07.alias.both-offered", err == nil && len(resp.Items) == 2)
	if err != nil || len(resp.Items) != 2 {
		return
	}
	a, b := resp.Items[0], resp.Items[1]
	vrt.Assert("C07.alias.first-message-still-has-its-own-bytes", string(a.Payload) == bodyA && a.Headers["X-A"] == ha)
	vrt.Assert("C07.alias.second-message-has-its-own-bytes", string(b.Payload) == bodyB && b.Headers["X-A"] == hb)
}

// verif:harness props=C07,C08 tier=quick weight=15
// verif:bounds one ingress request through the real ServeHTTP on a route with forward auth and copy_headers {x-user, X-Role}: the auth service (stubbed client) answers any status; its response carries X-User (fixed value), X-Role present or absent; the client request carries X-A (1 symbolic byte) and optionally its own X-User / x-user / X-Role with 1 symbolic byte; max_headers default or tight
func VerifC07ForwardAuthCopyHeadersAreTheAuthServices() {
	w := &hRW{}
	st := &hStore{w: w, neverFail: true}
	s := NewServer(st)
	s.ResolveRoute = func(r *http.Request, p string) (string, bool) { return "/r", true }
	s.TargetsFor = func(string) []string { return []string{"t1"} }
	fa := NewForwardAuth("https://auth.internal/check")
	fa.Client = &http.Client{}
	fa.CopyHeaders = []string{"x-user", "X-Role"}
	s.ForwardAuthFor = func(string) *ForwardAuth { return fa }
	tight := vrt.Bool("max-headers-tight")
	s.LimitsFor = func(string) (int64, int) {
		if tight {
			return 0, 16
		}
		return 0, 0
	}
	authHdr := http.Header{"X-User": []string{"u-123"}}
	roleFromAuth := vrt.Bool("auth-service-sends-x-role")
	if roleFromAuth {
		authHdr["X-Role"] = []string{"ro"}
	}
	vrt.HTTPResponseHeader(authHdr)
	xa := vrt.StringN("x-a", 1)
	vrt.Assume(hTrimmed(xa))
	h := http.Header{"X-A": []string{xa}}
	spoof := vrt.Choose("client-sends-the-copy-header-itself", 4)
	sv := vrt.StringN("spoofed-value", 1)
	vrt.Assume(hTrimmed(sv))
	clientRole := false
	switch spoof {
	case 1:
		h["X-User"] = []string{sv}
	case 2:
		h["x-user"] = []string{sv}
	case 3:
		h["X-Role"] = []string{sv}
		clientRole = true
	}
	r := &http.Request{Method: "POST", URL: &url.URL{Path: "/in"}, Header: h, Body: io.NopCloser(strings.NewReader("b")), RemoteAddr: "1.2.3.4:5", Host: "h"}
	s.ServeHTTP(w, r)
	if len(st.envs) == 0 {
		vrt.Assert("C08.copyhdr.refused-without-enqueue-is-not-a-202", w.status != 202)
		return
	}
	vrt.Cover("copyhdr.accepted")
	code := vrt.LastHTTPStatus()
	vrt.Assert("C08.copyhdr.accepted-only-on-2xx-from-the-auth-service", code >= 200 && code <= 299 && w.status == 202)
	got := st.envs[0].Headers
	vrt.Assert("C07.copyhdr.stored-copy-header-is-the-auth-services-value", got["X-User"] == "u-123")
	if roleFromAuth {
		vrt.Assert("C07.copyhdr.every-configured-copy-header-of-the-answer-is-stored", got["X-Role"] == "ro")
	} else if clientRole {
		vrt.Assert("C07.copyhdr.received-header-kept-when-the-auth-service-sends-none", got["X-Role"] == sv)
	}
	vrt.Assert("C07.copyhdr.received-headers-kept", got["X-A"] == xa)
	size := 0
	for k, v := range got {
		size += len(k) + len(v)
	}
	vrt.Assert("C12.copyhdr.stored-headers-within-max_headers", !tight || size <= 16)
}

// refCleanPath: the canonical form of an absolute request path, written from the definition (no empty, "." or ".."
// segments; ".." removes the segment before it and never climbs above the root; no trailing slash except for the root).
func refCleanPath(p string) string {
	var segs []string
	cur := ""
	flush := func() {
		switch cur {
		case "", ".":
		case "..":
			if len(segs) > 0 {
				segs = segs[:len(segs)-1]
			}
		default:
			segs = append(segs, cur)
		}
		cur = ""
	}
	for i := 0; i < len(p); i++ {
		if p[i] == '/' {
			flush()
		} else {
			cur += string(p[i : i+1])
		}
	}
	flush()
	if len(segs) == 0 {
		return "/"
	}
	return "/" + strings.Join(segs, "/")
}

// verif:harness props=C10 tier=quick native=yes weight=25
// verif:bounds the request path handed to route resolution (and from there to HMAC and forward auth): any absolute path of 1..6 bytes (thorough 7) over the alphabet {'/', '.', 'a', 'b'} — every combination of empty, dot and dot-dot segments, trailing slashes and trailing dot segments — through the real ServeHTTP
func VerifC10RequestPathIsCanonicalBeforeRouting() {
	max := 6
	if vrt.Thorough() {
		max = 7
	}
	p := vrt.String("path", max)
	vrt.Assume(len(p) >= 1 && p[0] == '/')
	for i := 0; i < len(p); i++ {
		vrt.Assume(p[i] == '/' || p[i] == '.' || p[i] == 'a' || p[i] == 'b')
	}
	w := &hRW{}
	st := &hStore{w: w, neverFail: true}
	s := NewServer(st)
	seen := []string{}
	s.ResolveRoute = func(r *http.Request, rp string) (string, bool) {
		seen = append(seen, rp)
		return "", false
	}
	s.AllowedMethodsFor = func(r *http.Request, rp string) []string {
		seen = append(seen, rp)
		return nil
	}
	r := &http.Request{Method: "POST", URL: &url.URL{Path: p}, Header: http.Header{}, Body: http.NoBody, RemoteAddr: "1.2.3.4:5", Host: "h"}
	s.ServeHTTP(w, r)
	want := refCleanPath(p)
	vrt.Observe("asked", len(seen))
	ok := len(seen) >= 1
	for _, rp := range seen {
		ok = ok && rp == want
	}
	vrt.Assert("C10.path.routing-sees-the-canonical-path", ok)
	vrt.Assert("C10.path.unmatched-request-is-404-and-touches-nothing", w.status == 404 && len(st.envs) == 0)
}
