//go:build verif

package queue

import (
	"time"

	vrt "github.com/nuetzliches/hookaido/internal/verifrt"
	vsql "github.com/nuetzliches/hookaido/internal/verifsql"
)

// hUTF8 encodes one scalar value (harness-side reference encoder).
func hUTF8(r int) string {
	switch {
	case r < 0x80:
		return string([]byte{byte(r)})
	case r < 0x800:
		return string([]byte{0xC0 | byte(r>>6), 0x80 | byte(r)&0x3F})
	case r < 0x10000:
		return string([]byte{0xE0 | byte(r>>12), 0x80 | byte(r>>6)&0x3F, 0x80 | byte(r)&0x3F})
	}
	return string([]byte{0xF0 | byte(r>>18), 0x80 | byte(r>>12)&0x3F, 0x80 | byte(r>>6)&0x3F, 0x80 | byte(r)&0x3F})
}

// verif:harness props=C07 tier=quick weight=60
// verif:bounds SQLite backend (SQL model + JSON string-map model): one message enqueued with a 2-byte payload (every byte value), a header whose value is ANY Unicode scalar value (U+0000..U+10FFFF without surrogates, as valid UTF-8) followed by any ASCII byte, a second fixed header and a trace entry with the same value, then dequeued: payload, headers and trace come back exactly
func VerifC07SQLiteHeaderRoundTrip() {
	vrt.SQLModel()
	vrt.JSONModel()
	db := &vsql.DB{}
	vsql.Current = db
	now := time.Unix(1700000000, 0)
	s := &SQLiteStore{db: vrt.StubDB(), nowFn: func() time.Time { return now }, metrics: newSQLiteRuntimeMetrics(), notify: make(chan struct{}), dropPolicy: "reject"}
	r := vrt.Int("scalar-value")
	vrt.Assume(r >= 0 && r <= 0x10FFFF && !(r >= 0xD800 && r <= 0xDFFF))
	tail := vrt.Byte("ascii-byte")
	vrt.Assume(tail < 0x80)
	v := hUTF8(r) + string([]byte{tail})
	payload := vrt.StringN("payload", 2)
	err := s.Enqueue(Envelope{ID: "m", Route: "/r", Target: "pull", Payload: []byte(payload), Headers: map[string]string{"X-A": v, "X-B": "2"}, Trace: map[string]string{"t": v}})
	vrt.Assert("C07.sqlite.enqueue-ok", err == nil)
	if err != nil {
		return
	}
	resp, err := s.Dequeue(DequeueRequest{Route: "/r", Batch: 1, LeaseTTL: time.Minute})
	vrt.Assert("C07.sqlite.dequeue-offers-the-message", err == nil && len(resp.Items) == 1)
	if err != nil || len(resp.Items) != 1 {
		return
	}
	it := resp.Items[0]
	vrt.Assert("C07.sqlite.payload-byte-for-byte", string(it.Payload) == payload)
	okH := len(it.Headers) == 2 && it.Headers["X-A"] == v && it.Headers["X-B"] == "2"
	vrt.Assert("C07.sqlite.headers-come-back-exactly", okH)
	vrt.Assert("C07.sqlite.trace-comes-back-exactly", len(it.Trace) == 1 && it.Trace["t"] == v)
}
