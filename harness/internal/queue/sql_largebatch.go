//go:build verif

package queue

import (
	"time"

	vrt "github.com/nuetzliches/hookaido/internal/verifrt"
	vsql "github.com/nuetzliches/hookaido/internal/verifsql"
)

// verif:harness props=C15,C12 tier=quick weight=120 maxsteps=2000000000 tonly=C15
// verif:bounds LARGE batches on the SQLite backend (SQL model): 40 queued messages already in the table, EnqueueBatch of B items with B from {300, 600} (thorough adds 1100, 2100) under max_depth from {off, 40+B (just fits), 40+B-1 (one too many), 40+B/2}; optionally one item of the batch re-uses an existing id, at position 0, B/2+1 or B-1: the batch is stored completely or not at all, whatever its size
func VerifC15SQLiteLargeBatchAllOrNothing() {
	sizes := []int{300, 600}
	if vrt.Thorough() {
		sizes = []int{300, 600, 1100, 2100}
	}
	bsz := sizes[vrt.Choose("batch-size", len(sizes))]
	vrt.SQLModel()
	db := &vsql.DB{}
	vsql.Current = db
	now := time.Unix(1700000000, 0)
	s := &SQLiteStore{db: vrt.StubDB(), nowFn: func() time.Time { return now }, metrics: newSQLiteRuntimeMetrics(), notify: make(chan struct{}), dropPolicy: "reject"}
	vrt.Replace(isSQLiteConstraintError, func(err error) bool { return err == vsql.ErrConstraint })
	const pre = 40
	digits := "0123456789"
	name := func(prefix string, i int) string {
		return prefix + string([]byte{digits[i/1000%10], digits[i/100%10], digits[i/10%10], digits[i%10]})
	}
	for i := 0; i < pre; i++ {
		row := &vsql.Row{V: make([]vsql.Val, len(vsql.Columns))}
		for c := range row.V {
			row.V[c] = vsql.NullVal
		}
		qSet(row, "id", vsql.Text(name("old", i)))
		qSet(row, "route", vsql.Text("/r"))
		qSet(row, "target", vsql.Text("pull"))
		qSet(row, "state", vsql.Text(string(StateQueued)))
		qSet(row, "received_at", vsql.Int(now.UnixNano()))
		qSet(row, "attempt", vsql.Int(0))
		qSet(row, "next_run_at", vsql.Int(now.UnixNano()))
		qSet(row, "payload", vsql.Text("p"))
		qSet(row, "schema_version", vsql.Int(1))
		db.Rows = append(db.Rows, row)
	}
	switch vrt.Choose("max-depth", 4) {
	case 1:
		s.maxDepth = pre + bsz
	case 2:
		s.maxDepth = pre + bsz - 1
	case 3:
		s.maxDepth = pre + bsz/2
	}
	dupAt := []int{-1, 0, bsz/2 + 1, bsz - 1}[vrt.Choose("duplicate-id-at", 4)]
	items := make([]Envelope, bsz)
	for i := range items {
		items[i] = Envelope{ID: name("new", i), Route: "/r", Target: "pull", Payload: []byte("q")}
	}
	if dupAt >= 0 {
		items[dupAt].ID = "old0007"
	}
	n, err := s.EnqueueBatch(items)
	fits := s.maxDepth == 0 || pre+bsz <= s.maxDepth
	if fits && dupAt < 0 {
		vrt.Cover("largebatch.stored")
		vrt.Assert("C15.largebatch.a-batch-that-fits-is-stored-completely", err == nil && n == bsz && len(db.Rows) == pre+bsz)
		return
	}
	vrt.Cover("largebatch.refused")
	vrt.Assert("C15.largebatch.refused-batch-reports-an-error-and-zero", err != nil && n == 0)
	vrt.Assert("C15.largebatch.refused-batch-stores-nothing-at-all", len(db.Rows) == pre && !db.InTx())
}
