//go:build verif

package app

import (
	"io"
	"net/http"
	"net/url"
	"strings"

	"github.com/nuetzliches/hookaido/internal/config"
	vrt "github.com/nuetzliches/hookaido/internal/verifrt"
)

// hAuthDecl: the ways a route can declare authentication in the configuration TEXT.
var hAuthDecl = []struct {
	name, text string
	protects   bool
}{
	{"none", "", false},
	{"basic", "  auth basic \"u\" \"p\"\n", true},
	{"hmac-raw", "  auth hmac raw:k0\n", true},
	{"hmac-block", "  auth hmac {\n    secret raw:k0\n    tolerance 5m\n  }\n", true},
	{"hmac-unset-env", "  auth hmac env:VERIF_UNSET_VARIABLE\n", true},
	{"hmac-secret-ref", "  auth hmac secret_ref \"S1\"\n", true},
	{"hmac-unknown-secret-ref", "  auth hmac secret_ref \"NOPE\"\n", true},
	{"forward", "  auth forward \"https://auth.internal/check\"\n", true},
	{"basic-blank-password", "  auth basic \"u\" \"\"\n", true},
	{"hmac-blank", "  auth hmac \"\"\n", true},
}

// verif:harness props=C08,C10 tier=quick weight=120
// verif:bounds END TO END from configuration text: one or two routes generated as text (route /x declaring one of 10 authentication forms — none, basic, basic with blank password, HMAC shorthand / block / unset env variable / secret_ref / unknown secret_ref / blank secret, forward auth — as an inbound (default), outbound or internal channel route, optionally preceded by an open route /y), real config.Parse -> config.Compile -> newRuntimeState -> loadAuth -> ingress.Server wired as in startServers; one request POST /x or /x/sub carrying no credentials, wrong basic credentials or the right basic credentials; the forward-auth service answers arbitrarily (havoc client)
func VerifC08ConfiguredAuthFailsClosed() {
	decl := hAuthDecl[vrt.Choose("auth-declaration", len(hAuthDecl))]
	channel := []string{"", "inbound", "outbound", "internal"}[vrt.Choose("channel", 4)]
	var b strings.Builder
	b.WriteString("pull_api {\n  listen :9443\n  auth token raw:t\n}\n")
	b.WriteString("secrets {\n  secret \"S1\" {\n    value raw:k1\n    valid_from \"2020-01-01T00:00:00Z\"\n  }\n}\n")
	openFirst := vrt.Choose("open-route-first", 2) == 1
	if openFirst {
		b.WriteString("/y {\n  pull {\n    path /py\n  }\n}\n")
	}
	route := "/x {\n" + decl.text + "  pull {\n    path /px\n  }\n}\n"
	switch channel {
	case "inbound":
		route = "inbound " + route
	case "outbound":
		route = "outbound /x {\n  deliver \"https://t.example/h\" {\n  }\n}\n"
	case "internal":
		route = "internal /x {\n  pull {\n    path /px\n  }\n}\n"
	}
	b.WriteString(route)
	cfg, err := config.Parse([]byte(b.String()))
	if err != nil {
		return // refusing to start is failing closed
	}
	compiled, res := config.Compile(cfg)
	if !res.OK {
		vrt.Cover("text.compile-refused")
		return
	}
	state := newRuntimeState(compiled)
	if err := state.loadAuth(compiled); err != nil {
		vrt.Cover("text.secret-loading-refused")
		return
	}
	vrt.Cover("text.started")
	st := &hStore{}
	ing := hWire(state, st)
	creds := vrt.Choose("credentials", 3) // none, wrong basic, right basic
	hdr := http.Header{}
	switch creds {
	case 1:
		hdr.Set("Authorization", "Basic dTpx") // u:x
	case 2:
		hdr.Set("Authorization", "Basic dTpw") // u:p
	}
	path := []string{"/x", "/x/sub"}[vrt.Choose("path", 2)]
	w := &hRW{}
	ing.ServeHTTP(w, &http.Request{Method: "POST", URL: &url.URL{Path: path}, Header: hdr, Body: io.NopCloser(strings.NewReader("bb")), RemoteAddr: "1.2.3.4:5", Host: "h"})
	inbound := channel == "" || channel == "inbound"
	if !inbound {
		vrt.Assert("C10.text.outbound-and-internal-routes-are-unreachable-from-ingress", len(st.envs) == 0 && (w.status == 404 || w.status == 405))
		return
	}
	if !decl.protects {
		vrt.Assert("C08.text.open-route-accepts", w.status == 202 && len(st.envs) == 1)
		return
	}
	// the route DECLARES authentication: a request is enqueued only if it authenticates
	authenticated := false
	if decl.name == "basic" && creds == 2 {
		authenticated = true
	}
	if decl.name == "forward" {
		code := vrt.LastHTTPStatus()
		transportErr := false
		for _, e := range vrt.Trace() {
			if e == "http.Do:error" {
				transportErr = true
			}
		}
		authenticated = !transportErr && code >= 200 && code <= 299
	}
	if authenticated {
		vrt.Cover("text.authenticated")
		vrt.Assert("C08.text.authenticated-request-is-accepted", w.status == 202 && len(st.envs) == 1 && st.envs[0].Route == "/x")
	} else {
		vrt.Cover("text.refused")
		refusal := w.status == 401 || w.status == 403 || w.status == 503
		vrt.Assert("C08.text.declared-auth-is-enforced-or-startup-fails", refusal && len(st.envs) == 0)
	}
}
