package sx

import (
	"fmt"
	"go/token"
	"go/types"

	"golang.org/x/tools/go/ssa"
)

func (i *interpreter) globalAddr(g *ssa.Global) *value {
	if r, ok := i.globals[g]; ok {
		return r
	}
	cell := zero(mustDeref(g.Type()))
	i.globals[g] = &cell
	i.ensureInit(g.Pkg)
	return &cell
}

func (i *interpreter) ensureInit(pkg *ssa.Package) {
	if pkg == nil || i.inited[pkg] {
		return
	}
	i.inited[pkg] = true
	if f := pkg.Func("init"); f != nil {
		func() {
			defer func() {
				if r := recover(); r != nil {
					if ap, ok := r.(abortPath); ok {
						panic(ap)
					}
					InitFailures[pkg.Pkg.Path()] = fmt.Sprint(r) + "\n" + X.PanicStack
					X.PanicStack = ""
				}
			}()
			call(i, nil, token.NoPos, f, nil)
		}()
	}
}

var InitFailures = map[string]string{}

func newInterp(prog *ssa.Program, sizes types.Sizes) *interpreter {
	i := &interpreter{
		prog:       prog,
		globals:    make(map[*ssa.Global]*value),
		inited:     make(map[*ssa.Package]bool),
		onceDone:   make(map[*value]bool),
		built:      make(map[*ssa.Package]bool),
		sizes:      sizes,
		goroutines: 1,
	}
	if runtimePkg := prog.ImportedPackage("runtime"); runtimePkg != nil {
		i.runtimeErrorString = runtimePkg.Type("errorString").Object().Type()
	}
	return i
}

// RunHarness explores every path of the niladic function fn.
func RunHarness(prog *ssa.Program, sizes types.Sizes, fn *ssa.Function, x *Explorer) {
	X = x
	x.Run(fn.String(), func() {
		i := newInterp(prog, sizes)
		call(i, nil, token.NoPos, fn, nil)
	})
}
