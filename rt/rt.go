// Package verifrt: nondeterministic inputs and assertions for verification harnesses.
// The symbolic engine intercepts every function here; the bodies are the native twin,
// which replays a recorded model (VERIF_REPLAY=<file>, JSON list in nondet-call order).
package verifrt

import (
	"database/sql"
	"crypto/hmac"
	"crypto/sha256"
	"encoding/json"
	"fmt"
	"os"
	"time"
)

type rec struct {
	K string `json:"k"`
	L string `json:"l"`
	V int64  `json:"v"`
	B []int  `json:"b,omitempty"`
}

var (
	script []rec
	pos    int
	loaded bool
)

func next(kind, label string) rec {
	if !loaded {
		loaded = true
		if p := os.Getenv("VERIF_REPLAY"); p != "" {
			b, err := os.ReadFile(p)
			if err != nil {
				panic(err)
			}
			if err := json.Unmarshal(b, &script); err != nil {
				panic(err)
			}
		}
	}
	if pos >= len(script) {
		panic(fmt.Sprintf("verifrt: replay script exhausted at %s(%q)", kind, label))
	}
	r := script[pos]
	pos++
	if r.K != kind {
		panic(fmt.Sprintf("verifrt: replay divergence at #%d: script has %s(%q), harness asks %s(%q)", pos-1, r.K, r.L, kind, label))
	}
	return r
}

type AssumptionViolated struct{}

func Int(label string) int           { return int(next("int", label).V) }
func Int64(label string) int64       { return next("int64", label).V }
func Byte(label string) byte         { return byte(next("byte", label).V) }
func Bool(label string) bool         { return next("bool", label).V != 0 }
func Choose(label string, n int) int { return int(next("choose", label).V) }
func String(label string, max int) string {
	r := next("string", label)
	b := make([]byte, len(r.B))
	for i, x := range r.B {
		b[i] = byte(x)
	}
	return string(b)
}
func StringN(label string, n int) string  { return String(label, n) }
func Time(label string) time.Time         { return time.Unix(0, next("time", label).V).UTC() }
func Duration(label string) time.Duration { return time.Duration(next("duration", label).V) }
func Assume(c bool) {
	if !c {
		panic(AssumptionViolated{})
	}
}
func Assert(label string, c bool) {
	if !c {
		panic("VERIF-ASSERT-FAILED " + label)
	}
}

// HMACModel stands in for crypto/hmac's hash.Hash; the engine maps hmac.New to it
// and treats HMACSHA256 / SHA256 as uninterpreted functions.
type HMACModel struct{ Key, Msg []byte }

func NewHMACModel(key []byte) *HMACModel {
	return &HMACModel{Key: append([]byte(nil), key...)}
}
func (h *HMACModel) Write(p []byte) (int, error) { h.Msg = append(h.Msg, p...); return len(p), nil }
func (h *HMACModel) Sum(b []byte) []byte {
	d := HMACSHA256(h.Key, h.Msg)
	return append(b, d[:]...)
}
func (h *HMACModel) Reset()         { h.Msg = nil }
func (h *HMACModel) Size() int      { return 32 }
func (h *HMACModel) BlockSize() int { return 64 }

func HMACSHA256(key, msg []byte) (out [32]byte) {
	m := hmac.New(sha256.New, key)
	m.Write(msg)
	copy(out[:], m.Sum(nil))
	return
}
func SHA256(data []byte) (out [32]byte) { return sha256.Sum256(data) }

func IntMode()                                  {}
func Float01(label string) float64              { return float64(next("float", label).V) / (1 << 53) }
func FloatIn(label string, lo, hi float64) float64 { return lo }

func ExactBegin() {}
func ExactEnd()   {}

// database/sql stubs (symbolic mode only in the spike).
type SQLResult struct{ N int64 }

func (r SQLResult) LastInsertId() (int64, error) { return 0, nil }
func (r SQLResult) RowsAffected() (int64, error) { return r.N, nil }
func StubDB() *sql.DB                            { return nil }
func Trace() []string                            { return nil }

func Pending(steps ...func()) {}

func SQLModel() {}

func Replace(fn any, with any) {}
