package sx

// Environment stubs: log/slog (no-ops that leave an event), context (no cancellation).

import (
	"strings"
)

func rtFunc(fr *frame, name string) value {
	rt := fr.i.prog.ImportedPackage(strings.TrimSuffix(rtPkg, "."))
	return rt.Func(name)
}

func init() {
	symExternals["log/slog.Default"] = func(fr *frame, args []value) value {
		return zeroPtr(fr.i, "log/slog", "Logger")
	}
	for _, lvl := range []string{"Debug", "Info", "Warn", "Error"} {
		l := lvl
		symExternals["(*log/slog.Logger)."+l] = func(fr *frame, args []value) value {
			msg := "<sym>"
			if s, ok := args[1].(string); ok {
				msg = s
			}
			event("log:%s:%s", strings.ToLower(l), msg)
			return nil
		}
		symExternals["log/slog."+l] = func(fr *frame, args []value) value {
			msg := "<sym>"
			if s, ok := args[0].(string); ok {
				msg = s
			}
			event("log:%s:%s", strings.ToLower(l), msg)
			return nil
		}
	}
	symExternals["(*log/slog.Logger).With"] = func(fr *frame, args []value) value { return args[0] }
	symExternals["(*log/slog.Logger).Enabled"] = func(fr *frame, args []value) value { return false }
	for _, n := range []string{"String", "Int", "Int64", "Any", "Duration", "Bool", "Time", "Float64", "Uint64", "Group"} {
		symExternals["log/slog."+n] = func(fr *frame, args []value) value {
			t := fr.i.prog.ImportedPackage("log/slog").Type("Attr").Type()
			return zero(t)
		}
	}
	// context: cancellation never fires inside a harness; timeouts are modelled by the stubbed callee failing.
	for _, n := range []string{"WithTimeout", "WithCancel", "WithDeadline"} {
		symExternals["context."+n] = func(fr *frame, args []value) value {
			return tuple{args[0], rtFunc(fr, "Nop")}
		}
	}
}
