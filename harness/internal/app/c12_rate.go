//go:build verif

package app

import (
	"time"

	vrt "github.com/nuetzliches/hookaido/internal/verifrt"
)

// verif:harness props=C12 tier=quick weight=120 qtimeout=20000
// verif:bounds token bucket with burst 1..3 (thorough 1..5) and any rate in (0,1000] req/s; k=3 arrivals at ARBITRARY instants >= the bucket's creation time (not necessarily in order: the clock is read before the bucket's mutex is taken); float64 under the standard rounding model; bounds: admitted <= burst + rate*(latest arrival - creation) + absolute slack 1e-6, and the same bound for EVERY window of consecutive calls i..j over the hull of their instants
func VerifC12RateLimiterWindow() {
	vrt.IntMode()
	k := 3
	nb := 3
	if vrt.Thorough() {
		nb = 5 // (k=4 arrivals does not finish with the any-window bound; thorough widens the burst range instead)
	}
	burst := 1 + vrt.Choose("burst", nb)
	rate := vrt.FloatIn("rps", 0.001, 1000)
	t0 := vrt.Time("t0")
	l := newTokenBucketLimiter(rate, burst, t0)
	admitted := 0
	latest := t0
	times := make([]time.Time, k)
	got := make([]bool, k)
	for i := 0; i < k; i++ {
		t := vrt.Time("arrival")
		vrt.Assume(!t.Before(t0) && t.Sub(t0) < 100*time.Second)
		if t.After(latest) {
			latest = t
		}
		times[i] = t
		got[i] = l.AllowAt(t)
		if got[i] {
			admitted++
		}
	}
	vrt.ExactBegin()
	window := float64(latest.Sub(t0)) / 1e9
	limit := float64(burst) + rate*window + 1e-6
	ok := float64(admitted) <= limit
	// ANY window, not only the one that starts at the bucket's creation: the calls i..j, over the hull of their instants
	okAny := true
	for i := 0; i < k; i++ {
		lo, hi := times[i], times[i]
		n := 0
		for j := i; j < k; j++ {
			if times[j].Before(lo) {
				lo = times[j]
			}
			if times[j].After(hi) {
				hi = times[j]
			}
			if got[j] {
				n++
			}
			w := float64(hi.Sub(lo)) / 1e9
			okAny = okAny && float64(n) <= float64(burst)+rate*w+1e-6
		}
	}
	vrt.ExactEnd()
	vrt.Assert("C12.rate.admitted-at-most-burst-plus-rate-times-window", ok)
	vrt.Assert("C12.rate.any-window-admits-at-most-burst-plus-rate-times-its-length", okAny)
}

// verif:harness props=C12 tier=quick weight=40 qtimeout=20000
// verif:bounds one AllowAt step from an arbitrary bucket state with 0 <= tokens <= burst (burst 1..3, any rate in (0,1000]) at an arbitrary instant before or after `last`: the invariant is re-established, the refill clock never moves backwards, a token is spent iff the call is admitted
func VerifC12RateLimiterStep() {
	vrt.IntMode()
	burst := 1 + vrt.Choose("burst", 3)
	rate := vrt.FloatIn("rps", 0.001, 1000)
	last := vrt.Time("last")
	l := newTokenBucketLimiter(rate, burst, last)
	tokens := vrt.FloatIn("tokens", 0, 3)
	vrt.Assume(tokens <= float64(burst))
	l.tokens = tokens
	t := vrt.Time("now")
	d := t.Sub(last)
	vrt.Assume(d < 100*time.Second && d > -100*time.Second)
	got := l.AllowAt(t)
	vrt.ExactBegin()
	okInv := l.tokens >= -1e-9 && l.tokens <= float64(burst)+1e-9
	// refill credited since `last` (never for instants before it)
	credit := 0.0
	if d > 0 {
		credit = float64(d) / 1e9 * rate
	}
	avail := tokens + credit
	if avail > float64(burst) {
		avail = float64(burst)
	}
	spent := avail - l.tokens
	okSpend := (got && spent > 1-1e-6 && spent < 1+1e-6) || (!got && spent > -1e-6 && spent < 1e-6)
	okAdmit := got == (avail >= 1) || (avail > 1-1e-6 && avail < 1+1e-6)
	vrt.ExactEnd()
	vrt.Assert("C12.rate.step-keeps-0<=tokens<=burst", okInv)
	vrt.Assert("C12.rate.refill-clock-never-moves-backwards", !l.last.Before(last))
	vrt.Assert("C12.rate.refill-is-accounted-up-to-the-arrival", d <= 0 || l.last.Equal(t))
	vrt.Assert("C12.rate.step-spends-one-token-iff-admitted", okSpend)
	vrt.Assert("C12.rate.admits-iff-a-whole-token-is-available", okAdmit)
}
