//go:build verif

package app

import (
	"context"
	"encoding/hex"
	"net/http"
	"strconv"
	"strings"
	"time"

	"github.com/nuetzliches/hookaido/internal/config"
	"github.com/nuetzliches/hookaido/internal/dispatcher"
	vrt "github.com/nuetzliches/hookaido/internal/verifrt"
)

// verif:harness props=C17 tier=quick weight=90
// verif:bounds END TO END from configuration text: secrets S1 [2024-01-01, 2025-01-01), S2 [2024-07-01, no end) and S3 [2025-01-01, 2026-01-01) with different values; a deliver target signing with `sign hmac secret_ref` to two of them (every ordered pair) or with an inline secret, secret_selection newest_valid / oldest_valid / default; real Parse -> Compile -> buildDispatchRoutes -> dispatcher.NewHTTPDeliverer.Deliver with the signing clock at one of 9 instants (before every window, on each boundary to the second, inside overlaps, after all windows); havoc HTTP client
func VerifC17SigningFromText() {
	type win struct {
		id, key     string
		from, until int64 // unix seconds; until 0 = open
	}
	ts := func(s string) int64 {
		t, _ := time.Parse(time.RFC3339, s)
		return t.Unix()
	}
	wins := map[string]win{
		"S1": {"S1", "key-one", ts("2024-01-01T00:00:00Z"), ts("2025-01-01T00:00:00Z")},
		"S2": {"S2", "key-two", ts("2024-07-01T00:00:00Z"), 0},
		"S3": {"S3", "key-three", ts("2025-01-01T00:00:00Z"), ts("2026-01-01T00:00:00Z")},
	}
	pairs := [][]string{{"S1", "S2"}, {"S2", "S1"}, {"S1", "S3"}, {"S3", "S1"}, {"S2", "S3"}, {"S3", "S2"}, {"S1"}, nil}
	refs := pairs[vrt.Choose("signing-secret-refs", len(pairs))]
	selection := []string{"", "newest_valid", "oldest_valid"}[vrt.Choose("secret-selection", 3)]
	var b strings.Builder
	b.WriteString("secrets {\n")
	b.WriteString("  secret \"S1\" {\n    value raw:key-one\n    valid_from \"2024-01-01T00:00:00Z\"\n    valid_until \"2025-01-01T00:00:00Z\"\n  }\n")
	b.WriteString("  secret \"S2\" {\n    value raw:key-two\n    valid_from \"2024-07-01T00:00:00Z\"\n  }\n")
	b.WriteString("  secret \"S3\" {\n    value raw:key-three\n    valid_from \"2025-01-01T00:00:00Z\"\n    valid_until \"2026-01-01T00:00:00Z\"\n  }\n}\n")
	b.WriteString("\"/d\" {\n  deliver \"https://t.example/hook\" {\n")
	if refs == nil {
		b.WriteString("    sign hmac raw:inline-key\n")
	}
	for _, r := range refs {
		b.WriteString("    sign hmac secret_ref \"" + r + "\"\n")
	}
	if selection != "" && refs != nil {
		b.WriteString("    sign secret_selection " + selection + "\n")
	}
	b.WriteString("  }\n}\n")
	cfg, err := config.Parse([]byte(b.String()))
	vrt.Assert("C17.text.parses", err == nil)
	if err != nil {
		return
	}
	compiled, res := config.Compile(cfg)
	vrt.Assert("C17.text.compiles", res.OK)
	if !res.OK {
		return
	}
	routes := buildDispatchRoutes(compiled)
	vrt.Assert("C17.text.one-signed-target", len(routes) == 1 && len(routes[0].Targets) == 1 && routes[0].Targets[0].SignHMAC != nil)
	if len(routes) != 1 || len(routes[0].Targets) != 1 || routes[0].Targets[0].SignHMAC == nil {
		return
	}
	instants := []string{"2023-06-01T00:00:00Z", "2023-12-31T23:59:59Z", "2024-01-01T00:00:00Z", "2024-06-30T23:59:59Z", "2024-07-01T00:00:00Z", "2024-12-31T23:59:59Z", "2025-01-01T00:00:00Z", "2025-12-31T23:59:59Z", "2026-01-01T00:00:00Z"}
	at := ts(instants[vrt.Choose("signing-instant", len(instants))])
	d := dispatcher.NewHTTPDeliverer(&http.Client{}, dispatcher.EgressPolicy{})
	d.Now = func() time.Time { return time.Unix(at, 0) }
	body := "payload"
	resu := d.Deliver(context.Background(), dispatcher.Delivery{ID: "m", URL: "https://t.example/hook", Body: []byte(body), Sign: routes[0].Targets[0].SignHMAC})
	reqs := vrt.HTTPRequests()
	// reference: versions valid at the signing instant (from inclusive, until exclusive); newest = latest valid_from, ties by id
	want := ""
	if refs == nil {
		want = "inline-key"
	} else {
		var best *win
		for _, id := range refs {
			w := wins[id]
			if at < w.from || (w.until != 0 && at >= w.until) {
				continue
			}
			if best == nil {
				w2 := w
				best = &w2
				continue
			}
			newer := w.from > best.from || (w.from == best.from && w.id > best.id)
			older := w.from < best.from || (w.from == best.from && w.id < best.id)
			if (selection == "oldest_valid" && older) || (selection != "oldest_valid" && newer) {
				w2 := w
				best = &w2
			}
		}
		if best != nil {
			want = best.key
		}
	}
	if want == "" {
		vrt.Cover("c17text.no-valid-version")
		vrt.Assert("C17.text.nothing-is-sent-when-no-version-is-valid", len(reqs) == 0 && resu.Err != nil)
		return
	}
	vrt.Cover("c17text.signed")
	vrt.Assert("C17.text.exactly-one-request-sent", len(reqs) == 1)
	if len(reqs) != 1 {
		return
	}
	bh := vrt.SHA256([]byte(body))
	canon := "POST" + "\n" + "/hook" + "\n" + strconv.FormatInt(at, 10) + "\n" + hex.EncodeToString(bh[:])
	mac := vrt.HMACSHA256([]byte(want), []byte(canon))
	vrt.Assert("C17.text.signature-uses-the-version-the-configured-rule-picks", reqs[0].Header.Get("X-Hookaido-Signature") == hex.EncodeToString(mac[:]) && reqs[0].Header.Get("X-Hookaido-Timestamp") == strconv.FormatInt(at, 10))
}
