// Copyright 2013 The Go Authors. All rights reserved.
// Use of this source code is governed by a BSD-style
// license that can be found in the LICENSE file.

package sx

import (
	"bytes"
	"fmt"
	"go/constant"
	"go/token"
	"go/types"
	"os"
	"strings"
	"unsafe"

	"golang.org/x/tools/go/ssa"
	
)

// If the target program panics, the interpreter panics with this type.
type targetPanic struct {
	v value
}

func (p targetPanic) String() string {
	return toString(p.v)
}

// If the target program calls exit, the interpreter panics with this type.
type exitPanic int

// constValue returns the value of the constant with the
// dynamic type tag appropriate for c.Type().
func constValue(c *ssa.Const) value {
	if c.Value == nil {
		return zero(c.Type()) // typed zero
	}
	// c is not a type parameter so it's underlying type is basic.

	if t, ok := c.Type().Underlying().(*types.Basic); ok {
		// TODO(adonovan): eliminate untyped constants from SSA form.
		switch t.Kind() {
		case types.Bool, types.UntypedBool:
			return constant.BoolVal(c.Value)
		case types.Int, types.UntypedInt:
			// Assume sizeof(int) is same on host and target.
			return int(c.Int64())
		case types.Int8:
			return int8(c.Int64())
		case types.Int16:
			return int16(c.Int64())
		case types.Int32, types.UntypedRune:
			return int32(c.Int64())
		case types.Int64:
			return c.Int64()
		case types.Uint:
			// Assume sizeof(uint) is same on host and target.
			return uint(c.Uint64())
		case types.Uint8:
			return uint8(c.Uint64())
		case types.Uint16:
			return uint16(c.Uint64())
		case types.Uint32:
			return uint32(c.Uint64())
		case types.Uint64:
			return c.Uint64()
		case types.Uintptr:
			// Assume sizeof(uintptr) is same on host and target.
			return uintptr(c.Uint64())
		case types.Float32:
			return float32(c.Float64())
		case types.Float64, types.UntypedFloat:
			return c.Float64()
		case types.Complex64:
			return complex64(c.Complex128())
		case types.Complex128, types.UntypedComplex:
			return c.Complex128()
		case types.String, types.UntypedString:
			if c.Value.Kind() == constant.String {
				return constant.StringVal(c.Value)
			}
			return string(rune(c.Int64()))
		}
	}

	panic(fmt.Sprintf("constValue: %s", c))
}

// fitsInt returns true if x fits in type int according to sizes.
func fitsInt(x int64, sizes types.Sizes) bool {
	intSize := sizes.Sizeof(types.Typ[types.Int])
	if intSize < sizes.Sizeof(types.Typ[types.Int64]) {
		maxInt := int64(1)<<((intSize*8)-1) - 1
		minInt := -int64(1) << ((intSize * 8) - 1)
		return minInt <= x && x <= maxInt
	}
	return true
}

// asInt64 converts x, which must be an integer, to an int64.
//
// Callers that need a value directly usable as an int should combine this with fitsInt().
func asInt64(x value) int64 {
	switch x := x.(type) {
	case int:
		return int64(x)
	case int8:
		return int64(x)
	case int16:
		return int64(x)
	case int32:
		return int64(x)
	case int64:
		return x
	case uint:
		return int64(x)
	case uint8:
		return int64(x)
	case uint16:
		return int64(x)
	case uint32:
		return int64(x)
	case uint64:
		return int64(x)
	case uintptr:
		return int64(x)
	}
	panic(fmt.Sprintf("cannot convert %T to int64", x))
}

// asUint64 converts x, which must be an unsigned integer, to a uint64
// suitable for use as a bitwise shift count.
func asUint64(x value) uint64 {
	switch x := x.(type) {
	case uint:
		return uint64(x)
	case uint8:
		return uint64(x)
	case uint16:
		return uint64(x)
	case uint32:
		return uint64(x)
	case uint64:
		return x
	case uintptr:
		return uint64(x)
	}
	panic(fmt.Sprintf("cannot convert %T to uint64", x))
}

// asUnsigned returns the value of x, which must be an integer type, as its equivalent unsigned type,
// and returns true if x is non-negative.
func asUnsigned(x value) (value, bool) {
	switch x := x.(type) {
	case int:
		return uint(x), x >= 0
	case int8:
		return uint8(x), x >= 0
	case int16:
		return uint16(x), x >= 0
	case int32:
		return uint32(x), x >= 0
	case int64:
		return uint64(x), x >= 0
	case uint, uint8, uint32, uint64, uintptr:
		return x, true
	}
	panic(fmt.Sprintf("cannot convert %T to unsigned", x))
}

// zero returns a new "zero" value of the specified type.
func zero(t types.Type) value {
	switch t := t.(type) {
	case *types.Basic:
		if t.Kind() == types.UntypedNil {
			panic("untyped nil has no zero value")
		}
		if t.Info()&types.IsUntyped != 0 {
			// TODO(adonovan): make it an invariant that
			// this is unreachable.  Currently some
			// constants have 'untyped' types when they
			// should be defaulted by the typechecker.
			t = types.Default(t).(*types.Basic)
		}
		switch t.Kind() {
		case types.Bool:
			return false
		case types.Int:
			return int(0)
		case types.Int8:
			return int8(0)
		case types.Int16:
			return int16(0)
		case types.Int32:
			return int32(0)
		case types.Int64:
			return int64(0)
		case types.Uint:
			return uint(0)
		case types.Uint8:
			return uint8(0)
		case types.Uint16:
			return uint16(0)
		case types.Uint32:
			return uint32(0)
		case types.Uint64:
			return uint64(0)
		case types.Uintptr:
			return uintptr(0)
		case types.Float32:
			return float32(0)
		case types.Float64:
			return float64(0)
		case types.Complex64:
			return complex64(0)
		case types.Complex128:
			return complex128(0)
		case types.String:
			return ""
		case types.UnsafePointer:
			return unsafe.Pointer(nil)
		default:
			panic(fmt.Sprint("zero for unexpected type:", t))
		}
	case *types.Pointer:
		return (*value)(nil)
	case *types.Array:
		a := make(array, t.Len())
		for i := range a {
			a[i] = zero(t.Elem())
		}
		return a
	case *types.Named:
		return zero(t.Underlying())
	case *types.Alias:
		return zero(types.Unalias(t))
	case *types.Interface:
		return iface{} // nil type, methodset and value
	case *types.Slice:
		return []value(nil)
	case *types.Struct:
		s := make(structure, t.NumFields())
		for i := range s {
			s[i] = zero(t.Field(i).Type())
		}
		return s
	case *types.Tuple:
		if t.Len() == 1 {
			return zero(t.At(0).Type())
		}
		s := make(tuple, t.Len())
		for i := range s {
			s[i] = zero(t.At(i).Type())
		}
		return s
	case *types.Chan:
		return chan value(nil)
	case *types.Map:
		return (*omap)(nil)
	case *types.Signature:
		return (*ssa.Function)(nil)
	}
	panic(fmt.Sprint("zero: unexpected ", t))
}

// slice returns x[lo:hi:max].  Any of lo, hi and max may be nil.
func slice(x, lo, hi, max value) value {
	var Len, Cap int
	switch x := x.(type) {
	case string:
		Len = len(x)
	case symstr:
		Len = len(x.b)
	case []value:
		Len = len(x)
		Cap = cap(x)
	case *value: // *array
		a := (*x).(array)
		Len = len(a)
		Cap = cap(a)
	}

	l := int64(0)
	if lo != nil {
		l = asInt64(lo)
	}

	h := int64(Len)
	if hi != nil {
		h = asInt64(hi)
	}

	m := int64(Cap)
	if max != nil {
		m = asInt64(max)
	}

	switch x := x.(type) {
	case string:
		return x[l:h]
	case symstr:
		return mkStr(append([]value{}, x.b[l:h]...))
	case []value:
		return x[l:h:m]
	case *value: // *array
		a := (*x).(array)
		return []value(a)[l:h:m]
	}
	panic(fmt.Sprintf("slice: unexpected X type: %T", x))
}

// lookup returns x[idx] where x is a map.
func lookup(instr *ssa.Lookup, x, idx value) value {
	switch x := x.(type) { // map
	case *omap:
		v, ok := x.lookup(idx)
		if !ok {
			v = zero(instr.X.Type().Underlying().(*types.Map).Elem())
		}
		if instr.CommaOk {
			v = tuple{v, ok}
		}
		return v
	}
	panic(fmt.Sprintf("unexpected x type in Lookup: %T", x))
}

// binop implements all arithmetic and logical binary operators for
// numeric datatypes and strings.  Both operands must have identical
// dynamic type.
func binop(op token.Token, t types.Type, x, y value) value {
	if isFloatSym(x) || isFloatSym(y) {
		return floatBinop(op, x, y)
	}
	if isSym(x) || isSym(y) {
		return symBinop(op, x, y)
	}
	if isSymStr(x) || isSymStr(y) {
		return symStrBinop(op, x, y)
	}
	switch op {
	case token.ADD:
		switch x.(type) {
		case int:
			return x.(int) + y.(int)
		case int8:
			return x.(int8) + y.(int8)
		case int16:
			return x.(int16) + y.(int16)
		case int32:
			return x.(int32) + y.(int32)
		case int64:
			return x.(int64) + y.(int64)
		case uint:
			return x.(uint) + y.(uint)
		case uint8:
			return x.(uint8) + y.(uint8)
		case uint16:
			return x.(uint16) + y.(uint16)
		case uint32:
			return x.(uint32) + y.(uint32)
		case uint64:
			return x.(uint64) + y.(uint64)
		case uintptr:
			return x.(uintptr) + y.(uintptr)
		case float32:
			return x.(float32) + y.(float32)
		case float64:
			return x.(float64) + y.(float64)
		case complex64:
			return x.(complex64) + y.(complex64)
		case complex128:
			return x.(complex128) + y.(complex128)
		case string:
			return x.(string) + y.(string)
		}

	case token.SUB:
		switch x.(type) {
		case int:
			return x.(int) - y.(int)
		case int8:
			return x.(int8) - y.(int8)
		case int16:
			return x.(int16) - y.(int16)
		case int32:
			return x.(int32) - y.(int32)
		case int64:
			return x.(int64) - y.(int64)
		case uint:
			return x.(uint) - y.(uint)
		case uint8:
			return x.(uint8) - y.(uint8)
		case uint16:
			return x.(uint16) - y.(uint16)
		case uint32:
			return x.(uint32) - y.(uint32)
		case uint64:
			return x.(uint64) - y.(uint64)
		case uintptr:
			return x.(uintptr) - y.(uintptr)
		case float32:
			return x.(float32) - y.(float32)
		case float64:
			return x.(float64) - y.(float64)
		case complex64:
			return x.(complex64) - y.(complex64)
		case complex128:
			return x.(complex128) - y.(complex128)
		}

	case token.MUL:
		switch x.(type) {
		case int:
			return x.(int) * y.(int)
		case int8:
			return x.(int8) * y.(int8)
		case int16:
			return x.(int16) * y.(int16)
		case int32:
			return x.(int32) * y.(int32)
		case int64:
			return x.(int64) * y.(int64)
		case uint:
			return x.(uint) * y.(uint)
		case uint8:
			return x.(uint8) * y.(uint8)
		case uint16:
			return x.(uint16) * y.(uint16)
		case uint32:
			return x.(uint32) * y.(uint32)
		case uint64:
			return x.(uint64) * y.(uint64)
		case uintptr:
			return x.(uintptr) * y.(uintptr)
		case float32:
			return x.(float32) * y.(float32)
		case float64:
			return x.(float64) * y.(float64)
		case complex64:
			return x.(complex64) * y.(complex64)
		case complex128:
			return x.(complex128) * y.(complex128)
		}

	case token.QUO:
		switch x.(type) {
		case int:
			return x.(int) / y.(int)
		case int8:
			return x.(int8) / y.(int8)
		case int16:
			return x.(int16) / y.(int16)
		case int32:
			return x.(int32) / y.(int32)
		case int64:
			return x.(int64) / y.(int64)
		case uint:
			return x.(uint) / y.(uint)
		case uint8:
			return x.(uint8) / y.(uint8)
		case uint16:
			return x.(uint16) / y.(uint16)
		case uint32:
			return x.(uint32) / y.(uint32)
		case uint64:
			return x.(uint64) / y.(uint64)
		case uintptr:
			return x.(uintptr) / y.(uintptr)
		case float32:
			return x.(float32) / y.(float32)
		case float64:
			return x.(float64) / y.(float64)
		case complex64:
			return x.(complex64) / y.(complex64)
		case complex128:
			return x.(complex128) / y.(complex128)
		}

	case token.REM:
		switch x.(type) {
		case int:
			return x.(int) % y.(int)
		case int8:
			return x.(int8) % y.(int8)
		case int16:
			return x.(int16) % y.(int16)
		case int32:
			return x.(int32) % y.(int32)
		case int64:
			return x.(int64) % y.(int64)
		case uint:
			return x.(uint) % y.(uint)
		case uint8:
			return x.(uint8) % y.(uint8)
		case uint16:
			return x.(uint16) % y.(uint16)
		case uint32:
			return x.(uint32) % y.(uint32)
		case uint64:
			return x.(uint64) % y.(uint64)
		case uintptr:
			return x.(uintptr) % y.(uintptr)
		}

	case token.AND:
		switch x.(type) {
		case int:
			return x.(int) & y.(int)
		case int8:
			return x.(int8) & y.(int8)
		case int16:
			return x.(int16) & y.(int16)
		case int32:
			return x.(int32) & y.(int32)
		case int64:
			return x.(int64) & y.(int64)
		case uint:
			return x.(uint) & y.(uint)
		case uint8:
			return x.(uint8) & y.(uint8)
		case uint16:
			return x.(uint16) & y.(uint16)
		case uint32:
			return x.(uint32) & y.(uint32)
		case uint64:
			return x.(uint64) & y.(uint64)
		case uintptr:
			return x.(uintptr) & y.(uintptr)
		}

	case token.OR:
		switch x.(type) {
		case int:
			return x.(int) | y.(int)
		case int8:
			return x.(int8) | y.(int8)
		case int16:
			return x.(int16) | y.(int16)
		case int32:
			return x.(int32) | y.(int32)
		case int64:
			return x.(int64) | y.(int64)
		case uint:
			return x.(uint) | y.(uint)
		case uint8:
			return x.(uint8) | y.(uint8)
		case uint16:
			return x.(uint16) | y.(uint16)
		case uint32:
			return x.(uint32) | y.(uint32)
		case uint64:
			return x.(uint64) | y.(uint64)
		case uintptr:
			return x.(uintptr) | y.(uintptr)
		}

	case token.XOR:
		switch x.(type) {
		case int:
			return x.(int) ^ y.(int)
		case int8:
			return x.(int8) ^ y.(int8)
		case int16:
			return x.(int16) ^ y.(int16)
		case int32:
			return x.(int32) ^ y.(int32)
		case int64:
			return x.(int64) ^ y.(int64)
		case uint:
			return x.(uint) ^ y.(uint)
		case uint8:
			return x.(uint8) ^ y.(uint8)
		case uint16:
			return x.(uint16) ^ y.(uint16)
		case uint32:
			return x.(uint32) ^ y.(uint32)
		case uint64:
			return x.(uint64) ^ y.(uint64)
		case uintptr:
			return x.(uintptr) ^ y.(uintptr)
		}

	case token.AND_NOT:
		switch x.(type) {
		case int:
			return x.(int) &^ y.(int)
		case int8:
			return x.(int8) &^ y.(int8)
		case int16:
			return x.(int16) &^ y.(int16)
		case int32:
			return x.(int32) &^ y.(int32)
		case int64:
			return x.(int64) &^ y.(int64)
		case uint:
			return x.(uint) &^ y.(uint)
		case uint8:
			return x.(uint8) &^ y.(uint8)
		case uint16:
			return x.(uint16) &^ y.(uint16)
		case uint32:
			return x.(uint32) &^ y.(uint32)
		case uint64:
			return x.(uint64) &^ y.(uint64)
		case uintptr:
			return x.(uintptr) &^ y.(uintptr)
		}

	case token.SHL:
		u, ok := asUnsigned(y)
		if !ok {
			panic("negative shift amount")
		}
		y := asUint64(u)
		switch x.(type) {
		case int:
			return x.(int) << y
		case int8:
			return x.(int8) << y
		case int16:
			return x.(int16) << y
		case int32:
			return x.(int32) << y
		case int64:
			return x.(int64) << y
		case uint:
			return x.(uint) << y
		case uint8:
			return x.(uint8) << y
		case uint16:
			return x.(uint16) << y
		case uint32:
			return x.(uint32) << y
		case uint64:
			return x.(uint64) << y
		case uintptr:
			return x.(uintptr) << y
		}

	case token.SHR:
		u, ok := asUnsigned(y)
		if !ok {
			panic("negative shift amount")
		}
		y := asUint64(u)
		switch x.(type) {
		case int:
			return x.(int) >> y
		case int8:
			return x.(int8) >> y
		case int16:
			return x.(int16) >> y
		case int32:
			return x.(int32) >> y
		case int64:
			return x.(int64) >> y
		case uint:
			return x.(uint) >> y
		case uint8:
			return x.(uint8) >> y
		case uint16:
			return x.(uint16) >> y
		case uint32:
			return x.(uint32) >> y
		case uint64:
			return x.(uint64) >> y
		case uintptr:
			return x.(uintptr) >> y
		}

	case token.LSS:
		switch x.(type) {
		case int:
			return x.(int) < y.(int)
		case int8:
			return x.(int8) < y.(int8)
		case int16:
			return x.(int16) < y.(int16)
		case int32:
			return x.(int32) < y.(int32)
		case int64:
			return x.(int64) < y.(int64)
		case uint:
			return x.(uint) < y.(uint)
		case uint8:
			return x.(uint8) < y.(uint8)
		case uint16:
			return x.(uint16) < y.(uint16)
		case uint32:
			return x.(uint32) < y.(uint32)
		case uint64:
			return x.(uint64) < y.(uint64)
		case uintptr:
			return x.(uintptr) < y.(uintptr)
		case float32:
			return x.(float32) < y.(float32)
		case float64:
			return x.(float64) < y.(float64)
		case string:
			return x.(string) < y.(string)
		}

	case token.LEQ:
		switch x.(type) {
		case int:
			return x.(int) <= y.(int)
		case int8:
			return x.(int8) <= y.(int8)
		case int16:
			return x.(int16) <= y.(int16)
		case int32:
			return x.(int32) <= y.(int32)
		case int64:
			return x.(int64) <= y.(int64)
		case uint:
			return x.(uint) <= y.(uint)
		case uint8:
			return x.(uint8) <= y.(uint8)
		case uint16:
			return x.(uint16) <= y.(uint16)
		case uint32:
			return x.(uint32) <= y.(uint32)
		case uint64:
			return x.(uint64) <= y.(uint64)
		case uintptr:
			return x.(uintptr) <= y.(uintptr)
		case float32:
			return x.(float32) <= y.(float32)
		case float64:
			return x.(float64) <= y.(float64)
		case string:
			return x.(string) <= y.(string)
		}

	case token.EQL:
		switch x.(type) {
		case structure, array, iface:
			return mkScalar(eqTerm(t, x, y), types.Bool)
		}
		return eqnil(t, x, y)

	case token.NEQ:
		switch x.(type) {
		case structure, array, iface:
			return mkScalar(Not(eqTerm(t, x, y)), types.Bool)
		}
		return !eqnil(t, x, y)

	case token.GTR:
		switch x.(type) {
		case int:
			return x.(int) > y.(int)
		case int8:
			return x.(int8) > y.(int8)
		case int16:
			return x.(int16) > y.(int16)
		case int32:
			return x.(int32) > y.(int32)
		case int64:
			return x.(int64) > y.(int64)
		case uint:
			return x.(uint) > y.(uint)
		case uint8:
			return x.(uint8) > y.(uint8)
		case uint16:
			return x.(uint16) > y.(uint16)
		case uint32:
			return x.(uint32) > y.(uint32)
		case uint64:
			return x.(uint64) > y.(uint64)
		case uintptr:
			return x.(uintptr) > y.(uintptr)
		case float32:
			return x.(float32) > y.(float32)
		case float64:
			return x.(float64) > y.(float64)
		case string:
			return x.(string) > y.(string)
		}

	case token.GEQ:
		switch x.(type) {
		case int:
			return x.(int) >= y.(int)
		case int8:
			return x.(int8) >= y.(int8)
		case int16:
			return x.(int16) >= y.(int16)
		case int32:
			return x.(int32) >= y.(int32)
		case int64:
			return x.(int64) >= y.(int64)
		case uint:
			return x.(uint) >= y.(uint)
		case uint8:
			return x.(uint8) >= y.(uint8)
		case uint16:
			return x.(uint16) >= y.(uint16)
		case uint32:
			return x.(uint32) >= y.(uint32)
		case uint64:
			return x.(uint64) >= y.(uint64)
		case uintptr:
			return x.(uintptr) >= y.(uintptr)
		case float32:
			return x.(float32) >= y.(float32)
		case float64:
			return x.(float64) >= y.(float64)
		case string:
			return x.(string) >= y.(string)
		}
	}
	panic(fmt.Sprintf("invalid binary op: %T %s %T", x, op, y))
}

// eqnil returns the comparison x == y using the equivalence relation
// appropriate for type t.
// If t is a reference type, at most one of x or y may be a nil value
// of that type.
func eqnil(t types.Type, x, y value) bool {
	switch t.Underlying().(type) {
	case *types.Map, *types.Signature, *types.Slice:
		// Since these types don't support comparison,
		// one of the operands must be a literal nil.
		switch x := x.(type) {
		case *omap:
			return (x != nil) == (y.(*omap) != nil)
		case *ssa.Function:
			switch y := y.(type) {
			case *ssa.Function:
				return (x != nil) == (y != nil)
			case *closure:
				return true
			}
		case *closure:
			return (x != nil) == (y.(*ssa.Function) != nil)
		case []value:
			return (x != nil) == (y.([]value) != nil)
		}
		panic(fmt.Sprintf("eqnil(%s): illegal dynamic type: %T", t, x))
	}

	return equals(t, x, y)
}

func unop(instr *ssa.UnOp, x value) value {
	if sx, ok := x.(symv); ok {
		return symUnop(instr.Op, sx)
	}
	switch instr.Op {
	case token.ARROW: // receive
		v, ok := <-x.(chan value)
		if !ok {
			v = zero(instr.X.Type().Underlying().(*types.Chan).Elem())
		}
		if instr.CommaOk {
			v = tuple{v, ok}
		}
		return v
	case token.SUB:
		switch x := x.(type) {
		case int:
			return -x
		case int8:
			return -x
		case int16:
			return -x
		case int32:
			return -x
		case int64:
			return -x
		case uint:
			return -x
		case uint8:
			return -x
		case uint16:
			return -x
		case uint32:
			return -x
		case uint64:
			return -x
		case uintptr:
			return -x
		case float32:
			return -x
		case float64:
			return -x
		case complex64:
			return -x
		case complex128:
			return -x
		}
	case token.MUL:
		if sp, ok := x.(*symptr); ok {
			return sp.load(mustDeref(instr.X.Type()))
		}
		return load(mustDeref(instr.X.Type()), x.(*value))
	case token.NOT:
		return !x.(bool)
	case token.XOR:
		switch x := x.(type) {
		case int:
			return ^x
		case int8:
			return ^x
		case int16:
			return ^x
		case int32:
			return ^x
		case int64:
			return ^x
		case uint:
			return ^x
		case uint8:
			return ^x
		case uint16:
			return ^x
		case uint32:
			return ^x
		case uint64:
			return ^x
		case uintptr:
			return ^x
		}
	}
	panic(fmt.Sprintf("invalid unary op %s %T", instr.Op, x))
}

// typeAssert checks whether dynamic type of itf is instr.AssertedType.
// It returns the extracted value on success, and panics on failure,
// unless instr.CommaOk, in which case it always returns a "value,ok" tuple.
func typeAssert(instr *ssa.TypeAssert, itf iface) value {
	var v value
	err := ""
	if itf.t == nil {
		err = fmt.Sprintf("interface conversion: interface is nil, not %s", instr.AssertedType)

	} else if idst, ok := instr.AssertedType.Underlying().(*types.Interface); ok {
		v = itf
		err = checkInterface(idst, itf)

	} else if types.Identical(itf.t, instr.AssertedType) {
		v = itf.v // extract value

	} else {
		err = fmt.Sprintf("interface conversion: interface is %s, not %s", itf.t, instr.AssertedType)
	}
	// Note: if instr.Underlying==true ever becomes reachable from interp check that
	// types.Identical(itf.t.Underlying(), instr.AssertedType)

	if err != "" {
		if !instr.CommaOk {
			panic(err)
		}
		return tuple{zero(instr.AssertedType), false}
	}
	if instr.CommaOk {
		return tuple{v, true}
	}
	return v
}

// This variable is no longer used but remains to prevent build breakage.
var CapturedOutput *bytes.Buffer

// callBuiltin interprets a call to builtin fn with arguments args,
// returning its result.
func callBuiltin(caller *frame, fn *ssa.Builtin, args []value) value {
	switch fn.Name() {
	case "append":
		if len(args) == 1 {
			return args[0]
		}
		if s, ok := args[1].(symstr); ok {
			arg0 := args[0].([]value)
			arg0 = append(arg0, s.b...)
			return arg0
		}
		if s, ok := args[1].(string); ok {
			// append([]byte, ...string) []byte
			arg0 := args[0].([]value)
			for i := 0; i < len(s); i++ {
				arg0 = append(arg0, s[i])
			}
			return arg0
		}
		// append([]T, ...[]T) []T — struct and array elements are VALUES: they are copied, not shared
		// (stores into aggregates are done in place, so sharing would alias the two slices' elements)
		return append(args[0].([]value), copyAggElems(args[1].([]value))...)

	case "copy": // copy([]T, []T) int or copy([]byte, string) int
		src := args[1]
		if s, ok := src.(symstr); ok {
			src = append([]value{}, s.b...)
		}
		if _, ok := src.(string); ok {
			params := fn.Type().(*types.Signature).Params()
			src = conv(params.At(0).Type(), params.At(1).Type(), src)
		}
		return copy(args[0].([]value), copyAggElems(src.([]value)))

	case "close": // close(chan T)
		close(args[0].(chan value))
		return nil

	case "delete": // delete(map[K]value, K)
		args[0].(*omap).delete(args[1])
		return nil

	case "clear": // clear(map) / clear(slice)
		switch x := args[0].(type) {
		case *omap:
			if x != nil {
				x.keys, x.vals = nil, nil
			}
		case []value:
			if len(x) > 0 {
				var et types.Type
				if sig, ok := fn.Type().(*types.Signature); ok && sig.Params().Len() > 0 {
					if st, ok := sig.Params().At(0).Type().Underlying().(*types.Slice); ok {
						et = st.Elem()
					}
				}
				for i := range x {
					if et != nil {
						x[i] = zero(et)
					} else {
						x[i] = zero(types.Typ[types.Uint8])
					}
				}
			}
		}
		return nil

	case "print", "println": // print(any, ...)
		ln := fn.Name() == "println"
		var buf bytes.Buffer
		for i, arg := range args {
			if i > 0 && ln {
				buf.WriteRune(' ')
			}
			buf.WriteString(toString(arg))
		}
		if ln {
			buf.WriteRune('\n')
		}
		os.Stderr.Write(buf.Bytes())
		return nil

	case "len":
		switch x := args[0].(type) {
		case string:
			return len(x)
		case array:
			return len(x)
		case *value:
			return len((*x).(array))
		case []value:
			return len(x)
		case *omap:
			return x.len()
		case symstr:
			return len(x.b)
		case chan value:
			return len(x)
		default:
			panic(fmt.Sprintf("len: illegal operand: %T", x))
		}

	case "cap":
		switch x := args[0].(type) {
		case array:
			return cap(x)
		case *value:
			return cap((*x).(array))
		case []value:
			return cap(x)
		case chan value:
			return cap(x)
		default:
			panic(fmt.Sprintf("cap: illegal operand: %T", x))
		}

	case "min":
		return foldLeft(min, args)
	case "max":
		return foldLeft(max, args)

	case "real":
		switch c := args[0].(type) {
		case complex64:
			return real(c)
		case complex128:
			return real(c)
		default:
			panic(fmt.Sprintf("real: illegal operand: %T", c))
		}

	case "imag":
		switch c := args[0].(type) {
		case complex64:
			return imag(c)
		case complex128:
			return imag(c)
		default:
			panic(fmt.Sprintf("imag: illegal operand: %T", c))
		}

	case "complex":
		switch f := args[0].(type) {
		case float32:
			return complex(f, args[1].(float32))
		case float64:
			return complex(f, args[1].(float64))
		default:
			panic(fmt.Sprintf("complex: illegal operand: %T", f))
		}

	case "panic":
		// ssa.Panic handles most cases; this is only for "go
		// panic" or "defer panic".
		panic(targetPanic{args[0]})

	case "recover":
		return doRecover(caller)

	case "ssa:wrapnilchk":
		recv := args[0]
		if recv.(*value) == nil {
			recvType := args[1]
			methodName := args[2]
			panic(fmt.Sprintf("value method (%s).%s called using nil *%s pointer",
				recvType, methodName, recvType))
		}
		return recv

	case "ssa:deferstack":
		return &caller.defers
	}

	panic("unknown built-in: " + fn.Name())
}

func rangeIter(x value) iter {
	switch x := x.(type) {
	case *omap:
		it := &omapIter{m: x}
		if x != nil {
			it.snap = append([]value{}, x.keys...)
		}
		return it
	case symstr:
		return &symStrIter{s: x}
	case string:
		return &stringIter{Reader: strings.NewReader(x)}
	}
	panic(fmt.Sprintf("cannot range over %T", x))
}

// widen widens a basic typed value x to the widest type of its
// category, one of:
//
//	bool, int64, uint64, float64, complex128, string.
//
// This is inefficient but reduces the size of the cross-product of
// cases we have to consider.
func widen(x value) value {
	switch y := x.(type) {
	case bool, int64, uint64, float64, complex128, string, unsafe.Pointer:
		return x
	case int:
		return int64(y)
	case int8:
		return int64(y)
	case int16:
		return int64(y)
	case int32:
		return int64(y)
	case uint:
		return uint64(y)
	case uint8:
		return uint64(y)
	case uint16:
		return uint64(y)
	case uint32:
		return uint64(y)
	case uintptr:
		return uint64(y)
	case float32:
		return float64(y)
	case complex64:
		return complex128(y)
	}
	panic(fmt.Sprintf("cannot widen %T", x))
}

// conv converts the value x of type t_src to type t_dst and returns
// the result.
// Possible cases are described with the ssa.Convert operator.
func conv(t_dst, t_src types.Type, x value) value {
	ut_src := t_src.Underlying()
	ut_dst := t_dst.Underlying()
	if r, ok := floatConv(ut_dst, ut_src, x); ok {
		return r
	}
	if r, ok := symConv(ut_dst, ut_src, x); ok {
		return r
	}

	// Destination type is not an "untyped" type.
	if b, ok := ut_dst.(*types.Basic); ok && b.Info()&types.IsUntyped != 0 {
		panic("oops: conversion to 'untyped' type: " + b.String())
	}

	// Nor is it an interface type.
	if _, ok := ut_dst.(*types.Interface); ok {
		if _, ok := ut_src.(*types.Interface); ok {
			panic("oops: Convert should be ChangeInterface")
		} else {
			panic("oops: Convert should be MakeInterface")
		}
	}

	// Remaining conversions:
	//    + untyped string/number/bool constant to a specific
	//      representation.
	//    + conversions between non-complex numeric types.
	//    + conversions between complex numeric types.
	//    + integer/[]byte/[]rune -> string.
	//    + string -> []byte/[]rune.
	//
	// All are treated the same: first we extract the value to the
	// widest representation (int64, uint64, float64, complex128,
	// or string), then we convert it to the desired type.

	switch ut_src := ut_src.(type) {
	case *types.Pointer:
		switch ut_dst := ut_dst.(type) {
		case *types.Basic:
			// *value to unsafe.Pointer?
			if ut_dst.Kind() == types.UnsafePointer {
				return unsafe.Pointer(x.(*value))
			}
		}

	case *types.Slice:
		// []byte or []rune -> string
		switch ut_src.Elem().Underlying().(*types.Basic).Kind() {
		case types.Byte:
			x := x.([]value)
			b := make([]byte, 0, len(x))
			for i := range x {
				b = append(b, x[i].(byte))
			}
			return string(b)

		case types.Rune:
			x := x.([]value)
			r := make([]rune, 0, len(x))
			for i := range x {
				r = append(r, x[i].(rune))
			}
			return string(r)
		}

	case *types.Basic:
		x = widen(x)

		// integer -> string?
		if ut_src.Info()&types.IsInteger != 0 {
			if ut_dst, ok := ut_dst.(*types.Basic); ok && ut_dst.Kind() == types.String {
				return fmt.Sprintf("%c", x)
			}
		}

		// string -> []rune, []byte or string?
		if s, ok := x.(string); ok {
			switch ut_dst := ut_dst.(type) {
			case *types.Slice:
				var res []value
				switch ut_dst.Elem().Underlying().(*types.Basic).Kind() {
				case types.Rune:
					for _, r := range []rune(s) {
						res = append(res, r)
					}
					return res
				case types.Byte:
					for _, b := range []byte(s) {
						res = append(res, b)
					}
					return res
				}
			case *types.Basic:
				if ut_dst.Kind() == types.String {
					return x.(string)
				}
			}
			break // fail: no other conversions for string
		}

		// unsafe.Pointer -> *value
		if ut_src.Kind() == types.UnsafePointer {
			// TODO(adonovan): this is wrong and cannot
			// really be fixed with the current design.
			//
			// return (*value)(x.(unsafe.Pointer))
			// creates a new pointer of a different
			// type but the underlying interface value
			// knows its "true" type and so cannot be
			// meaningfully used through the new pointer.
			//
			// To make this work, the interpreter needs to
			// simulate the memory layout of a real
			// compiled implementation.
			//
			// To at least preserve type-safety, we'll
			// just return the zero value of the
			// destination type.
			return zero(t_dst)
		}

		// Conversions between complex numeric types?
		if ut_src.Info()&types.IsComplex != 0 {
			switch ut_dst.(*types.Basic).Kind() {
			case types.Complex64:
				return complex64(x.(complex128))
			case types.Complex128:
				return x.(complex128)
			}
			break // fail: no other conversions for complex
		}

		// Conversions between non-complex numeric types?
		if ut_src.Info()&types.IsNumeric != 0 {
			kind := ut_dst.(*types.Basic).Kind()
			switch x := x.(type) {
			case int64: // signed integer -> numeric?
				switch kind {
				case types.Int:
					return int(x)
				case types.Int8:
					return int8(x)
				case types.Int16:
					return int16(x)
				case types.Int32:
					return int32(x)
				case types.Int64:
					return int64(x)
				case types.Uint:
					return uint(x)
				case types.Uint8:
					return uint8(x)
				case types.Uint16:
					return uint16(x)
				case types.Uint32:
					return uint32(x)
				case types.Uint64:
					return uint64(x)
				case types.Uintptr:
					return uintptr(x)
				case types.Float32:
					return float32(x)
				case types.Float64:
					return float64(x)
				}

			case uint64: // unsigned integer -> numeric?
				switch kind {
				case types.Int:
					return int(x)
				case types.Int8:
					return int8(x)
				case types.Int16:
					return int16(x)
				case types.Int32:
					return int32(x)
				case types.Int64:
					return int64(x)
				case types.Uint:
					return uint(x)
				case types.Uint8:
					return uint8(x)
				case types.Uint16:
					return uint16(x)
				case types.Uint32:
					return uint32(x)
				case types.Uint64:
					return uint64(x)
				case types.Uintptr:
					return uintptr(x)
				case types.Float32:
					return float32(x)
				case types.Float64:
					return float64(x)
				}

			case float64: // floating point -> numeric?
				switch kind {
				case types.Int:
					return int(x)
				case types.Int8:
					return int8(x)
				case types.Int16:
					return int16(x)
				case types.Int32:
					return int32(x)
				case types.Int64:
					return int64(x)
				case types.Uint:
					return uint(x)
				case types.Uint8:
					return uint8(x)
				case types.Uint16:
					return uint16(x)
				case types.Uint32:
					return uint32(x)
				case types.Uint64:
					return uint64(x)
				case types.Uintptr:
					return uintptr(x)
				case types.Float32:
					return float32(x)
				case types.Float64:
					return float64(x)
				}
			}
		}
	}

	panic(fmt.Sprintf("unsupported conversion: %s  -> %s, dynamic type %T", t_src, t_dst, x))
}

// sliceToArrayPointer converts the value x of type slice to type t_dst
// a pointer to array and returns the result.
func sliceToArrayPointer(t_dst, t_src types.Type, x value) value {
	if _, ok := t_src.Underlying().(*types.Slice); ok {
		if ptr, ok := t_dst.Underlying().(*types.Pointer); ok {
			if arr, ok := ptr.Elem().Underlying().(*types.Array); ok {
				x := x.([]value)
				if arr.Len() > int64(len(x)) {
					panic("array length is greater than slice length")
				}
				if x == nil {
					return zero(t_dst)
				}
				v := value(array(x[:arr.Len()]))
				return &v
			}
		}
	}

	panic(fmt.Sprintf("unsupported conversion: %s  -> %s, dynamic type %T", t_src, t_dst, x))
}

// checkInterface checks that the method set of x implements the
// interface itype.
// On success it returns "", on failure, an error message.
func checkInterface(itype *types.Interface, x iface) string {
	if meth, _ := types.MissingMethod(x.t, itype, true); meth != nil {
		return fmt.Sprintf("interface conversion: %v is not %v: missing method %s",
			x.t, itype, meth.Name())
	}
	return "" // ok
}

func foldLeft(op func(value, value) value, args []value) value {
	x := args[0]
	for _, arg := range args[1:] {
		x = op(x, arg)
	}
	return x
}

func min(x, y value) value {
	switch x := x.(type) {
	case float32:
		return fmin(x, y.(float32))
	case float64:
		return fmin(x, y.(float64))
	}

	// return (y < x) ? y : x
	if binop(token.LSS, nil, y, x).(bool) {
		return y
	}
	return x
}

func max(x, y value) value {
	switch x := x.(type) {
	case float32:
		return fmax(x, y.(float32))
	case float64:
		return fmax(x, y.(float64))
	}

	// return (y > x) ? y : x
	if binop(token.GTR, nil, y, x).(bool) {
		return y
	}
	return x
}

// copied from $GOROOT/src/runtime/minmax.go

type floaty interface{ ~float32 | ~float64 }

func fmin[F floaty](x, y F) F {
	if y != y || y < x {
		return y
	}
	if x != x || x < y || x != 0 {
		return x
	}
	// x and y are both ±0
	// if either is -0, return -0; else return +0
	return forbits(x, y)
}

func fmax[F floaty](x, y F) F {
	if y != y || y > x {
		return y
	}
	if x != x || x > y || x != 0 {
		return x
	}
	// x and y are both ±0
	// if both are -0, return -0; else return +0
	return fandbits(x, y)
}

func forbits[F floaty](x, y F) F {
	switch unsafe.Sizeof(x) {
	case 4:
		*(*uint32)(unsafe.Pointer(&x)) |= *(*uint32)(unsafe.Pointer(&y))
	case 8:
		*(*uint64)(unsafe.Pointer(&x)) |= *(*uint64)(unsafe.Pointer(&y))
	}
	return x
}

func fandbits[F floaty](x, y F) F {
	switch unsafe.Sizeof(x) {
	case 4:
		*(*uint32)(unsafe.Pointer(&x)) &= *(*uint32)(unsafe.Pointer(&y))
	case 8:
		*(*uint64)(unsafe.Pointer(&x)) &= *(*uint64)(unsafe.Pointer(&y))
	}
	return x
}

// copyAgg copies a struct or array value (value semantics); everything else is returned as is.
func copyAgg(v value) value {
	switch x := v.(type) {
	case structure:
		out := make(structure, len(x))
		for i := range x {
			out[i] = copyAgg(x[i])
		}
		return out
	case array:
		out := make(array, len(x))
		for i := range x {
			out[i] = copyAgg(x[i])
		}
		return out
	}
	return v
}

func copyAggElems(xs []value) []value {
	needs := false
	for _, x := range xs {
		switch x.(type) {
		case structure, array:
			needs = true
		}
		break
	}
	if !needs {
		return xs
	}
	out := make([]value, len(xs))
	for i, x := range xs {
		out[i] = copyAgg(x)
	}
	return out
}
