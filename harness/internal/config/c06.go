//go:build verif

package config

import (
	vrt "github.com/nuetzliches/hookaido/internal/verifrt"
)

// verif:harness props=C06 tier=quick native=yes weight=40
// verif:bounds LINK between the configuration text and the domain the backoff/attempt-bound harnesses assume: a deliver block whose retry directive is generated from menus (max in {absent,0,1,3,-1,x}; base and cap in {absent,0s,1s,5s,2m,-1s,1x}; jitter in {absent,0,0.2,1,1.5,-0.1,NaN,x}) placed either on the route or in the defaults block, through the real Parse and Compile
func VerifC06CompiledRetryDomain() {
	maxM := []string{"", "0", "1", "3", "-1", "x"}
	durM := []string{"", "0s", "1s", "5s", "2m", "-1s", "1x"}
	jitM := []string{"", "0", "0.2", "1", "1.5", "-0.1", "NaN", "x"}
	gen := func(tag string) string {
		s := "retry exponential"
		if v := maxM[vrt.Choose(tag+"-max", len(maxM))]; v != "" {
			s += " max " + v
		}
		if v := durM[vrt.Choose(tag+"-base", len(durM))]; v != "" {
			s += " base " + v
		}
		if v := durM[vrt.Choose(tag+"-cap", len(durM))]; v != "" {
			s += " cap " + v
		}
		if v := jitM[vrt.Choose(tag+"-jitter", len(jitM))]; v != "" {
			s += " jitter " + v
		}
		return s
	}
	// the directive appears once: in the defaults block (inherited by the route) or on the route's own deliver block
	directive := gen("retry")
	src := ""
	if vrt.Choose("in-defaults-block", 2) == 1 {
		src += "defaults {\n  deliver {\n    " + directive + "\n  }\n}\n/a {\n  deliver \"https://t.example/h\" {\n  }\n}\n"
	} else {
		src += "/a {\n  deliver \"https://t.example/h\" {\n    " + directive + "\n  }\n}\n"
	}
	cfg, err := Parse([]byte(src))
	if err != nil {
		return
	}
	compiled, res := Compile(cfg)
	vrt.Observe("ok", res.OK)
	if !res.OK {
		vrt.Cover("retry.compile-refused")
		return
	}
	vrt.Cover("retry.accepted")
	vrt.Assert("C06.link.one-route-one-delivery", len(compiled.Routes) == 1 && len(compiled.Routes[0].Deliveries) == 1)
	if len(compiled.Routes) != 1 || len(compiled.Routes[0].Deliveries) != 1 {
		return
	}
	r := compiled.Routes[0].Deliveries[0].Retry
	vrt.Assert("C06.link.accepted-retry-has-positive-max", r.Max > 0)
	vrt.Assert("C06.link.accepted-retry-has-0-lt-base-le-cap", r.Base > 0 && r.Base <= r.Cap)
	vrt.Assert("C06.link.accepted-jitter-is-never-outside-0-1", !(r.Jitter < 0) && !(r.Jitter > 1))
	vrt.Assert("C06.link.type-is-exponential", r.Type == "exponential")
}
