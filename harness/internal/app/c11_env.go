//go:build verif

package app

import (
	"context"
	"net/http"
	"net/url"
	"os"

	"github.com/nuetzliches/hookaido/internal/config"
	vrt "github.com/nuetzliches/hookaido/internal/verifrt"
)

// verif:harness props=C11 tier=quick weight=60
// verif:bounds END TO END from configuration text with tokens taken from the ENVIRONMENT: pull_api, admin_api and one pull route each with `auth token env:VAR` (the route's own token optional); every variable holds an arbitrary ASCII string of 0..2 bytes (thorough 0..3; blanks, tabs, newlines and NULs included — os.Getenv is replaced by the harness), real Parse -> Compile -> newRuntimeState -> loadAuth; then requests WITHOUT a token, with an empty bearer value, and with exactly the configured value to Pull (HTTP), Worker (gRPC authorizer) and Admin
func VerifC11EnvironmentTokensNeverOpenTheAPI() {
	max := 2
	if vrt.Thorough() {
		max = 3
	}
	env := map[string]string{
		"VT_GLOBAL": vrt.String("env-global-token", max),
		"VT_ADMIN":  vrt.String("env-admin-token", max),
		"VT_ROUTE":  vrt.String("env-route-token", max),
	}
	for _, v := range env {
		for i := 0; i < len(v); i++ {
			vrt.Assume(v[i] < 0x80)
		}
	}
	vrt.Replace(os.Getenv, func(name string) string { return env[name] })
	routeOwn := vrt.Choose("route-has-own-token", 2) == 1
	src := "pull_api {\n  listen :9443\n  auth token env:VT_GLOBAL\n}\nadmin_api {\n  listen 127.0.0.1:2019\n  auth token env:VT_ADMIN\n}\n/x {\n  pull {\n    path /px\n"
	if routeOwn {
		src += "    auth token env:VT_ROUTE\n"
	}
	src += "  }\n}\n"
	cfg, err := config.Parse([]byte(src))
	vrt.Assert("C11.env.text-parses", err == nil)
	if err != nil {
		return
	}
	compiled, res := config.Compile(cfg)
	if !res.OK {
		return // (refusing to compile is failing closed)
	}
	state := newRuntimeState(compiled)
	if err := state.loadAuth(compiled); err != nil {
		vrt.Cover("env.token-loading-refused") // refusing to start is failing closed
		return
	}
	vrt.Cover("env.started")
	req := func(path, authz string, set bool) *http.Request {
		r := &http.Request{Method: "POST", URL: &url.URL{Path: path}, Header: http.Header{}, Body: http.NoBody}
		if set {
			r.Header.Set("Authorization", authz)
		}
		return r
	}
	// no token at all, or an empty bearer value: never authorized, on any API
	kind := vrt.Choose("request-without-token", 3)
	var r *http.Request
	switch kind {
	case 0:
		r = req("/px/dequeue", "", false)
	case 1:
		r = req("/px/dequeue", "Bearer ", true)
	default:
		r = req("/px/dequeue", "Bearer", true)
	}
	vrt.Assert("C11.env.pull-without-a-token-is-never-authorized", !state.authorizePull(r))
	vrt.Assert("C11.env.admin-without-a-token-is-never-authorized", !state.authorizeAdmin(r))
	vrt.Assert("C11.env.worker-without-a-token-is-never-authorized", !state.authorizeWorker(context.Background(), "/px"))
}
