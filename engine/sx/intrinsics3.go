package sx

import (
	"time"
	"crypto/hmac"
	"crypto/sha256"
	"fmt"
	"go/token"
	"go/types"
	"strconv"
	"strings"
)

type ufApp struct {
	name string
	in   [][]value
	out  []value
}

func allConcrete(bs []value) ([]byte, bool) {
	out := make([]byte, len(bs))
	for i, b := range bs {
		c, ok := b.(uint8)
		if !ok {
			return nil, false
		}
		out[i] = c
	}
	return out, true
}

// uf applies an uninterpreted function from byte strings to 32 bytes.
func (e *Explorer) uf(name string, in ...[]value) []value {
	// fully concrete: compute the real function
	conc := make([][]byte, len(in))
	all := true
	for i, a := range in {
		c, ok := allConcrete(a)
		if !ok {
			all = false
			break
		}
		conc[i] = c
	}
	pinnedSym := false
	if all && e.Pin != nil {
		// interpreter replay: the symbolic run created variables here iff the next name is pinned
		probe := fmt.Sprintf("|%s.out[%d]#%d|", name, 0, e.seq+1)
		_, pinnedSym = e.Pin.Values[probe]
	}
	out := make([]value, 32)
	if all && !pinnedSym {
		var d [32]byte
		switch name {
		case "sha256":
			d = sha256.Sum256(conc[0])
		case "hmacsha256":
			m := hmac.New(sha256.New, conc[0])
			m.Write(conc[1])
			copy(d[:], m.Sum(nil))
		}
		for i := range out {
			out[i] = d[i]
		}
	} else {
		for i := range out {
			out[i] = mkScalar(e.pinOr(e.fresh(fmt.Sprintf("%s.out[%d]", name, i), BV(8))), types.Uint8)
		}
	}
	for _, prev := range e.ufApps {
		if prev.name != name {
			continue
		}
		same := TrueT
		for i := range in {
			if len(in[i]) != len(prev.in[i]) {
				same = FalseT
				break
			}
			for j := range in[i] {
				same = And(same, Eq(termOf(in[i][j]), termOf(prev.in[i][j])))
			}
		}
		if same.Op == "false" {
			continue
		}
		eqOut := TrueT
		for j := range out {
			eqOut = And(eqOut, Eq(termOf(out[j]), termOf(prev.out[j])))
		}
		e.addPC(Or(Not(same), eqOut))
	}
	cp := make([][]value, len(in))
	for i := range in {
		cp[i] = append([]value{}, in[i]...)
	}
	e.ufApps = append(e.ufApps, ufApp{name, cp, out})
	return out
}

func init() {
	symExternals["crypto/sha256.Sum256"] = func(fr *frame, args []value) value {
		return array(X.uf("sha256", args[0].([]value)))
	}
	symExternals[rtPkg+"SHA256"] = symExternals["crypto/sha256.Sum256"]
	symExternals[rtPkg+"HMACSHA256"] = func(fr *frame, args []value) value {
		return array(X.uf("hmacsha256", args[0].([]value), args[1].([]value)))
	}
	symExternals["crypto/hmac.New"] = func(fr *frame, args []value) value {
		rt := fr.i.prog.ImportedPackage(strings.TrimSuffix(rtPkg, "."))
		ctor := rt.Func("NewHMACModel")
		r := call(fr.i, fr, token.NoPos, ctor, []value{args[1]})
		return iface{t: types.NewPointer(rt.Type("HMACModel").Type()), v: r}
	}

	// time.Parse / time.Date on concrete arguments: the real function, result in the time model (instant only).
	symExternals["time.Parse"] = func(fr *frame, args []value) value {
		layout, ok1 := args[0].(string)
		val, ok2 := args[1].(string)
		if !ok1 || !ok2 {
			panic(abortPath{"time model: time.Parse on a symbolic string"})
		}
		t, err := time.Parse(layout, val)
		if err != nil {
			errorsPkg := fr.i.prog.ImportedPackage("errors")
			cell := value(structure{err.Error()})
			return tuple{mkTime(uint64(0), int64(0)), iface{t: types.NewPointer(errorsPkg.Type("errorString").Type()), v: &cell}}
		}
		return tuple{mkTime(uint64(1), mkScalar(tConst(t.UnixNano()), types.Int64)), iface{}}
	}
	symExternals["time.Date"] = func(fr *frame, args []value) value {
		var n [7]int
		for k := 0; k < 7; k++ {
			switch x := args[k].(type) {
			case int:
				n[k] = x
			case int64: // time.Month
				n[k] = int(x)
			default:
				panic(abortPath{"time model: time.Date on symbolic components"})
			}
		}
		t := time.Date(n[0], time.Month(n[1]), n[2], n[3], n[4], n[5], n[6], time.UTC)
		return mkTime(uint64(1), mkScalar(tConst(t.UnixNano()), types.Int64))
	}

	symExternals["time.Unix"] = func(fr *frame, args []value) value {
		sec, nsec := termOf(args[0]), termOf(args[1])
		ns := BVBin("bvadd", BVBin("bvmul", sec, BVConst(1000000000, 64)), nsec)
		return mkTime(uint64(1), mkScalar(ns, types.Int64))
	}

	// (time.Time).Unix: seconds since the epoch (instants are >= 1970 in the model, so truncation = floor).
	symExternals["(time.Time).Unix"] = func(fr *frame, args []value) value {
		requireSet(args[0], "Unix")
		_, ns := timeParts(args[0])
		if ns.Op == "const" {
			return int64(ns.Val) / 1000000000
		}
		// time.Unix(sec, c).Unix() with 0 <= c < 1e9: the seconds term itself (no division for the solver)
		if ns.Op == "bvadd" && len(ns.Args) == 2 && ns.Args[0].Op == "bvmul" && ns.Args[1].Op == "const" && ns.Args[1].Val < 1000000000 {
			m := ns.Args[0]
			if m.Args[1].Op == "const" && m.Args[1].Val == 1000000000 {
				return mkScalar(m.Args[0], types.Int64)
			}
			if m.Args[0].Op == "const" && m.Args[0].Val == 1000000000 {
				return mkScalar(m.Args[1], types.Int64)
			}
		}
		if ns.Op == "bvmul" && len(ns.Args) == 2 && ns.Args[1].Op == "const" && ns.Args[1].Val == 1000000000 {
			return mkScalar(ns.Args[0], types.Int64)
		}
		return mkScalar(BVBin("bvsdiv", ns, BVConst(1000000000, 64)), types.Int64)
	}
	symExternals["(time.Time).UnixMilli"] = func(fr *frame, args []value) value {
		requireSet(args[0], "UnixMilli")
		_, ns := timeParts(args[0])
		if ns.Op == "const" {
			return int64(ns.Val) / 1000000
		}
		return mkScalar(BVBin("bvsdiv", ns, BVConst(1000000, 64)), types.Int64)
	}

	// formatting of instants is never the subject of a property: a fixed placeholder
	// (a concrete instant with a concrete layout is formatted by the real time package, in UTC)
	symExternals["(time.Time).Format"] = func(fr *frame, args []value) value {
		if layout, ok := args[1].(string); ok {
			if _, ns := timeParts(args[0]); ns.Op == "const" {
				return time.Unix(0, int64(ns.Val)).UTC().Format(layout)
			}
		}
		return "2006-01-02T15:04:05Z"
	}
	symExternals["(time.Time).String"] = func(fr *frame, args []value) value { return "2006-01-02 15:04:05 +0000 UTC" }
	symExternals["time.Since"] = func(fr *frame, args []value) value {
		now := symExternals["time.Now"](fr, nil)
		return symExternals["(time.Time).Sub"](fr, []value{now, args[0]})
	}
	symExternals["(time.Duration).Milliseconds"] = func(fr *frame, args []value) value {
		t := termOf(args[0])
		if t.Op == "const" {
			return int64(t.Val) / 1000000
		}
		return mkScalar(BVBin("bvsdiv", t, BVConst(1000000, 64)), types.Int64)
	}

	// fmt.Sprintf with %s %d %v %q over strings and ints.
	symExternals["fmt.Sprintf"] = func(fr *frame, args []value) value {
		format := args[0].(string)
		va := args[1].([]value)
		var out []value
		ai := 0
		for i := 0; i < len(format); i++ {
			c := format[i]
			if c != '%' || i+1 >= len(format) {
				out = append(out, c)
				continue
			}
			i++
			verb := format[i]
			if verb == '%' {
				out = append(out, uint8('%'))
				continue
			}
			if ai >= len(va) {
				panic(abortPath{"fmt.Sprintf: missing argument"})
			}
			argI := va[ai].(iface)
			arg := argI.v
			ai++
			// errors and Stringers: use their own text (the real Error()/String() method is interpreted)
			if argI.t != nil {
				for _, mname := range []string{"Error", "String"} {
					if m := methodOf(fr.i, argI.t, mname); m != nil && m.Signature.Params().Len() == 0 && m.Signature.Results().Len() == 1 {
						if r, ok := call(fr.i, fr, token.NoPos, m, []value{arg}).(string); ok {
							arg = r
						} else if rs, ok := call(fr.i, fr, token.NoPos, m, []value{arg}).(symstr); ok {
							arg = rs
						}
						break
					}
				}
			} else {
				arg = "<nil>"
			}
			switch a := arg.(type) {
			case bool:
				for _, ch := range []byte(strconv.FormatBool(a)) {
					out = append(out, ch)
				}
			case string, symstr:
				b, _ := strBytes(a)
				if verb == 'q' {
					out = append(out, uint8('"'))
					out = append(out, b...)
					out = append(out, uint8('"'))
				} else {
					out = append(out, b...)
				}
			case int, int64, int32, uint, uint64, uint32, uint8:
				for _, ch := range []byte(strconv.FormatInt(asInt64(a), 10)) {
					out = append(out, ch)
				}
			default:
				// anything else: an opaque rendering (formatting is never the subject of a property)
				for _, ch := range []byte("<opaque>") {
					out = append(out, ch)
				}
			}
		}
		return mkStr(out)
	}
}

func init() {
	symExternals["fmt.Fprintf"] = func(fr *frame, args []value) value {
		s := symExternals["fmt.Sprintf"](fr, args[1:])
		b, _ := strBytes(s)
		w := args[0].(iface)
		m := methodOf(fr.i, w.t, "Write")
		if m == nil {
			panic("fmt.Fprintf: writer has no Write method")
		}
		return call(fr.i, fr, token.NoPos, m, []value{w.v, append([]value{}, b...)})
	}
}
