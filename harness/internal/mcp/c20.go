//go:build verif

package mcp

import (
	"errors"
	"io"

	vrt "github.com/nuetzliches/hookaido/internal/verifrt"
)

// The gating table, transcribed from internal/mcp/spec.md ("Authorization role", "Guardrails") — not from the switch statements.
type hTool struct {
	name     string
	rank     int  // 1 read, 2 operate, 3 admin
	mutFlag  bool // needs --enable-mutations
	runFlag  bool // needs --enable-runtime-control
	mutating bool // needs a principal, is audited
}

func hTools() []hTool {
	var out []hTool
	for _, n := range []string{"config_parse", "config_validate", "config_compile", "config_fmt_preview", "config_diff", "admin_health", "management_model",
		"backlog_top_queued", "backlog_oldest_queued", "backlog_aging_summary", "backlog_trends", "messages_list", "attempts_list", "dlq_list"} {
		out = append(out, hTool{n, 1, false, false, false})
	}
	for _, n := range []string{"dlq_requeue", "dlq_delete", "messages_cancel", "messages_requeue", "messages_resume", "messages_publish",
		"messages_cancel_by_filter", "messages_requeue_by_filter", "messages_resume_by_filter"} {
		out = append(out, hTool{n, 2, true, false, true})
	}
	for _, n := range []string{"instance_status", "instance_logs_tail"} {
		out = append(out, hTool{n, 2, false, true, false})
	}
	for _, n := range []string{"config_apply", "management_endpoint_upsert", "management_endpoint_delete"} {
		out = append(out, hTool{n, 3, true, false, true})
	}
	for _, n := range []string{"instance_start", "instance_stop", "instance_reload"} {
		out = append(out, hTool{n, 3, false, true, true})
	}
	return out
}

type hRoleCase struct {
	role Role
	rank int
}

// role spellings: case and blanks are normalised; anything else (incl. garbage) is the default "read"
var hRoles = []hRoleCase{{"read", 1}, {"operate", 2}, {"admin", 3}, {"", 1}, {"ADMIN", 3}, {" Operate ", 2}, {"root", 1}}

func hDrawServer() (*Server, int, bool) {
	rc := hRoles[vrt.Choose("role", len(hRoles))]
	s := &Server{Role: rc.role, ConfigPath: "/etc/hookaido/Hookaidofile"}
	s.MutationsEnabled = vrt.Choose("enable-mutations", 2) == 1
	s.RuntimeControlEnabled = vrt.Choose("enable-runtime-control", 2) == 1
	s.Principal = []string{"", "  ", "ops@example"}[vrt.Choose("principal", 3)]
	return s, rc.rank, s.Principal == "ops@example"
}

func refAllowed(t hTool, s *Server, rank int, hasPrincipal bool) bool {
	return rank >= t.rank && (!t.mutFlag || s.MutationsEnabled) && (!t.runFlag || s.RuntimeControlEnabled) && (!t.mutating || hasPrincipal)
}

// verif:harness props=C20 tier=quick native=yes weight=10
// verif:bounds the complete table: 31 known tools + 2 unknown names x 7 role spellings x 2 x 2 flags x 3 principal settings
func VerifC20GatingTable() {
	tools := hTools()
	s, rank, hasPrincipal := hDrawServer()
	ti := vrt.Choose("tool", len(tools)+2)
	if ti >= len(tools) {
		name := []string{"config_drop", ""}[ti-len(tools)]
		vrt.Assert("C20.gate.unknown-tool-refused", s.toolAccessError(name) != nil)
		return
	}
	t := tools[ti]
	got := s.toolAccessError(t.name) == nil
	vrt.Observe("allowed", got)
	vrt.Assert("C20.gate.allowed-iff-role-flag-and-principal-permit", got == refAllowed(t, s, rank, hasPrincipal))
}

// verif:harness props=C20 tier=quick native=yes weight=15
// verif:bounds 7 role spellings x 2 x 2 flags x 3 principal settings: tools/list advertises exactly the tools a call would be allowed for
func VerifC20ListEqualsCall() {
	tools := hTools()
	s, rank, hasPrincipal := hDrawServer()
	listed := map[string]bool{}
	for _, d := range s.toolDescriptors() {
		vrt.Assert("C20.list.no-duplicates", !listed[d.Name])
		listed[d.Name] = true
	}
	n := 0
	for _, t := range tools {
		want := refAllowed(t, s, rank, hasPrincipal)
		if want {
			n++
		}
		vrt.Assert("C20.list.advertises-exactly-the-allowed-tools", listed[t.name] == want)
	}
	vrt.Assert("C20.list.nothing-else", len(listed) == n)
}

type hAuditSink struct{ n int }

func (a *hAuditSink) Write(p []byte) (int, error) { a.n++; return len(p), nil }

// verif:harness props=C20 tier=quick weight=30
// verif:bounds every known tool + an unknown one x 7 role spellings x flags x principal; every tool handler replaced by a recording stub that succeeds or fails; audit records captured at the JSON encoder
func VerifC20Dispatch() {
	tools := hTools()
	s, rank, hasPrincipal := hDrawServer()
	s.AuditWriter = io.Discard
	ran := ""
	fail := vrt.Choose("handler-fails", 2) == 1
	stub := func(name string) func(*Server, map[string]any) (any, error) {
		return func(*Server, map[string]any) (any, error) {
			ran += name + ";"
			if fail {
				return nil, errors.New("handler failed")
			}
			return map[string]any{"ok": true}, nil
		}
	}
	vrt.Replace(toolInputHash, func(args map[string]any) string { return "sha256:stub" })
	vrt.Replace((*Server).toolConfigParse, stub("config_parse"))
	vrt.Replace((*Server).toolConfigValidate, stub("config_validate"))
	vrt.Replace((*Server).toolConfigCompile, stub("config_compile"))
	vrt.Replace((*Server).toolConfigFmtPreview, stub("config_fmt_preview"))
	vrt.Replace((*Server).toolConfigDiff, stub("config_diff"))
	vrt.Replace((*Server).toolConfigApply, stub("config_apply"))
	vrt.Replace((*Server).toolAdminHealth, stub("admin_health"))
	vrt.Replace((*Server).toolManagementModel, stub("management_model"))
	vrt.Replace((*Server).toolManagementEndpointUpsert, stub("management_endpoint_upsert"))
	vrt.Replace((*Server).toolManagementEndpointDelete, stub("management_endpoint_delete"))
	vrt.Replace((*Server).toolBacklogTopQueued, stub("backlog_top_queued"))
	vrt.Replace((*Server).toolBacklogOldestQueued, stub("backlog_oldest_queued"))
	vrt.Replace((*Server).toolBacklogAgingSummary, stub("backlog_aging_summary"))
	vrt.Replace((*Server).toolBacklogTrends, stub("backlog_trends"))
	vrt.Replace((*Server).toolMessagesList, stub("messages_list"))
	vrt.Replace((*Server).toolAttemptsList, stub("attempts_list"))
	vrt.Replace((*Server).toolDLQList, stub("dlq_list"))
	vrt.Replace((*Server).toolDLQRequeue, stub("dlq_requeue"))
	vrt.Replace((*Server).toolDLQDelete, stub("dlq_delete"))
	vrt.Replace((*Server).toolMessagesCancel, stub("messages_cancel"))
	vrt.Replace((*Server).toolMessagesRequeue, stub("messages_requeue"))
	vrt.Replace((*Server).toolMessagesResume, stub("messages_resume"))
	vrt.Replace((*Server).toolMessagesPublish, stub("messages_publish"))
	vrt.Replace((*Server).toolMessagesCancelByFilter, stub("messages_cancel_by_filter"))
	vrt.Replace((*Server).toolMessagesRequeueByFilter, stub("messages_requeue_by_filter"))
	vrt.Replace((*Server).toolMessagesResumeByFilter, stub("messages_resume_by_filter"))
	vrt.Replace((*Server).toolInstanceStart, stub("instance_start"))
	vrt.Replace((*Server).toolInstanceStatus, stub("instance_status"))
	vrt.Replace((*Server).toolInstanceLogsTail, stub("instance_logs_tail"))
	vrt.Replace((*Server).toolInstanceStop, stub("instance_stop"))
	vrt.Replace((*Server).toolInstanceReload, stub("instance_reload"))
	ti := vrt.Choose("tool", len(tools)+1)
	name, allowed, mutating := "no_such_tool", false, false
	if ti < len(tools) {
		name, allowed, mutating = tools[ti].name, refAllowed(tools[ti], s, rank, hasPrincipal), tools[ti].mutating
	}
	res := s.callTool(name, map[string]any{"reason": "r"})
	if allowed {
		vrt.Assert("C20.dispatch.allowed-call-runs-exactly-its-own-handler", ran == name+";")
		vrt.Assert("C20.dispatch.handler-failure-is-reported", res.IsError == fail)
	} else {
		vrt.Assert("C20.dispatch.refused-call-runs-no-handler", ran == "" && res.IsError)
	}
	// audit: one record per mutating call (allowed, denied or failed) with the seven required fields; none otherwise
	recs := vrt.JSONEncoded()
	if !mutating {
		vrt.Assert("C20.audit.none-for-non-mutating-tools", len(recs) == 0)
		return
	}
	okRec := len(recs) == 1
	if okRec {
		ev, isMap := recs[0].(map[string]any)
		okRec = isMap
		if isMap {
			for _, k := range []string{"timestamp", "principal", "role", "tool", "input_hash", "result", "duration_ms"} {
				if _, has := ev[k]; !has {
					okRec = false
				}
			}
			wantResult := "denied"
			if allowed {
				wantResult = "success"
				if fail {
					wantResult = "error"
				}
			}
			okRec = okRec && ev["tool"] == name && ev["result"] == wantResult
		}
	}
	vrt.Assert("C20.audit.exactly-one-record-with-required-fields-and-result", okRec)
}
