package sx

// Havoc stubs with event recording for database/sql (style C).

import (
	"os"
	"fmt"
	"go/types"
	"strings"
)

func (i *interpreter) newErr(msg string) value {
	et := i.prog.ImportedPackage("errors").Type("errorString").Type()
	cell := value(structure{msg})
	return iface{t: types.NewPointer(et), v: &cell}
}

func (i *interpreter) globalErr(pkg, name string) value {
	g := i.prog.ImportedPackage(pkg).Var(name)
	return *i.globalAddr(g)
}

func zeroPtr(i *interpreter, pkg, typ string) value {
	t := i.prog.ImportedPackage(pkg).Type(typ).Type()
	cell := zero(t)
	return &cell
}

func normSQL(q value) string {
	s, ok := q.(string)
	if !ok {
		return "<symbolic sql>"
	}
	return strings.Join(strings.Fields(s), " ")
}

func event(format string, a ...any) {
	X.Events = append(X.Events, fmt.Sprintf(format, a...))
	if os.Getenv("GOSYM_EVENTS") != "" {
		fmt.Printf("  [event thr=%d] %s\n", X.cur, fmt.Sprintf(format, a...))
	}
}

// nondetErr returns nil or a generic error, recording the choice.
func nondetErr(fr *frame, what string) value {
	if X.choose(2) == 0 {
		return iface{}
	}
	return fr.i.newErr("injected fault: " + what)
}

func init() {
	symExternals[rtPkg+"StubDB"] = func(fr *frame, args []value) value {
		return zeroPtr(fr.i, "database/sql", "DB")
	}
	symExternals[rtPkg+"Trace"] = func(fr *frame, args []value) value {
		out := make([]value, len(X.Events))
		for i, e := range X.Events {
			out[i] = e
		}
		return out
	}
	symExternals["(*database/sql.DB).Conn"] = func(fr *frame, args []value) value {
		err := nondetErr(fr, "Conn")
		if err.(iface).t != nil {
			event("Conn:err")
			return tuple{(*value)(nil), err}
		}
		event("Conn:ok")
		return tuple{zeroPtr(fr.i, "database/sql", "Conn"), iface{}}
	}
	symExternals["(*database/sql.Conn).Close"] = func(fr *frame, args []value) value {
		event("ConnClose")
		X.releaseConn()
		return iface{}
	}
	exec := func(fr *frame, args []value) value {
		q := normSQL(args[2])
		err := nondetErr(fr, "Exec")
		// INSERT may also fail with a uniqueness violation (the harness classifies it through
		// vrt.Replace(isSQLiteConstraintError, ...) by the word "constraint")
		if err.(iface).t != nil && strings.HasPrefix(q, "INSERT") && X.choose(2) == 1 {
			err = fr.i.newErr("injected fault: constraint failed")
		}
		if err.(iface).t != nil {
			event("Exec:err:%s", q)
			return tuple{iface{}, err}
		}
		event("Exec:ok:%s", q)
		rt := fr.i.prog.ImportedPackage(strings.TrimSuffix(rtPkg, "."))
		n := mkScalar(X.pinOr(X.fresh("rowsAffected", BV(64))), types.Int64)
		X.addPC(BVCmp("bvsge", termOf(n), BVConst(0, 64)))
		return tuple{iface{t: rt.Type("SQLResult").Type(), v: structure{n}}, iface{}}
	}
	symExternals["(*database/sql.Conn).ExecContext"] = exec
	symExternals["(*database/sql.DB).ExecContext"] = exec
	queryRow := func(fr *frame, args []value) value {
		lastQueryRow = normSQL(args[2])
		event("QueryRow:%s", lastQueryRow)
		return zeroPtr(fr.i, "database/sql", "Row")
	}
	symExternals["(*database/sql.Conn).QueryRowContext"] = queryRow
	symExternals["(*database/sql.DB).QueryRowContext"] = queryRow
	symExternals["(*database/sql.Row).Scan"] = func(fr *frame, args []value) value {
		switch X.choose(3) {
		case 1:
			event("Scan:norows")
			return fr.i.globalErr("database/sql", "ErrNoRows")
		case 2:
			event("Scan:err")
			return fr.i.newErr("injected fault: Scan")
		}
		event("Scan:ok")
		for _, d := range args[1].([]value) {
			it := d.(iface)
			pt := it.t.Underlying().(*types.Pointer)
			cell := it.v.(*value)
			if havocScanInto(pt.Elem(), cell) {
				continue
			}
			panic(abortPath{"sql stub: Scan into unsupported type " + pt.Elem().String()})
		}
		return iface{}
	}
}

// lastQueryRow: text of the most recent tier-1 QueryRow (selects the menu of scanned strings).
var lastQueryRow string

// havocScanInto stores an arbitrary value of the destination type (tier-1 fault/answer schedules).
func havocScanInto(t types.Type, cell *value) bool {
	switch b := t.Underlying().(type) {
	case *types.Basic:
		if b.Info()&types.IsInteger != 0 {
			// stated bound of the tier-1 stubs: scanned integers (counters, timestamps) lie in [0, 7] — loops
			// driven by a scanned counter (drop_oldest eviction) stay bounded
			w := kindWidth(b.Kind())
			t := X.pinOr(X.fresh("scan", BV(w)))
			X.addPC(BVCmp("bvule", t, BVConst(7, w)))
			*cell = mkScalar(t, b.Kind())
			return true
		}
		if b.Kind() == types.String {
			menu := []string{"leased", "queued", "m0"}
			if strings.HasPrefix(lastQueryRow, "PRAGMA journal_mode") {
				menu = []string{"wal", "WAL", "delete"} // what the pragma may answer: the mode now in force
			}
			v := menu[X.choose(len(menu))]
			event("ScanString:%s", v)
			*cell = v
			return true
		}
	case *types.Struct:
		// sql.NullInt64{Int64, Valid} / sql.NullString{String, Valid}
		if b.NumFields() == 2 && b.Field(1).Name() == "Valid" {
			var first value
			if !havocScanInto(b.Field(0).Type(), &first) {
				return false
			}
			*cell = structure{first, X.choose(2) == 1}
			return true
		}
	case *types.Slice:
		if eb, ok := b.Elem().Underlying().(*types.Basic); ok && eb.Kind() == types.Byte {
			*cell = []value{uint8('p')}
			return true
		}
	}
	return false
}

// Lock-boundary scheduler: pending atomic steps of another thread may run at every lock acquisition.
func init() {
	symExternals[rtPkg+"Pending"] = func(fr *frame, args []value) value {
		X.pending = append([]value{}, args[0].([]value)...)
		return nil
	}
	for _, n := range []string{"(*sync.Mutex).Lock", "(*sync.RWMutex).Lock", "(*sync.RWMutex).RLock"} {
		name := n
		symExternals[name] = func(fr *frame, args []value) value {
			X.schedPoint()
			if !X.inStep {
				for len(X.pending) > 0 && X.choose(2) == 1 {
					step := X.pending[0]
					X.pending = X.pending[1:]
					X.inStep = true
					event("sched:step")
					call(fr.i, fr, 0, step, nil)
					X.inStep = false
				}
			}
			X.Events = append(X.Events, name)
			X.noteLock(name, args[0])
			return nil
		}
	}
	symExternals[rtPkg+"LockTrace"] = func(fr *frame, args []value) value {
		out := make([]value, len(X.lockLog))
		for i, e := range X.lockLog {
			out[i] = e
		}
		return out
	}
}

// noteLock records "<op>#<mutex number in order of first use>@<thread>" for every acquisition.
func (e *Explorer) noteLock(name string, recv value) {
	p, _ := recv.(*value)
	if e.mutexIDs == nil {
		e.mutexIDs = map[*value]int{}
	}
	id, ok := e.mutexIDs[p]
	if !ok {
		id = len(e.mutexIDs)
		e.mutexIDs[p] = id
	}
	op := name[strings.LastIndex(name, ".")+1:]
	thr := "A"
	if e.cur == 1 {
		thr = "B"
	}
	e.lockLog = append(e.lockLog, fmt.Sprintf("%s#%d@%s", op, id, thr))
}

// ---- model mode: database/sql backed by the interpreted verifsql package ----

const sqlPkg = "github.com/nuetzliches/hookaido/internal/verifsql"

func sqlFn(fr *frame, name string) value {
	return fr.i.prog.ImportedPackage(sqlPkg).Func(name)
}

func init() {
	symExternals[rtPkg+"SQLModel"] = func(fr *frame, args []value) value {
		X.SQLModel = true
		return nil
	}
	stubExec := symExternals["(*database/sql.Conn).ExecContext"]
	modelExec := func(fr *frame, args []value) value {
		if !X.SQLModel {
			return stubExec(fr, args)
		}
		r := call(fr.i, fr, 0, sqlFn(fr, "Exec"), []value{args[2], args[3]}).(tuple)
		event("Exec:%s", normSQL(args[2]))
		rt := fr.i.prog.ImportedPackage(strings.TrimSuffix(rtPkg, "."))
		return tuple{iface{t: rt.Type("SQLResult").Type(), v: structure{r[0]}}, r[1]}
	}
	symExternals["(*database/sql.Conn).ExecContext"] = modelExec
	symExternals["(*database/sql.DB).ExecContext"] = func(fr *frame, args []value) value {
		// a statement on the *sql.DB takes the pooled connection for its own duration
		X.acquireConn()
		defer X.releaseConn()
		return modelExec(fr, args)
	}
	stubConn := symExternals["(*database/sql.DB).Conn"]
	symExternals["(*database/sql.DB).Conn"] = func(fr *frame, args []value) value {
		if !X.SQLModel {
			return stubConn(fr, args)
		}
		X.acquireConn()
		return tuple{zeroPtr(fr.i, "database/sql", "Conn"), iface{}}
	}
	stubQR := symExternals["(*database/sql.Conn).QueryRowContext"]
	modelQR := func(fr *frame, args []value) value {
		if !X.SQLModel {
			return stubQR(fr, args)
		}
		r := call(fr.i, fr, 0, sqlFn(fr, "QueryRow"), []value{args[2], args[3]}).(tuple)
		event("QueryRow:%s", normSQL(args[2]))
		row := zeroPtr(fr.i, "database/sql", "Row").(*value)
		if X.sqlRows == nil {
			X.sqlRows = map[*value]tuple{}
		}
		X.sqlRows[row] = r
		return row
	}
	symExternals["(*database/sql.Conn).QueryRowContext"] = modelQR
	symExternals["(*database/sql.DB).QueryRowContext"] = func(fr *frame, args []value) value {
		X.acquireConn()
		defer X.releaseConn()
		return modelQR(fr, args)
	}
	stubScan := symExternals["(*database/sql.Row).Scan"]
	symExternals["(*database/sql.Row).Scan"] = func(fr *frame, args []value) value {
		if !X.SQLModel {
			return stubScan(fr, args)
		}
		r, ok := X.sqlRows[args[0].(*value)]
		if !ok {
			panic("sql model: Scan on unknown row")
		}
		if e := r[2].(iface); e.t != nil {
			return e
		}
		found := r[1]
		var f bool
		switch v := found.(type) {
		case bool:
			f = v
		case symv:
			f = X.decide(v.t)
		}
		if !f {
			event("RowScan:no-rows")
			return fr.i.globalErr("database/sql", "ErrNoRows")
		}
		event("RowScan:row")
		return call(fr.i, fr, 0, sqlFn(fr, "ScanInto"), []value{args[1], r[0]})
	}
}

// ---- model mode: QueryContext / Rows ----

type sqlCursor struct {
	rows  []value // each a []Val (interpreted value)
	pos   int
	err   value
	havoc bool
	done  bool
}

func init() {
	query := func(fr *frame, args []value) value {
		if !X.SQLModel {
			// tier 1: the query fails, or answers 0..2 arbitrary rows
			event("Query:%s", normSQL(args[2]))
			if X.choose(2) == 1 {
				event("Query:err")
				return tuple{(*value)(nil), fr.i.newErr("injected fault: Query")}
			}
			rows := zeroPtr(fr.i, "database/sql", "Rows").(*value)
			if X.sqlCursors == nil {
				X.sqlCursors = map[*value]*sqlCursor{}
			}
			X.sqlCursors[rows] = &sqlCursor{pos: -1, havoc: true}
			return tuple{rows, iface{}}
		}
		r := call(fr.i, fr, 0, sqlFn(fr, "Query"), []value{args[2], args[3]}).(tuple)
		event("Query:%s", normSQL(args[2]))
		if e := r[1].(iface); e.t != nil {
			return tuple{(*value)(nil), e}
		}
		rows := zeroPtr(fr.i, "database/sql", "Rows").(*value)
		if X.sqlCursors == nil {
			X.sqlCursors = map[*value]*sqlCursor{}
		}
		list, _ := r[0].([]value)
		X.sqlCursors[rows] = &sqlCursor{rows: list, pos: -1}
		return tuple{rows, iface{}}
	}
	symExternals["(*database/sql.Conn).QueryContext"] = query
	symExternals["(*database/sql.DB).QueryContext"] = func(fr *frame, args []value) value {
		// (the rows are materialised by the model at once, so the connection is needed for the query only)
		X.acquireConn()
		defer X.releaseConn()
		return query(fr, args)
	}
	cur := func(args []value) *sqlCursor {
		c := X.sqlCursors[args[0].(*value)]
		if c == nil {
			panic("sql model: unknown Rows")
		}
		return c
	}
	symExternals["(*database/sql.Rows).Next"] = func(fr *frame, args []value) value {
		c := cur(args)
		c.pos++
		if c.havoc {
			if c.done || c.pos >= 2 || X.choose(2) == 0 {
				c.done = true
				return false
			}
			return true
		}
		return c.pos < len(c.rows)
	}
	symExternals["(*database/sql.Rows).Scan"] = func(fr *frame, args []value) value {
		c := cur(args)
		if c.havoc {
			if X.choose(2) == 1 {
				event("RowsScan:err")
				return fr.i.newErr("injected fault: Rows.Scan")
			}
			for _, d := range args[1].([]value) {
				it := d.(iface)
				pt := it.t.Underlying().(*types.Pointer)
				if !havocScanInto(pt.Elem(), it.v.(*value)) {
					panic(abortPath{"sql stub: Rows.Scan into unsupported type " + pt.Elem().String()})
				}
			}
			return iface{}
		}
		if c.pos < 0 || c.pos >= len(c.rows) {
			panic("sql model: Scan without Next")
		}
		return call(fr.i, fr, 0, sqlFn(fr, "ScanInto"), []value{args[1], c.rows[c.pos]})
	}
	symExternals["(*database/sql.Rows).Err"] = func(fr *frame, args []value) value {
		if c := cur(args); c.havoc && X.choose(2) == 1 {
			event("RowsErr:err")
			return fr.i.newErr("injected fault: Rows.Err")
		}
		return iface{}
	}
	symExternals["(*database/sql.Rows).Close"] = func(fr *frame, args []value) value { return iface{} }
}
