//go:build verif

package ingress

import (
	"encoding/hex"
	"strconv"
	"time"
	"errors"
	"io"
	"net/http"
	"net/url"
	"strings"

	"github.com/nuetzliches/hookaido/internal/queue"
	vrt "github.com/nuetzliches/hookaido/internal/verifrt"
)

type hStore struct {
	queue.Store
	calls  int
	failed int
	envs   []queue.Envelope
	after  []int // status seen at time of each call
	w      *hRW
}

func (s *hStore) Enqueue(env queue.Envelope) error {
	s.calls++
	s.envs = append(s.envs, env)
	s.after = append(s.after, s.w.status)
	if vrt.Bool("enqueue_fails") {
		s.failed++
		return errors.New("store down")
	}
	return nil
}

type hRW struct {
	status int
	hdr    http.Header
	wrote  int
}

func (w *hRW) Header() http.Header {
	if w.hdr == nil {
		w.hdr = http.Header{}
	}
	return w.hdr
}
func (w *hRW) Write(b []byte) (int, error) {
	if w.status == 0 {
		w.status = 200
	}
	w.wrote += len(b)
	return len(b), nil
}
func (w *hRW) WriteHeader(code int) {
	if w.status == 0 {
		w.status = code
	}
}

// VerifIngressAckAfterEnqueue: C01-O1.
func VerifIngressAckAfterEnqueue() {
	w := &hRW{}
	st := &hStore{w: w}
	s := NewServer(st)
	n := 1 + vrt.Choose("targets", 3)
	s.TargetsFor = func(route string) []string { return []string{"t1", "t2", "t3"}[:n] }
	body := vrt.String("body", 2)
	r := &http.Request{Method: "POST", URL: &url.URL{Path: "/a"}, Header: http.Header{"X-A": []string{"1"}},
		Body: io.NopCloser(strings.NewReader(body)), RemoteAddr: "1.2.3.4:5"}
	s.ServeHTTP(w, r)
	if w.status == http.StatusAccepted {
		vrt.Assert("C01.202-after-all-enqueues", st.calls == n && st.failed == 0)
		for i := 0; i < st.calls; i++ {
			vrt.Assert("C01.enqueue-before-status", st.after[i] == 0)
			vrt.Assert("C01.payload", string(st.envs[i].Payload) == body)
			vrt.Assert("C01.target", st.envs[i].Target == []string{"t1", "t2", "t3"}[i])
		}
	} else {
		vrt.Assert("C01.failure-is-503", w.status == http.StatusServiceUnavailable && st.failed == 1 && st.calls >= 1)
	}
}

// VerifHMACSound: C08 soundness of HMACAuth.Verify with crypto uninterpreted.
// W.l.o.g. header values are already trimmed (Verify only uses TrimSpace(value)).
func hTrimmed(s string) bool {
	if len(s) == 0 {
		return true
	}
	a, b := s[0], s[len(s)-1]
	return a > ' ' && a < 0x80 && b > ' ' && b < 0x80
}

func VerifHMACSound() {
	secret := []byte("k1")
	a := NewHMACAuth([][]byte{secret})
	now := vrt.Time("now")
	a.Now = func() time.Time { return now }
	sig := vrt.StringN("sig", []int{0, 2, 64}[vrt.Choose("siglen", 3)])
	ts := vrt.StringN("ts", vrt.Choose("tslen", 3))
	nonce := vrt.StringN("nonce", vrt.Choose("noncelen", 2))
	vrt.Assume(hTrimmed(sig) && hTrimmed(ts) && hTrimmed(nonce))
	h := http.Header{"X-Signature": []string{sig}, "X-Timestamp": []string{ts}, "X-Nonce": []string{nonce}}
	method := "POST"
	path := vrt.StringN("path", 2)
	body := vrt.StringN("body", 1)
	r := &http.Request{Method: method, Header: h}
	err := a.Verify(r, path, []byte(body))
	if err == nil {
		vrt.Assert("C08.headers-present", len(sig) > 0 && len(ts) > 0 && len(nonce) > 0)
		// the accepted signature is the HMAC of the canonical string under the secret
		bh := vrt.SHA256([]byte(body))
		canon := ts + "\n" + method + "\n" + path + "\n" + hex.EncodeToString(bh[:])
		want := vrt.HMACSHA256(secret, []byte(canon))
		got, derr := hex.DecodeString(sig)
		vrt.Assert("C08.sig-is-hex", derr == nil && len(got) == 32)
		ok := true
		for i := 0; i < 32 && i < len(got); i++ {
			ok = ok && got[i] == want[i]
		}
		vrt.Assert("C08.sig-equals-hmac", ok)
		// timestamp within tolerance
		tsv, perr := strconv.ParseInt(ts, 10, 64)
		vrt.Assert("C08.ts-parses", perr == nil)
		d := now.Sub(time.Unix(tsv, 0))
		vrt.Assert("C08.within-tolerance", d <= a.Tolerance && d >= -a.Tolerance)
	}
}

// VerifNonceReplay: C09 clause (i) — a byte-identical replay is never accepted twice.
// The clock returns an arbitrary non-decreasing instant at every call.
func VerifNonceReplay() {
	secret := []byte("k1")
	a := NewHMACAuth([][]byte{secret})
	last := vrt.Time("t0")
	a.Now = func() time.Time {
		t := vrt.Time("clock")
		vrt.Assume(!t.Before(last))
		last = t
		return t
	}
	ts := "7" // signed timestamp (seconds)
	method, path, body := "POST", "/a", []byte("b")
	bh := vrt.SHA256(body)
	canon := ts + "\n" + method + "\n" + path + "\n" + hex.EncodeToString(bh[:])
	mac := vrt.HMACSHA256(secret, []byte(canon))
	sig := hex.EncodeToString(mac[:])
	mk := func() *http.Request {
		return &http.Request{Method: method, Header: http.Header{"X-Signature": []string{sig}, "X-Timestamp": []string{ts}, "X-Nonce": []string{"n1"}}}
	}
	err1 := a.Verify(mk(), path, body)
	err2 := a.Verify(mk(), path, body)
	vrt.Assert("C09.replay-rejected", !(err1 == nil && err2 == nil))
}
