package main

import (
	"encoding/json"
	"fmt"
	"os"
	"os/exec"
	"path/filepath"
	"reflect"
	"sort"
	"strconv"
	"strings"
	"sync"
	"time"

	"gosym/sx"
)

type replayFile struct {
	Harness string         `json:"harness"`
	Tier    string         `json:"tier"`
	Script  []sx.ScriptRec `json:"script"`
	Kind    string         `json:"kind,omitempty"`
	Label   string         `json:"label,omitempty"`
	Known   string         `json:"known,omitempty"`
	Inputs  map[string]string `json:"inputs,omitempty"`
	Events  []string       `json:"events,omitempty"`
	Expect  *sx.Outcome    `json:"expect,omitempty"`
	Pin     *PinFile       `json:"pin,omitempty"`
	Replay  string         `json:"replay_kind,omitempty"`
	How     string         `json:"how_to_replay,omitempty"`
}

type nativeItem struct {
	fn    string
	file  string // path of the json given to the native run
	viol  *sx.Violation
	wit   *sx.Witness
	final string // path under /verif/replay for violations
}

// runReplays replays counterexamples (natively where the harness allows it, otherwise in the
// interpreter with every nondet value pinned) and validates witness paths against the native
// build. Returns the number of native traces that agreed with the interpreter's prediction.
func runReplays(prop, tier, work, replayDir string, byFn map[string]*merged, order []string, l *loaded) int {
	maxWit := 6
	if tier == "thorough" {
		maxWit = 24
	}
	perPkg := map[string][]*nativeItem{}
	var interp []*nativeItem
	for _, fn := range order {
		m := byFn[fn]
		// pick violations: all unknown ones recorded (the explorer already caps per label) and one per known id
		for i := range m.Violations {
			v := &m.Violations[i]
			final := filepath.Join(replayDir, fmt.Sprintf("%s-%s-%d.json", prop, fn, i))
			rf := replayFile{Harness: fn, Tier: effTier(tier, m.H, prop), Script: v.Script, Kind: "violation", Label: v.Label, Known: v.Known, Inputs: v.Inputs, Events: v.Events,
				Pin: &PinFile{Values: v.Pinned, FValues: v.PinnedF, Chooses: v.Chooses}}
			it := &nativeItem{fn: fn, viol: v, final: final}
			if m.H.Native && v.Script != nil {
				rf.Replay = "native"
				rf.How = fmt.Sprintf("%s replay %s", filepath.Join(verifRoot, "bin/gosym"), final)
				perPkg[m.H.Pkg] = append(perPkg[m.H.Pkg], it)
			} else {
				rf.Replay = "interp"
				rf.How = fmt.Sprintf("%s replay %s", filepath.Join(verifRoot, "bin/gosym"), final)
				interp = append(interp, it)
			}
			b, _ := json.MarshalIndent(rf, "", " ")
			os.WriteFile(final, b, 0o644)
		}
		if m.H.Native {
			ws := m.Witnesses
			if len(ws) > maxWit {
				// spread
				var pick []sx.Witness
				for i := 0; i < maxWit; i++ {
					pick = append(pick, ws[i*len(ws)/maxWit])
				}
				ws = pick
			}
			for i := range ws {
				perPkg[m.H.Pkg] = append(perPkg[m.H.Pkg], &nativeItem{fn: fn, wit: &ws[i]})
			}
		}
	}
	validated := 0
	var mu sync.Mutex
	var wg sync.WaitGroup
	var pkgs []string
	for p := range perPkg {
		pkgs = append(pkgs, p)
	}
	sort.Strings(pkgs)
	for _, pkg := range pkgs {
		items := perPkg[pkg]
		wg.Add(1)
		go func(pkg string, items []*nativeItem) {
			defer wg.Done()
			dir := filepath.Join(work, "native", strings.ReplaceAll(pkg, "/", "_"))
			os.MkdirAll(dir, 0o755)
			for i, it := range items {
				it.file = filepath.Join(dir, fmt.Sprintf("r%04d.json", i))
				rf := replayFile{Harness: it.fn, Tier: effTier(tier, byFn[it.fn].H, prop)}
				if it.viol != nil {
					rf.Script = it.viol.Script
				} else {
					rf.Script = it.wit.Script
				}
				b, _ := json.Marshal(rf)
				os.WriteFile(it.file, b, 0o644)
			}
			outLog, err := runNative(pkg, dir, work)
			mu.Lock()
			defer mu.Unlock()
			for _, it := range items {
				m := byFn[it.fn]
				var got sx.Outcome
				ob, rerr := os.ReadFile(strings.TrimSuffix(it.file, ".json") + ".out")
				if rerr == nil {
					rerr = json.Unmarshal(ob, &got)
				}
				if rerr != nil {
					detail := "native run produced no outcome"
					if err != nil {
						detail += ": " + tail(outLog, 800)
					}
					if it.viol != nil {
						m.Confirmed = append(m.Confirmed, confirmed{V: *it.viol, Path: it.final, How: "native", OK: false, Detail: detail})
					} else {
						m.NativeBad++
						m.Problems = append(m.Problems, "translator validation: "+detail)
					}
					continue
				}
				if it.viol != nil {
					ok := got.Failed == it.viol.Label
					detail := ""
					if !ok {
						detail = fmt.Sprintf("native outcome failed=%q panic=%q assume_violated=%v", got.Failed, got.Panic, got.AssumeViolated)
					}
					m.Confirmed = append(m.Confirmed, confirmed{V: *it.viol, Path: it.final, How: "native", OK: ok, Detail: detail})
					if ok {
						validated++
					}
					continue
				}
				if d := diffOutcome(it.wit.Expect, got); d != "" {
					m.NativeBad++
					js, _ := json.Marshal(it.wit.Inputs)
					m.Problems = append(m.Problems, "translator validation: interpreter and native run disagree: "+d+" inputs="+string(js))
				} else {
					m.NativeOK++
					validated++
				}
			}
		}(pkg, items)
	}
	wg.Wait()

	// interpreter replays with every nondet value pinned
	if len(interp) > 0 && l != nil {
		var jobs []Job
		for _, it := range interp {
			m := byFn[it.fn]
			jobs = append(jobs, Job{Pkg: m.H.Pkg, Fn: it.fn, ShardN: 1, MaxSteps: m.H.MaxSteps, Thorough: effTier(tier, m.H, prop) == "thorough", Pin: &PinFile{Values: it.viol.Pinned, FValues: it.viol.PinnedF, Chooses: it.viol.Chooses}})
		}
		rs := runJobs(l, jobs, 8, nil)
		for i, it := range interp {
			m := byFn[it.fn]
			c := confirmed{V: *it.viol, Path: it.final, How: "interp"}
			if rs[i].Error == "" {
				if a := rs[i].Asserts[it.viol.Label]; a != nil && a.Violated > 0 {
					c.OK = true
				} else {
					js, _ := json.Marshal(rs[i].Aborted)
					c.Detail = "pinned run did not fail the assertion; aborted=" + string(js)
				}
			} else {
				c.Detail = "pinned run failed: " + rs[i].Error
			}
			m.Confirmed = append(m.Confirmed, c)
		}
	}
	return validated
}

func diffOutcome(want, got sx.Outcome) string {
	if got.Panic != "" {
		return "native run panicked: " + got.Panic
	}
	if got.AssumeViolated {
		return "native run violated an assumption the model satisfied"
	}
	if got.Failed != "" {
		return "native run failed assertion " + got.Failed + " which the solver proved on this path"
	}
	if len(want.Asserts) != len(got.Asserts) {
		return fmt.Sprintf("assertion sequence length %d vs native %d", len(want.Asserts), len(got.Asserts))
	}
	for i := range want.Asserts {
		if want.Asserts[i] != got.Asserts[i] {
			return fmt.Sprintf("assertion #%d %v vs native %v", i, want.Asserts[i], got.Asserts[i])
		}
	}
	if len(want.Observes) != len(got.Observes) {
		return fmt.Sprintf("observation count %d vs native %d", len(want.Observes), len(got.Observes))
	}
	for i := range want.Observes {
		if want.Observes[i].Label != got.Observes[i].Label || !reflect.DeepEqual(want.Observes[i].V, got.Observes[i].V) {
			return fmt.Sprintf("observation %s: predicted %v native %v", want.Observes[i].Label, want.Observes[i].V, got.Observes[i].V)
		}
	}
	return ""
}

// runNative compiles the package's harnesses with the real toolchain (overlay, -tags verif)
// and runs every replay file in dir through them.
func runNative(pkg, dir, work string) (string, error) {
	ov, err := overlayFiles([]string{pkg})
	if err != nil {
		return "", err
	}
	// generated test file listing every Verif* function of the package
	all, _ := scanHarnesses()
	var sb strings.Builder
	pkgName := ""
	for _, h := range all {
		if h.Pkg == pkg {
			b, _ := os.ReadFile(h.File)
			for _, line := range strings.Split(string(b), "\n") {
				if strings.HasPrefix(line, "package ") {
					pkgName = strings.TrimSpace(strings.TrimPrefix(line, "package "))
					break
				}
			}
		}
	}
	fmt.Fprintf(&sb, "//go:build verif\n\npackage %s\n\nimport (\n\t\"testing\"\n\n\tvrt \"github.com/nuetzliches/hookaido/internal/verifrt\"\n)\n\nfunc TestVerifReplay(t *testing.T) {\n\tvrt.RunReplays(t, map[string]func(){\n", pkgName)
	for _, h := range all {
		if _, skip := skippedOverlay[harnessVirtualPath(h)]; h.Pkg == pkg && !skip {
			fmt.Fprintf(&sb, "\t\t%q: %s,\n", h.Fn, h.Fn)
		}
	}
	sb.WriteString("\t})\n}\n")
	tf := filepath.Join(dir, "zz_verif_replay_test.go")
	os.WriteFile(tf, []byte(sb.String()), 0o644)
	ov[filepath.Join(repoRoot, pkg, "zz_verif_replay_test.go")] = tf
	ovJSON, _ := json.Marshal(map[string]any{"Replace": ov})
	of := filepath.Join(dir, "overlay.json")
	os.WriteFile(of, ovJSON, 0o644)
	cmd := exec.Command("go", "test", "-mod=mod", "-tags", "verif", "-vet=off", "-count=1", "-timeout", "20m", "-overlay", of, "-run", "^TestVerifReplay$", "./"+pkg)
	cmd.Dir = repoRoot
	cmd.Env = append(os.Environ(), "VERIF_REPLAY_DIR="+dir, "GOFLAGS=-mod=mod", "GOPROXY=off")
	t0 := time.Now()
	out, err := cmd.CombinedOutput()
	_ = t0
	return string(out), err
}

// cmdReplay re-runs one stored counterexample file.
func cmdReplay(args []string) int {
	if len(args) < 1 {
		fmt.Fprintln(os.Stderr, "usage: gosym replay <file>")
		return 2
	}
	b, err := os.ReadFile(args[0])
	if err != nil {
		fmt.Fprintln(os.Stderr, err)
		return 2
	}
	var rf replayFile
	if err := json.Unmarshal(b, &rf); err != nil {
		fmt.Fprintln(os.Stderr, err)
		return 2
	}
	all, _ := scanHarnesses()
	var h *Harness
	for i := range all {
		if all[i].Fn == rf.Harness {
			h = &all[i]
		}
	}
	if h == nil {
		fmt.Fprintln(os.Stderr, "unknown harness", rf.Harness)
		return 2
	}
	work := filepath.Join(outRoot, "work", "replay-"+rf.Harness)
	os.RemoveAll(work)
	os.MkdirAll(work, 0o755)
	defer os.RemoveAll(work)
	if rf.Replay == "native" {
		nb, _ := json.Marshal(replayFile{Harness: rf.Harness, Tier: rf.Tier, Script: rf.Script})
		os.WriteFile(filepath.Join(work, "r0.json"), nb, 0o644)
		log, err := runNative(h.Pkg, work, work)
		ob, rerr := os.ReadFile(filepath.Join(work, "r0.out"))
		if rerr != nil {
			fmt.Println(log)
			fmt.Println("native replay produced no outcome:", err)
			return 2
		}
		fmt.Printf("native outcome: %s\n", ob)
		var got sx.Outcome
		json.Unmarshal(ob, &got)
		if got.Failed == rf.Label {
			fmt.Printf("REPRODUCED assertion %s fails against the natively compiled code\n", rf.Label)
			return 1
		}
		fmt.Println("not reproduced")
		return 0
	}
	l, err := loadProgram([]string{h.Pkg})
	if err != nil {
		fmt.Fprintln(os.Stderr, err)
		return 2
	}
	r := runJobs(l, []Job{{Pkg: h.Pkg, Fn: h.Fn, ShardN: 1, MaxSteps: h.MaxSteps, Pin: rf.Pin, Thorough: rf.Tier == "thorough", Verbose: true}}, 1, nil)[0]
	printResult(r)
	if a := r.Asserts[rf.Label]; a != nil && a.Violated > 0 {
		fmt.Printf("REPRODUCED (interpreter, all nondet values pinned) assertion %s fails\n", rf.Label)
		return 1
	}
	fmt.Println("not reproduced")
	return 0
}

// harnessUsesSQLModel: does the body of harness fn (or a helper in its file) switch the store to the SQL model?
func harnessUsesSQLModel(src, fn string) bool {
	i := strings.Index(src, "func "+fn+"(")
	if i < 0 {
		return false
	}
	body := src[i:]
	if j := strings.Index(body[1:], "\nfunc "); j > 0 {
		body = body[:j+1]
	}
	return strings.Contains(body, "vrt.SQLModel(") || strings.Contains(body, "qNew(")
}

// validateSQLModel runs the native differential test of internal/verifsql against the real modernc SQLite:
// the real SQLiteStore methods run on random small tables on both, results and tables must agree.
func validateSQLModel(tier string, seed int, work string) (string, error) {
	ov, err := overlayFiles(nil)
	if err != nil {
		return "", err
	}
	ov[filepath.Join(repoRoot, "internal/queue/zz_verif_sqlmodel_validate_test.go")] = filepath.Join(verifRoot, "sqlmodel/validate/zz_verif_sqlmodel_validate_test.go")
	ovJSON, _ := json.Marshal(map[string]any{"Replace": ov})
	of := filepath.Join(work, "overlay-sqlmodel.json")
	os.WriteFile(of, ovJSON, 0o644)
	cmd := exec.Command("go", "test", "-mod=mod", "-tags", "verif", "-vet=off", "-count=1", "-timeout", "20m", "-overlay", of, "-run", "^TestVerifSQLModelDifferential$", "-v", "./internal/queue")
	cmd.Dir = repoRoot
	cmd.Env = append(os.Environ(), "VERIF_TIER="+tier, "VERIF_SEED="+strconv.Itoa(seed+1), "GOFLAGS=-mod=mod", "GOPROXY=off")
	out, err := cmd.CombinedOutput()
	for _, line := range strings.Split(string(out), "\n") {
		if i := strings.Index(line, "VERIF-SQLMODEL-VALIDATION ok"); i >= 0 && err == nil {
			return "sql-model validated against real SQLite (native differential, same store code on both): " + strings.TrimSpace(line[i+len("VERIF-SQLMODEL-VALIDATION ok"):]), nil
		}
	}
	return "", fmt.Errorf("%v: %s", err, tail(string(out), 600))
}

// effTier: the tier whose bounds a harness actually ran with in a check of prop (tonly= harnesses run their quick
// bounds in thorough checks of their secondary properties); replays must use the same bounds.
func effTier(tier string, h Harness, prop string) string {
	if tier == "thorough" && !thoroughBoundsFor(h, prop) {
		return "quick"
	}
	return tier
}

func harnessBodyContains(src, fn, needle string) bool {
	i := strings.Index(src, "func "+fn+"(")
	if i < 0 {
		return false
	}
	body := src[i:]
	if j := strings.Index(body[1:], "\nfunc "); j > 0 {
		body = body[:j+1]
	}
	return strings.Contains(body, needle)
}

// validateJSONModel runs the native differential test of verifrt's JSON string-map codec against encoding/json.
func validateJSONModel(work string) (string, error) {
	ov, err := overlayFiles(nil)
	if err != nil {
		return "", err
	}
	ov[filepath.Join(repoRoot, "internal/queue/zz_verif_jsonmodel_test.go")] = filepath.Join(verifRoot, "rt/validate/zz_verif_jsonmodel_test.go")
	ovJSON, _ := json.Marshal(map[string]any{"Replace": ov})
	of := filepath.Join(work, "overlay-jsonmodel.json")
	os.WriteFile(of, ovJSON, 0o644)
	cmd := exec.Command("go", "test", "-mod=mod", "-tags", "verif", "-vet=off", "-count=1", "-timeout", "20m", "-overlay", of, "-run", "^TestVerifJSONModel$", "-v", "./internal/queue")
	cmd.Dir = repoRoot
	cmd.Env = append(os.Environ(), "GOFLAGS=-mod=mod", "GOPROXY=off")
	out, err := cmd.CombinedOutput()
	for _, line := range strings.Split(string(out), "\n") {
		if i := strings.Index(line, "VERIF-JSONMODEL-VALIDATION ok"); i >= 0 && err == nil {
			return "json-model validated against encoding/json (native differential: every code point, every 1-2 byte string, random documents): " + strings.TrimSpace(line[i+len("VERIF-JSONMODEL-VALIDATION ok"):]), nil
		}
	}
	return "", fmt.Errorf("%v: %s", err, tail(string(out), 600))
}

func harnessVirtualPath(h Harness) string {
	return filepath.Join(repoRoot, h.Pkg, "zz_verif_"+filepath.Base(h.File))
}
