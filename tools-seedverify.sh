#!/bin/bash
# usage: tools-seedverify.sh <seed dir with patch.diff, meta.json, demo file>
# Confirms in a scratch worktree of /repo HEAD: patch applies, builds, full suite passes with it,
# demo fails with it and passes without it. Prints a JSON summary line.
d="$1"
wt=/tmp/wt-verify-$$
git -C /repo worktree add -q --detach $wt HEAD || exit 3
trap "git -C /repo worktree remove --force $wt; git -C /repo worktree prune" EXIT
cd $wt
export GOFLAGS=-mod=mod GOPROXY=off
demo_file=$(python3 -c "import json;print(json.load(open('$d/meta.json'))['demo_file'])")
demo_dest=$(python3 -c "import json;print(json.load(open('$d/meta.json'))['demo_dest'])")
demo_cmd=$(python3 -c "import json;print(json.load(open('$d/meta.json'))['demo_cmd'])")
demo_cmd=$(echo "$demo_cmd" | sed "s#cd /tmp/wt-[A-Za-z0-9]* *&& *##; s#/tmp/wt-[A-Za-z0-9]*#$wt#g")
applies=no; builds=no; suite=no; demo_with=?; demo_without=?
if git apply "$d/patch.diff" 2>/dev/null; then applies=yes
  if go build ./... >/dev/null 2>&1; then builds=yes; fi
  if go test -mod=mod -vet=off -count=1 -timeout 20m ./... >/tmp/seed-suite-$$.log 2>&1; then suite=pass; else suite=FAIL; fi
  cp "$d/$(basename $demo_file)" "$wt/$demo_dest"
  if (eval "$demo_cmd") >/tmp/seed-demo-with-$$.log 2>&1; then demo_with=pass; else demo_with=fail; fi
  git apply -R "$d/patch.diff"
  if (eval "$demo_cmd") >/tmp/seed-demo-without-$$.log 2>&1; then demo_without=pass; else demo_without=fail; fi
fi
echo "{\"seed\":\"$d\",\"applies\":\"$applies\",\"builds\":\"$builds\",\"suite_with_change\":\"$suite\",\"demo_with_change\":\"$demo_with\",\"demo_without_change\":\"$demo_without\",\"demo_cmd\":\"$(echo $demo_cmd | sed 's/"/\\"/g')\"}"
rm -f /tmp/seed-suite-$$.log /tmp/seed-demo-with-$$.log /tmp/seed-demo-without-$$.log
