package main

import (
	"encoding/json"
	"flag"
	"fmt"
	"go/types"
	"os"
	"path/filepath"
	"sort"
	"strings"
	"time"

	"golang.org/x/tools/go/packages"
	"golang.org/x/tools/go/ssa"
	"golang.org/x/tools/go/ssa/ssautil"

	"gosym/sx"
)

// Job is one harness (or one shard of it) to explore.
type Job struct {
	Pkg      string `json:"pkg"`
	Fn       string `json:"fn"`
	ShardI   int    `json:"shard_i"`
	ShardN   int    `json:"shard_n"`
	MaxPaths int    `json:"max_paths"`
	QTimeout int    `json:"qtimeout_ms"`
	Pin      *PinFile `json:"pin,omitempty"`
	DeadlineS int   `json:"deadline_s"`
}

type PinFile struct {
	Values  map[string]uint64 `json:"values"`
	Chooses []int             `json:"chooses"`
}

// Result is what a worker reports per job.
type Result struct {
	Job        Job                        `json:"job"`
	Paths      int                        `json:"paths"`
	Completed  int                        `json:"completed"`
	Nontrivial int                        `json:"nontrivial"`
	Decisions  int                        `json:"decisions"`
	Queries    int                        `json:"queries"`
	Sat        int                        `json:"sat"`
	Unsat      int                        `json:"unsat"`
	Unknown    int                        `json:"unknown"`
	SolverS    float64                    `json:"solver_s"`
	WallS      float64                    `json:"wall_s"`
	Asserts    map[string]*sx.AssertStat  `json:"asserts"`
	Covers     map[string]int             `json:"covers"`
	Aborted    map[string]int             `json:"aborted"`
	Violations []sx.Violation             `json:"violations"`
	KnownHits  map[string]int             `json:"known_hits"`
	Witnesses  []sx.Witness               `json:"witnesses"`
	Funcs      []string                   `json:"funcs"`
	Stubs      map[string]int             `json:"stubs"`
	Replaced   []string                   `json:"replaced"`
	PathLimit  bool                       `json:"path_limit"`
	TimedOut   bool                       `json:"timed_out"`
	IfConv     int                        `json:"if_converted"`
	Error      string                     `json:"error,omitempty"`
	LoadS      float64                    `json:"load_s"`
	GoVersion  string                     `json:"go_version"`
}

type loaded struct {
	prog  *ssa.Program
	pkgs  map[string]*ssa.Package // by relative dir
	loadS float64
	gover string
}

func loadProgram(pkgDirs []string) (*loaded, error) {
	t0 := time.Now()
	ovFiles, err := overlayFiles(pkgDirs)
	if err != nil {
		return nil, err
	}
	overlay := map[string][]byte{}
	for virt, real := range ovFiles {
		b, err := os.ReadFile(real)
		if err != nil {
			return nil, err
		}
		overlay[virt] = b
	}
	var pats []string
	for _, d := range pkgDirs {
		pats = append(pats, "./"+d)
	}
	if _, ok := ovFiles[filepath.Join(repoRoot, "internal/verifsql/sql.go")]; ok {
		pats = append(pats, "./internal/verifsql")
	}
	env := os.Environ()
	env = append(env, "GOFLAGS=-mod=mod", "GOPROXY=off", "GOTOOLCHAIN=auto")
	cfg := &packages.Config{
		Mode:       packages.LoadAllSyntax,
		Dir:        repoRoot,
		Overlay:    overlay,
		BuildFlags: []string{"-tags=verif"},
		Env:        env,
	}
	pkgs, err := packages.Load(cfg, pats...)
	if err != nil {
		return nil, err
	}
	var errs []string
	packages.Visit(pkgs, nil, func(p *packages.Package) {
		for _, e := range p.Errors {
			errs = append(errs, e.Error())
		}
	})
	if len(errs) > 0 {
		if len(errs) > 8 {
			errs = errs[:8]
		}
		return nil, fmt.Errorf("harness does not type-check against the current tree:\n  %s", strings.Join(errs, "\n  "))
	}
	prog, _ := ssautil.AllPackages(pkgs, ssa.InstantiateGenerics)
	l := &loaded{prog: prog, pkgs: map[string]*ssa.Package{}}
	for _, p := range pkgs {
		sp := prog.Package(p.Types)
		if sp == nil {
			continue
		}
		sp.Build()
		for _, d := range pkgDirs {
			if strings.HasSuffix(p.PkgPath, "/"+d) {
				l.pkgs[d] = sp
			}
		}
	}
	l.loadS = time.Since(t0).Seconds()
	if rt := prog.ImportedPackage("runtime"); rt != nil {
		// record which std the analysed code comes from
		if f := rt.Func("Version"); f != nil {
			l.gover = filepath.Base(filepath.Dir(filepath.Dir(filepath.Dir(prog.Fset.Position(f.Pos()).Filename))))
		}
	}
	return l, nil
}

func runJob(l *loaded, job Job, thorough bool, knownFor map[string][]string, verbose bool) Result {
	res := Result{Job: job, LoadS: l.loadS, GoVersion: l.gover}
	sp := l.pkgs[job.Pkg]
	if sp == nil {
		res.Error = "package not loaded: " + job.Pkg
		return res
	}
	fn := sp.Func(job.Fn)
	if fn == nil {
		res.Error = "harness function not found: " + job.Fn
		return res
	}
	solver, err := sx.NewSolver("z3-new", "-in")
	if err != nil {
		res.Error = err.Error()
		return res
	}
	defer solver.Close()
	solver2, err := sx.NewSolver("z3-new", "-in")
	if err != nil {
		res.Error = err.Error()
		return res
	}
	defer solver2.Close()
	x := sx.NewExplorer(solver, solver2)
	x.Verbose = verbose
	x.Thorough = thorough
	x.KnownFor = knownFor
	if job.MaxPaths > 0 {
		x.MaxPaths = job.MaxPaths
	}
	if job.QTimeout > 0 {
		x.QTimeoutMs = job.QTimeout
	}
	if job.ShardN > 1 {
		x.ShardI, x.ShardN = job.ShardI, job.ShardN
	}
	if job.DeadlineS > 0 {
		x.Deadline = time.Now().Add(time.Duration(job.DeadlineS) * time.Second)
	}
	if job.Pin != nil {
		x.Pin = &sx.Pin{Values: job.Pin.Values, Chooses: job.Pin.Chooses}
		x.WitnessK = 0
	}
	t0 := time.Now()
	func() {
		defer func() {
			if r := recover(); r != nil {
				res.Error = fmt.Sprintf("engine panic: %v", r)
			}
		}()
		sx.RunHarness(l.prog, types.SizesFor("gc", "amd64"), fn, x)
	}()
	res.WallS = time.Since(t0).Seconds()
	res.Paths, res.Completed, res.Nontrivial, res.Decisions = x.Paths, x.Completed, x.NontrivialPaths, x.Decisions
	res.Queries = solver.Queries + solver2.Queries
	res.Sat, res.Unsat, res.Unknown = solver.Sat+solver2.Sat, solver.Unsat+solver2.Unsat, solver.Unknown+solver2.Unknown
	res.SolverS = (solver.Time + solver2.Time).Seconds()
	res.Asserts, res.Covers, res.Aborted, res.Violations, res.KnownHits = x.Asserts, x.Covers, x.Aborted, x.Violations, x.KnownHits
	res.Witnesses = x.Witnesses
	res.Funcs = x.TopFuncs(60)
	res.Stubs = x.StubHits
	for k := range x.Replaced {
		res.Replaced = append(res.Replaced, k)
	}
	sort.Strings(res.Replaced)
	res.PathLimit, res.TimedOut, res.IfConv = x.PathLimit, x.TimedOut, x.IfConverted
	for p, e := range sx.InitFailures {
		if p == "time" {
			continue
		}
		res.Aborted["init failure "+p+": "+firstLine(e)] += 0
	}
	return res
}

func firstLine(s string) string {
	if i := strings.IndexByte(s, '\n'); i >= 0 {
		return s[:i]
	}
	return s
}

// cmdRun: worker. Reads a JSON job list, writes a JSON result list.
func cmdRun(args []string) int {
	fs := flag.NewFlagSet("run", flag.ExitOnError)
	jobsFile := fs.String("jobs", "", "JSON file with the job list")
	fns := fs.String("fns", "", "comma separated harness names (alternative to -jobs; package is looked up)")
	tier := fs.String("tier", "quick", "quick|thorough")
	out := fs.String("out", "", "result file (default stdout summary)")
	knownFile := fs.String("known", filepath.Join(verifRoot, "known_findings.json"), "known findings")
	verbose := fs.Bool("v", false, "verbose")
	maxPaths := fs.Int("maxpaths", 0, "override path limit")
	shard := fs.String("shard", "", "i/n")
	fs.Parse(args)

	var jobs []Job
	if *jobsFile != "" {
		b, err := os.ReadFile(*jobsFile)
		if err != nil {
			fmt.Fprintln(os.Stderr, err)
			return 2
		}
		if err := json.Unmarshal(b, &jobs); err != nil {
			fmt.Fprintln(os.Stderr, err)
			return 2
		}
	} else {
		hs, err := scanHarnesses()
		if err != nil {
			fmt.Fprintln(os.Stderr, err)
			return 2
		}
		for _, name := range strings.Split(*fns, ",") {
			found := false
			for _, h := range hs {
				if h.Fn == name || (strings.HasSuffix(name, "*") && strings.HasPrefix(h.Fn, strings.TrimSuffix(name, "*"))) {
					j := Job{Pkg: h.Pkg, Fn: h.Fn, MaxPaths: h.MaxPaths, QTimeout: h.QTimeout, ShardN: 1}
					if *maxPaths > 0 {
						j.MaxPaths = *maxPaths
					}
					if *shard != "" {
						fmt.Sscanf(*shard, "%d/%d", &j.ShardI, &j.ShardN)
					}
					jobs = append(jobs, j)
					found = true
				}
			}
			if !found {
				fmt.Fprintln(os.Stderr, "no such harness:", name)
				return 2
			}
		}
	}
	pkgSet := map[string]bool{}
	var pkgDirs []string
	for _, j := range jobs {
		if !pkgSet[j.Pkg] {
			pkgSet[j.Pkg] = true
			pkgDirs = append(pkgDirs, j.Pkg)
		}
	}
	sort.Strings(pkgDirs)
	known := loadKnown(*knownFile)
	var results []Result
	l, err := loadProgram(pkgDirs)
	if err != nil {
		for _, j := range jobs {
			results = append(results, Result{Job: j, Error: "load: " + err.Error()})
		}
	} else {
		for _, j := range jobs {
			r := runJob(l, j, *tier == "thorough", known.labelMap(j.Fn), *verbose)
			results = append(results, r)
			if *out == "" || *verbose {
				printResult(r)
			}
		}
	}
	if *out != "" {
		b, _ := json.Marshal(results)
		if err := os.WriteFile(*out, b, 0o644); err != nil {
			fmt.Fprintln(os.Stderr, err)
			return 2
		}
	}
	return 0
}

func printResult(r Result) {
	fmt.Printf("== %s.%s shard %d/%d: paths=%d completed=%d queries=%d (sat %d unsat %d unknown %d) solver=%.1fs wall=%.1fs load=%.1fs\n",
		r.Job.Pkg, r.Job.Fn, r.Job.ShardI, r.Job.ShardN, r.Paths, r.Completed, r.Queries, r.Sat, r.Unsat, r.Unknown, r.SolverS, r.WallS, r.LoadS)
	if r.Error != "" {
		fmt.Printf("   ERROR %s\n", r.Error)
	}
	var labels []string
	for l := range r.Asserts {
		labels = append(labels, l)
	}
	sort.Strings(labels)
	for _, l := range labels {
		a := r.Asserts[l]
		fmt.Printf("   assert %-34s reached=%d proved=%d violated=%d known=%d undecided=%d\n", l, a.Reached, a.Proved, a.Violated, a.Known, a.Undecided)
	}
	for c, n := range r.Covers {
		fmt.Printf("   cover  %-34s x%d\n", c, n)
	}
	var reasons []string
	for k := range r.Aborted {
		reasons = append(reasons, k)
	}
	sort.Strings(reasons)
	for _, k := range reasons {
		fmt.Printf("   aborted x%d: %s\n", r.Aborted[k], k)
	}
	for i, v := range r.Violations {
		if i >= 4 {
			fmt.Printf("   ... %d more\n", len(r.Violations)-4)
			break
		}
		js, _ := json.Marshal(v.Inputs)
		fmt.Printf("   counterexample %s known=%q inputs=%s\n", v.Label, v.Known, js)
	}
	if r.PathLimit {
		fmt.Printf("   PATH LIMIT hit\n")
	}
}
