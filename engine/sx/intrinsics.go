package sx

// Environment models: errors, fmt (minimal), sync, time (abstract), sort.

import (
	"fmt"
	"go/token"
	"go/types"
	"strings"

	"golang.org/x/tools/go/ssa"
)

func boolTerm(v value) *Term { return termOf(v) }

// ---- errors ----------------------------------------------------------

func methodOf(i *interpreter, t types.Type, name string) *ssa.Function {
	ms := i.prog.MethodSets.MethodSet(t)
	for k := 0; k < ms.Len(); k++ {
		sel := ms.At(k)
		if sel.Obj().Name() == name {
			return i.prog.MethodValue(sel)
		}
	}
	return nil
}

func errorsIs(fr *frame, err, target iface) bool {
	for depth := 0; depth < 64; depth++ {
		if err.t == nil {
			return target.t == nil
		}
		if sameType(err.t, target.t) {
			c := eqTerm(err.t, err.v, target.v)
			if X.decide(c) {
				return true
			}
		}
		if m := methodOf(fr.i, err.t, "Is"); m != nil && m.Signature.Params().Len() == 1 {
			r := call(fr.i, fr, token.NoPos, m, []value{err.v, target})
			switch r := r.(type) {
			case bool:
				if r {
					return true
				}
			case symv:
				if X.decide(r.t) {
					return true
				}
			}
		}
		m := methodOf(fr.i, err.t, "Unwrap")
		if m == nil {
			return false
		}
		r := call(fr.i, fr, token.NoPos, m, []value{err.v})
		switch r := r.(type) {
		case iface:
			err = r
		case []value:
			for _, e := range r {
				if errorsIs(fr, e.(iface), target) {
					return true
				}
			}
			return false
		default:
			return false
		}
	}
	return false
}

// ---- time model ------------------------------------------------------
// time.Time = structure{wall, ext, loc}; wall: 0 = zero time, 1 = set; ext: unix nanoseconds.

func timeParts(v value) (set *Term, ns *Term) {
	s := v.(structure)
	return Not(Eq(termOf(s[0]), BVConst(0, 64))), termOf(s[1])
}

func mkTime(set value, ns value) value {
	return structure{set, ns, (*value)(nil)}
}

// arithmetic on instants/durations in either integer encoding
func bothIConst(a, b *Term) bool {
	return a.Op == "const" && b.Op == "const" && (a.Sort.Kind == 'I' || b.Sort.Kind == 'I')
}

func tAdd(a, b *Term) *Term {
	if bothIConst(a, b) {
		return IConst(int64(a.Val) + int64(b.Val))
	}
	if a.Sort.Kind == 'I' || b.Sort.Kind == 'I' {
		return arith("+", IntSort, a, b)
	}
	return BVBin("bvadd", a, b)
}
func tSub(a, b *Term) *Term {
	if bothIConst(a, b) {
		return IConst(int64(a.Val) - int64(b.Val))
	}
	if a.Sort.Kind == 'I' || b.Sort.Kind == 'I' {
		return arith("-", IntSort, a, b)
	}
	return BVBin("bvsub", a, b)
}
func tLt(a, b *Term) *Term {
	if bothIConst(a, b) {
		return BoolConst(int64(a.Val) < int64(b.Val))
	}
	if a.Sort.Kind == 'I' || b.Sort.Kind == 'I' {
		return arith("<", BoolSort, a, b)
	}
	return BVCmp("bvslt", a, b)
}
func tLe(a, b *Term) *Term {
	if bothIConst(a, b) {
		return BoolConst(int64(a.Val) <= int64(b.Val))
	}
	if a.Sort.Kind == 'I' || b.Sort.Kind == 'I' {
		return arith("<=", BoolSort, a, b)
	}
	return BVCmp("bvsle", a, b)
}
func tConst(v int64) *Term {
	if X != nil && X.IntMode {
		return IConst(v)
	}
	return BVConst(uint64(v), 64)
}

func timeBefore(a, b value) *Term {
	as, an := timeParts(a)
	bs, bn := timeParts(b)
	// zero time precedes every set time
	return Or(And(Not(as), bs), And(And(as, bs), tLt(an, bn)))
}

func timeEqual(a, b value) *Term {
	as, an := timeParts(a)
	bs, bn := timeParts(b)
	return Or(And(Not(as), Not(bs)), And(And(as, bs), Eq(an, bn)))
}

func requireSet(v value, what string) {
	set, _ := timeParts(v)
	if !X.decide(set) {
		panic(abortPath{"time model: " + what + " on zero time"})
	}
}

var nowSeq int

func init() {
	symExternals["errors.Is"] = func(fr *frame, args []value) value {
		return errorsIs(fr, args[0].(iface), args[1].(iface))
	}
	// fmt.Errorf: keep the wrap chain, message is the format string.
	symExternals["fmt.Errorf"] = func(fr *frame, args []value) value {
		format, _ := args[0].(string)
		var wrapped value
		if strings.Contains(format, "%w") {
			for _, a := range args[1].([]value) {
				if it, ok := a.(iface); ok && it.t != nil {
					if types.Implements(it.t, errorIface) {
						wrapped = it
						break
					}
				}
			}
		}
		fmtPkg := fr.i.prog.ImportedPackage("fmt")
		if wrapped != nil {
			wt := fmtPkg.Type("wrapError").Type()
			cell := value(structure{format, wrapped})
			return iface{t: types.NewPointer(wt), v: &cell}
		}
		errorsPkg := fr.i.prog.ImportedPackage("errors")
		et := errorsPkg.Type("errorString").Type()
		cell := value(structure{format})
		return iface{t: types.NewPointer(et), v: &cell}
	}

	// sync: sequential semantics.
	for _, n := range []string{"(*sync.Mutex).Lock", "(*sync.Mutex).Unlock", "(*sync.RWMutex).Lock", "(*sync.RWMutex).Unlock", "(*sync.RWMutex).RLock", "(*sync.RWMutex).RUnlock"} {
		name := n
		symExternals[name] = func(fr *frame, args []value) value {
			X.Events = append(X.Events, name)
			return nil
		}
	}

	// time
	symExternals["(time.Time).IsZero"] = func(fr *frame, args []value) value {
		set, _ := timeParts(args[0])
		return mkScalar(Not(set), types.Bool)
	}
	symExternals["(time.Time).Before"] = func(fr *frame, args []value) value {
		return mkScalar(timeBefore(args[0], args[1]), types.Bool)
	}
	symExternals["(time.Time).After"] = func(fr *frame, args []value) value {
		return mkScalar(timeBefore(args[1], args[0]), types.Bool)
	}
	symExternals["(time.Time).Equal"] = func(fr *frame, args []value) value {
		return mkScalar(timeEqual(args[0], args[1]), types.Bool)
	}
	symExternals["(time.Time).UTC"] = func(fr *frame, args []value) value { return args[0] }
	symExternals["(time.Time).Add"] = func(fr *frame, args []value) value {
		requireSet(args[0], "Add")
		_, ns := timeParts(args[0])
		return mkTime(uint64(1), mkScalar(tAdd(ns, termOf(args[1])), types.Int64))
	}
	symExternals["(time.Time).Sub"] = func(fr *frame, args []value) value {
		requireSet(args[0], "Sub")
		requireSet(args[1], "Sub")
		_, a := timeParts(args[0])
		_, b := timeParts(args[1])
		return mkScalar(tSub(a, b), types.Int64)
	}
	symExternals["(time.Time).UnixNano"] = func(fr *frame, args []value) value {
		requireSet(args[0], "UnixNano")
		_, a := timeParts(args[0])
		return mkScalar(a, types.Int64)
	}
	symExternals[rtPkg+"Time"] = func(fr *frame, args []value) value {
		tv := X.fresh(labelOf(args[0]), X.intSort())
		X.InputLog = append(X.InputLog, InputRec{K: "time", L: labelOf(args[0]), Vars: []string{tv.Name}})
		t := X.pinOr(tv)
		X.addPC(tLe(tConst(0), t), tLt(t, tConst(1<<62)))
		return mkTime(uint64(1), mkScalar(t, types.Int64))
	}
	symExternals[rtPkg+"Duration"] = func(fr *frame, args []value) value {
		tv := X.fresh(labelOf(args[0]), X.intSort())
		X.InputLog = append(X.InputLog, InputRec{K: "duration", L: labelOf(args[0]), Vars: []string{tv.Name}})
		t := X.pinOr(tv)
		X.addPC(tLt(tConst(-(1<<62)), t), tLt(t, tConst(1<<61)))
		return mkScalar(t, types.Int64)
	}

	// strings helpers with symbolic awareness where the real code uses assembly.
	symExternals["internal/bytealg.Equal"] = func(fr *frame, args []value) value {
		a, b := args[0].([]value), args[1].([]value)
		return symStrBinop(token.EQL, symstr{a}, symstr{b})
	}
}

var errorIface = types.Universe.Lookup("error").Type().Underlying().(*types.Interface)

var _ = fmt.Sprint
