package main

import (
	"encoding/json"
	"flag"
	"regexp"
	"fmt"
	"go/types"
	"os"
	"path/filepath"
	"sort"
	"strings"
	"time"

	"golang.org/x/tools/go/packages"
	"golang.org/x/tools/go/ssa"
	"golang.org/x/tools/go/ssa/ssautil"

	"gosym/sx"
)

func main() {
	repo := flag.String("repo", "/repo", "repository root")
	hdir := flag.String("harness", "/verif/harness", "harness root")
	rt := flag.String("rt", "/verif/rt/rt.go", "verifrt source")
	only := flag.String("run", "", "substring filter on harness names")
	solverBin := flag.String("solver", "z3-new", "solver binary")
	verbose := flag.Bool("v", false, "verbose")
	maxPaths := flag.Int("maxpaths", 20000, "path limit per harness")
	logq := flag.String("logq", "", "log solver queries to file")
	flag.Parse()

	t0 := time.Now()
	overlay := map[string][]byte{}
	b, err := os.ReadFile(*rt)
	if err != nil {
		panic(err)
	}
	overlay[filepath.Join(*repo, "internal/verifrt/rt.go")] = b
	if sb, err := os.ReadFile("/verif/sqlmodel/sql.go"); err == nil {
		overlay[filepath.Join(*repo, "internal/verifsql/sql.go")] = sb
	}
	var pats []string
	filepath.Walk(*hdir, func(p string, info os.FileInfo, err error) error {
		if err != nil || info.IsDir() || !strings.HasSuffix(p, ".go") {
			return nil
		}
		rel, _ := filepath.Rel(*hdir, p)
		dir := filepath.Dir(rel)
		src, _ := os.ReadFile(p)
		overlay[filepath.Join(*repo, dir, "zz_verif_"+filepath.Base(p))] = src
		pat := "./" + dir
		found := false
		for _, q := range pats {
			if q == pat {
				found = true
			}
		}
		if !found {
			pats = append(pats, pat)
		}
		return nil
	})
	cfg := &packages.Config{
		Mode:       packages.LoadAllSyntax,
		Dir:        *repo,
		Overlay:    overlay,
		BuildFlags: []string{"-tags=verif"},
		Env:        append(os.Environ(), "GOFLAGS=-mod=mod", "GOPROXY=off"),
	}
	pkgs, err := packages.Load(cfg, pats...)
	if err != nil {
		panic(err)
	}
	if n := packages.PrintErrors(pkgs); n > 0 {
		os.Exit(2)
	}
	prog, spkgs := ssautil.AllPackages(pkgs, ssa.InstantiateGenerics)
	if os.Getenv("GOSYM_EAGER") != "" {
		prog.Build()
	} else {
		for _, p := range pkgs {
			if sp := prog.Package(p.Types); sp != nil {
				sp.Build()
			}
		}
	}
	fmt.Printf("loaded+built in %v\n", time.Since(t0))

	solver, err := sx.NewSolver(*solverBin, "-in")
	if err != nil {
		panic(err)
	}
	defer solver.Close()
	solver2, _ := sx.NewSolver(*solverBin, "-in")
	defer solver2.Close()
	shown := 0
	solver2.RawModel = func(m string) {
		if shown < 2 {
			shown++
			fmt.Println("  RAW MODEL:", m)
		}
	}
	solver2.Slow = func(d time.Duration, res string) { fmt.Printf("  slow oneshot query #%d: %v -> %s\n", solver2.Queries, d, res) }
	solver.Slow = func(d time.Duration, res string) { fmt.Printf("  slow query #%d: %v -> %s\n", solver.Queries, d, res) }
	if *logq != "" {
		f, _ := os.Create(*logq)
		defer f.Close()
		solver.Log = f
	}
	sizes := types.SizesFor("gc", "amd64")
	for _, sp := range spkgs {
		if sp == nil {
			continue
		}
		var names []string
		for n, m := range sp.Members {
			if _, ok := m.(*ssa.Function); ok && strings.HasPrefix(n, "Verif") && regexp.MustCompile(*only).MatchString(n) {
				names = append(names, n)
			}
		}
		sort.Strings(names)
		for _, n := range names {
			fn := sp.Func(n)
			x := &sx.Explorer{Solver: solver, Solver2: solver2, Aborted: map[string]int{}, Reached: map[string]int{}, Proved: map[string]int{}, MaxSteps: 2000000, MaxPaths: *maxPaths, Verbose: *verbose}
			t1 := time.Now()
			q0, st0 := solver.Queries, solver.Time
			sx.RunHarness(prog, sizes, fn, x)
			fmt.Printf("== %s.%s: paths=%d queries=%d solver=%v wall=%v\n", sp.Pkg.Path(), n, x.Paths, solver.Queries-q0, solver.Time-st0, time.Since(t1))
			for l, c := range x.Reached {
				fmt.Printf("   assert %-24s reached=%d proved=%d\n", l, c, x.Proved[l])
			}
			for r, c := range x.Aborted {
				fmt.Printf("   aborted x%d: %s\n", c, r)
			}
			for i, v := range x.Violations {
				if i >= 3 {
					fmt.Printf("   ... %d more violations\n", len(x.Violations)-3)
					break
				}
				js, _ := json.Marshal(v.ReplayScript())
				rp := fmt.Sprintf("/tmp/replay-%s-%d.json", n, i)
				os.WriteFile(rp, js, 0o644)
				fmt.Printf("   VIOLATION %s replay=%s\n", v.Label, rp)
			}
		}
	}
	for p, e := range sx.InitFailures {
		fmt.Printf("init failure %s: %s\n", p, e)
	}
}
