//go:build verif

package config

import (
	vrt "github.com/nuetzliches/hookaido/internal/verifrt"
)

func hASCII(s string) bool {
	ok := true
	for i := 0; i < len(s); i++ {
		ok = ok && s[i] < 0x80
	}
	return ok
}

// VerifQuoteRoundTrip: C19 L1 — lexing quoteString(v) yields exactly the string token v.
func VerifQuoteRoundTrip() {
	v := vrt.String("v", 3)
	vrt.Assume(hASCII(v))
	src := quoteString(v) + "\n"
	l := newLexer(src)
	tok, err := l.nextToken()
	vrt.Assert("C19.quote.lexes", err == nil && tok.kind == tokString)
	vrt.Assert("C19.quote.text", tok.text == v)
	tok2, err2 := l.nextToken()
	vrt.Assert("C19.quote.single-token", err2 == nil && tok2.kind == tokEOF)
}

// VerifBareRoundTrip: C19 L3 (deliberately without the lexer-image precondition):
// formatValue(v,false) re-lexes to one value token with text v.
func VerifBareRoundTrip() {
	v := vrt.String("v", 3)
	vrt.Assume(hASCII(v))
	src := formatValue(v, false) + "\n"
	l := newLexer(src)
	tok, err := l.nextToken()
	vrt.Assert("C19.bare.lexes", err == nil && (tok.kind == tokString || tok.kind == tokIdent))
	vrt.Assert("C19.bare.text", tok.text == v)
	tok2, err2 := l.nextToken()
	vrt.Assert("C19.bare.single-token", err2 == nil && tok2.kind == tokEOF)
}

// VerifFmtRoundTripHole: C19 grammar level on one template with two symbolic value holes.
func VerifFmtRoundTripHole() {
	h1 := vrt.String("h1", 2)
	h2 := vrt.String("h2", 2)
	vrt.Assume(hASCII(h1) && hASCII(h2))
	q1 := vrt.Choose("quoted1", 2) == 1
	sp := func(v string, q bool) string {
		if q {
			return quoteString(v)
		}
		return v
	}
	src := "pull_api {\n  auth token \"raw:t\"\n}\n\"/x\" {\n  auth hmac " + sp(h1, q1) + "\n  pull {\n    path " + sp(h2, true) + "\n  }\n}\n"
	c1, err := Parse([]byte(src))
	if err != nil {
		return // only texts that parse are in scope
	}
	f1, err := Format(c1)
	vrt.Assert("C19.format-ok", err == nil)
	c2, err := Parse(f1)
	vrt.Assert("C19.reparse-ok", err == nil)
	if err != nil {
		return
	}
	f2, _ := Format(c2)
	vrt.Assert("C19.idempotent", string(f1) == string(f2))
	vrt.Assert("C19.same-routes", len(c1.Routes) == len(c2.Routes) && len(c1.Routes) == 1)
	r1, r2 := c1.Routes[0], c2.Routes[0]
	vrt.Assert("C19.auth-hmac-kept", len(r1.AuthHMACSecrets) == len(r2.AuthHMACSecrets))
	for i := range r1.AuthHMACSecrets {
		if i < len(r2.AuthHMACSecrets) {
			vrt.Assert("C19.auth-hmac-value", r1.AuthHMACSecrets[i] == r2.AuthHMACSecrets[i])
		}
	}
	vrt.Assert("C19.pull-path", r1.Pull != nil && r2.Pull != nil && r1.Pull.Path == r2.Pull.Path)
}
