package sx

// Symbolic values and the path explorer (spike).

import (
	"fmt"

	"go/token"
	"go/types"
)

// symv is a symbolic scalar (bool or integer).
type symv struct {
	t *Term
	k types.BasicKind
}

// symstr is a string of concrete length whose bytes may be symbolic.
// Each element is uint8 or symv{k: types.Uint8}.
type symstr struct {
	b []value
}

func kindWidth(k types.BasicKind) int {
	switch k {
	case types.Int8, types.Uint8:
		return 8
	case types.Int16, types.Uint16:
		return 16
	case types.Int32, types.Uint32:
		return 32
	case types.Int, types.Int64, types.Uint, types.Uint64, types.Uintptr:
		return 64
	}
	panic(fmt.Sprintf("kindWidth: %v", k))
}

func kindSigned(k types.BasicKind) bool {
	switch k {
	case types.Int, types.Int8, types.Int16, types.Int32, types.Int64:
		return true
	}
	return false
}

func kindOfValue(v value) types.BasicKind {
	switch v := v.(type) {
	case symv:
		return v.k
	case bool:
		return types.Bool
	case int:
		return types.Int
	case int8:
		return types.Int8
	case int16:
		return types.Int16
	case int32:
		return types.Int32
	case int64:
		return types.Int64
	case uint:
		return types.Uint
	case uint8:
		return types.Uint8
	case uint16:
		return types.Uint16
	case uint32:
		return types.Uint32
	case uint64:
		return types.Uint64
	case uintptr:
		return types.Uintptr
	}
	panic(fmt.Sprintf("kindOfValue: %T", v))
}

func isSym(v value) bool {
	_, ok := v.(symv)
	return ok
}

// termOf converts a concrete or symbolic scalar to a term.
func termOf(v value) *Term {
	switch v := v.(type) {
	case symv:
		return v.t
	case bool:
		return BoolConst(v)
	}
	k := kindOfValue(v)
	if X != nil && X.IntMode {
		return IConst(asInt64(v))
	}
	return BVConst(uint64(asInt64(v)), kindWidth(k))
}

// mkScalar wraps a term as a value, concretising constants.
func mkScalar(t *Term, k types.BasicKind) value {
	if t.IsConst() {
		if k == types.Bool {
			return t.Op == "true"
		}
		return concreteOfKind(t.Val, k)
	}
	return symv{t: t, k: k}
}

func concreteOfKind(v uint64, k types.BasicKind) value {
	switch k {
	case types.Int:
		return int(int64(v))
	case types.Int8:
		return int8(v)
	case types.Int16:
		return int16(v)
	case types.Int32:
		return int32(v)
	case types.Int64:
		return int64(v)
	case types.Uint:
		return uint(v)
	case types.Uint8:
		return uint8(v)
	case types.Uint16:
		return uint16(v)
	case types.Uint32:
		return uint32(v)
	case types.Uint64:
		return v
	case types.Uintptr:
		return uintptr(v)
	}
	panic(fmt.Sprintf("concreteOfKind: %v", k))
}

func symBinop(op token.Token, x, y value) value {
	kx := kindOfValue(x)
	if X.IntMode && kx != types.Bool {
		return intModeBinop(op, x, y)
	}
	if kx == types.Bool {
		a, b := termOf(x), termOf(y)
		switch op {
		case token.EQL:
			return mkScalar(Eq(a, b), types.Bool)
		case token.NEQ:
			return mkScalar(Not(Eq(a, b)), types.Bool)
		case token.AND, token.LAND:
			return mkScalar(And(a, b), types.Bool)
		case token.OR, token.LOR:
			return mkScalar(Or(a, b), types.Bool)
		}
		panic(fmt.Sprintf("symBinop bool: %v", op))
	}
	w := kindWidth(kx)
	signed := kindSigned(kx)
	a := termOf(x)
	var b *Term
	if op == token.SHL || op == token.SHR {
		// shift count may have another (unsigned or signed) type: resize
		ky := kindOfValue(y)
		b = Resize(termOf(y), w, false)
		if kindWidth(ky) > w {
			// large shift counts: saturate (count >= w gives 0 / sign)
			// handled by SMT semantics of bvshl/bvlshr (result 0 when >= w) only
			// if the count fits; after truncation it may not. Guard:
			full := termOf(y)
			big := BVCmp("bvuge", full, BVConst(uint64(w), kindWidth(ky)))
			b = Ite(big, BVConst(uint64(w), w), b)
		}
	} else {
		b = termOf(y)
	}
	pick := func(s, u string) string {
		if signed {
			return s
		}
		return u
	}
	switch op {
	case token.ADD:
		return mkScalar(BVBin("bvadd", a, b), kx)
	case token.SUB:
		return mkScalar(BVBin("bvsub", a, b), kx)
	case token.MUL:
		return mkScalar(BVBin("bvmul", a, b), kx)
	case token.QUO:
		X.noteDivisor(b)
		return mkScalar(BVBin(pick("bvsdiv", "bvudiv"), a, b), kx)
	case token.REM:
		X.noteDivisor(b)
		return mkScalar(BVBin(pick("bvsrem", "bvurem"), a, b), kx)
	case token.AND:
		return mkScalar(BVBin("bvand", a, b), kx)
	case token.OR:
		return mkScalar(BVBin("bvor", a, b), kx)
	case token.XOR:
		return mkScalar(BVBin("bvxor", a, b), kx)
	case token.AND_NOT:
		return mkScalar(BVBin("bvand", a, BVNot(b)), kx)
	case token.SHL:
		return mkScalar(BVBin("bvshl", a, b), kx)
	case token.SHR:
		return mkScalar(BVBin(pick("bvashr", "bvlshr"), a, b), kx)
	case token.EQL:
		return mkScalar(Eq(a, b), types.Bool)
	case token.NEQ:
		return mkScalar(Not(Eq(a, b)), types.Bool)
	case token.LSS:
		return mkScalar(BVCmp(pick("bvslt", "bvult"), a, b), types.Bool)
	case token.LEQ:
		return mkScalar(BVCmp(pick("bvsle", "bvule"), a, b), types.Bool)
	case token.GTR:
		return mkScalar(BVCmp(pick("bvsgt", "bvugt"), a, b), types.Bool)
	case token.GEQ:
		return mkScalar(BVCmp(pick("bvsge", "bvuge"), a, b), types.Bool)
	}
	panic(fmt.Sprintf("symBinop: unsupported op %v", op))
}

func symUnop(op token.Token, x symv) value {
	switch op {
	case token.NOT:
		return mkScalar(Not(x.t), types.Bool)
	case token.SUB:
		return mkScalar(BVNeg(x.t), x.k)
	case token.XOR:
		return mkScalar(BVNot(x.t), x.k)
	}
	panic(fmt.Sprintf("symUnop: %v", op))
}

func symConvInt(x symv, dst types.BasicKind) value {
	return mkScalar(Resize(x.t, kindWidth(dst), kindSigned(x.k)), dst)
}

// ---------------------------------------------------------------------
// symbolic strings

func strBytes(v value) ([]value, bool) {
	switch v := v.(type) {
	case string:
		b := make([]value, len(v))
		for i := 0; i < len(v); i++ {
			b[i] = v[i]
		}
		return b, true
	case symstr:
		return v.b, true
	}
	return nil, false
}

// mkStr returns a Go string if every byte is concrete, else a symstr.
func mkStr(b []value) value {
	all := true
	for _, e := range b {
		if _, ok := e.(uint8); !ok {
			all = false
			break
		}
	}
	if all {
		bs := make([]byte, len(b))
		for i, e := range b {
			bs[i] = e.(uint8)
		}
		return string(bs)
	}
	return symstr{b: b}
}

func isSymStr(v value) bool {
	_, ok := v.(symstr)
	return ok
}

func symStrBinop(op token.Token, x, y value) value {
	a, _ := strBytes(x)
	b, _ := strBytes(y)
	switch op {
	case token.ADD:
		out := make([]value, 0, len(a)+len(b))
		out = append(out, a...)
		out = append(out, b...)
		return mkStr(out)
	case token.EQL, token.NEQ:
		var t *Term
		if len(a) != len(b) {
			t = FalseT
		} else {
			t = TrueT
			for i := range a {
				t = And(t, Eq(termOf(a[i]), termOf(b[i])))
			}
		}
		if op == token.NEQ {
			t = Not(t)
		}
		return mkScalar(t, types.Bool)
	case token.LSS, token.LEQ, token.GTR, token.GEQ:
		// lexicographic comparison, built from the end
		n := len(a)
		if len(b) < n {
			n = len(b)
		}
		// lt: a < b
		lt := BoolConst(len(a) < len(b))
		eq := BoolConst(len(a) == len(b))
		// process prefix positions from last to first
		ltT, eqT := lt, eq
		// after common prefix equal: result decided by lengths
		for i := n - 1; i >= 0; i-- {
			ai, bi := termOf(a[i]), termOf(b[i])
			ltT = Or(BVCmp("bvult", ai, bi), And(Eq(ai, bi), ltT))
			eqT = And(Eq(ai, bi), eqT)
		}
		var t *Term
		switch op {
		case token.LSS:
			t = ltT
		case token.LEQ:
			t = Or(ltT, eqT)
		case token.GTR:
			t = Not(Or(ltT, eqT))
		case token.GEQ:
			t = Not(ltT)
		}
		return mkScalar(t, types.Bool)
	}
	panic(fmt.Sprintf("symStrBinop: %v", op))
}

const tokenEQL = token.EQL

// concIndex concretises an index (forking over feasible values when symbolic)
// and performs the bounds check.
func concIndex(idx value, n int) int64 {
	switch idx := idx.(type) {
	case symv:
		w := kindWidth(idx.k)
		for i := 0; i < n; i++ {
			if X.decide(Eq(idx.t, BVConst(uint64(i), w))) {
				return int64(i)
			}
		}
		panic("runtime error: index out of range (symbolic)")
	}
	i := asInt64(idx)
	if i < 0 || i >= int64(n) {
		panic(fmt.Sprintf("runtime error: index out of range [%d] with length %d", i, n))
	}
	return i
}

// symConv handles conversions involving symbolic scalars and strings.
func symConv(utDst, utSrc types.Type, x value) (value, bool) {
	switch xv := x.(type) {
	case symv:
		if b, ok := utDst.(*types.Basic); ok {
			if b.Info()&types.IsInteger != 0 {
				return symConvInt(xv, b.Kind()), true
			}
			if b.Kind() == types.String {
				panic(abortPath{"unsupported: string(symbolic int)"})
			}
		}
		panic(abortPath{fmt.Sprintf("unsupported symbolic conversion to %v", utDst)})
	case symstr:
		switch d := utDst.(type) {
		case *types.Basic:
			if d.Kind() == types.String {
				return xv, true
			}
		case *types.Slice:
			if d.Elem().Underlying().(*types.Basic).Kind() == types.Byte {
				return append([]value{}, xv.b...), true
			}
			panic(abortPath{"unsupported: []rune(symbolic string)"})
		}
	case []value:
		// []byte / []rune with symbolic elements -> string
		if d, ok := utDst.(*types.Basic); ok && d.Kind() == types.String {
			if s, ok := utSrc.(*types.Slice); ok {
				switch s.Elem().Underlying().(*types.Basic).Kind() {
				case types.Byte:
					return mkStr(append([]value{}, xv...)), true
				case types.Rune:
					anySym := false
					for _, e := range xv {
						if isSym(e) {
							anySym = true
						}
					}
					if !anySym {
						return nil, false
					}
					var out []value
					for _, e := range xv {
						switch r := e.(type) {
						case int32:
							for _, c := range []byte(string(r)) {
								out = append(out, c)
							}
						case symv:
							out = append(out, symRuneBytes(r)...)
						}
					}
					return mkStr(out), true
				}
			}
		}
	}
	return nil, false
}

// symStrIter ranges over a symbolic string. Only ASCII bytes are supported
// for symbolic positions (the path forks on b < 0x80 and aborts otherwise).
type symStrIter struct {
	s symstr
	i int
}

func (it *symStrIter) next() tuple {
	if it.i >= len(it.s.b) {
		return tuple{false, nil, nil}
	}
	pos := it.i
	if b, ok := it.s.b[pos].(uint8); ok && b < 0x80 {
		it.i++
		return tuple{true, pos, int32(b)}
	}
	r, n := symDecodeRune(it.s.b[pos:])
	it.i += n
	return tuple{true, pos, r}
}

// symDecodeRune is utf8.DecodeRune over bytes that may be symbolic: the path forks on the shape of the
// sequence (ASCII, valid 2/3/4-byte sequence, anything else = U+FFFD of width 1), the rune is a bit-vector term.
func symDecodeRune(bs []value) (value, int) {
	bt := func(i int) *Term { return Resize(termOf(bs[i]), 32, false) }
	c := func(v uint64) *Term { return BVConst(v, 32) }
	in := func(x *Term, lo, hi uint64) *Term { return And(BVCmp("bvuge", x, c(lo)), BVCmp("bvule", x, c(hi))) }
	cont := func(i int) *Term { return in(bt(i), 0x80, 0xBF) }
	low6 := func(i int) *Term { return BVBin("bvand", bt(i), c(0x3F)) }
	shl := func(x *Term, n uint64) *Term { return BVBin("bvshl", x, c(n)) }
	or := func(xs ...*Term) *Term {
		r := xs[0]
		for _, x := range xs[1:] {
			r = BVBin("bvor", r, x)
		}
		return r
	}
	rune32 := func(t *Term) value { return mkScalar(t, types.Int32) }
	b0 := bt(0)
	if X.decide(BVCmp("bvult", b0, c(0x80))) {
		return rune32(b0), 1
	}
	if len(bs) >= 2 && X.decide(And(in(b0, 0xC2, 0xDF), cont(1))) {
		return rune32(or(shl(BVBin("bvand", b0, c(0x1F)), 6), low6(1))), 2
	}
	if len(bs) >= 3 {
		b1 := bt(1)
		okB1 := Ite(Eq(b0, c(0xE0)), in(b1, 0xA0, 0xBF), Ite(Eq(b0, c(0xED)), in(b1, 0x80, 0x9F), in(b1, 0x80, 0xBF)))
		if X.decide(And(And(in(b0, 0xE0, 0xEF), okB1), cont(2))) {
			return rune32(or(shl(BVBin("bvand", b0, c(0x0F)), 12), shl(low6(1), 6), low6(2))), 3
		}
	}
	if len(bs) >= 4 {
		b1 := bt(1)
		okB1 := Ite(Eq(b0, c(0xF0)), in(b1, 0x90, 0xBF), Ite(Eq(b0, c(0xF4)), in(b1, 0x80, 0x8F), in(b1, 0x80, 0xBF)))
		if X.decide(And(And(And(in(b0, 0xF0, 0xF4), okB1), cont(2)), cont(3))) {
			return rune32(or(shl(BVBin("bvand", b0, c(0x07)), 18), shl(low6(1), 12), shl(low6(2), 6), low6(3))), 4
		}
	}
	return int32(0xFFFD), 1
}

// symRuneBytes is utf8.AppendRune for a symbolic rune: the path forks on the encoding length
// (1..4 bytes; surrogates and out-of-range values encode U+FFFD), the bytes are bit-vector terms.
func symRuneBytes(r symv) []value {
	t := Resize(r.t, 32, true)
	c := func(v uint64) *Term { return BVConst(v, 32) }
	by := func(x *Term) value { return mkScalar(Resize(x, 8, false), types.Uint8) }
	shr := func(n uint64) *Term { return BVBin("bvlshr", t, c(n)) }
	cont := func(n uint64) value { return by(BVBin("bvor", c(0x80), BVBin("bvand", shr(n), c(0x3F)))) }
	if X.decide(BVCmp("bvult", t, c(0x80))) {
		return []value{by(t)}
	}
	if X.decide(BVCmp("bvult", t, c(0x800))) {
		return []value{by(BVBin("bvor", c(0xC0), shr(6))), cont(0)}
	}
	bad := Or(And(BVCmp("bvuge", t, c(0xD800)), BVCmp("bvult", t, c(0xE000))), BVCmp("bvugt", t, c(0x10FFFF)))
	if X.decide(bad) {
		return []value{uint8(0xEF), uint8(0xBF), uint8(0xBD)}
	}
	if X.decide(BVCmp("bvult", t, c(0x10000))) {
		return []value{by(BVBin("bvor", c(0xE0), shr(12))), cont(6), cont(0)}
	}
	return []value{by(BVBin("bvor", c(0xF0), shr(18))), cont(12), cont(6), cont(0)}
}
