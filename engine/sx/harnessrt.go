package sx

// Intrinsics for the harness runtime (verifrt) beyond the nondet inputs.

import (
	"fmt"
	"go/types"
)

func flattenObs(v value) (terms []*Term, ok bool) {
	switch x := v.(type) {
	case iface:
		if x.t == nil {
			return []*Term{BVConst(0, 64)}, true
		}
		if types.Implements(x.t, errorIface) {
			return []*Term{BVConst(1, 64)}, true
		}
		return flattenObs(x.v)
	case bool, symv, int, int64, int32, uint8, uint64, uint32, int8, int16, uint16, uint, uintptr:
		t := termOf(x)
		if t.Sort.Kind == 'B' {
			return []*Term{Ite(t, BVConst(1, 64), BVConst(0, 64))}, true
		}
		if t.Sort.Kind != 'V' {
			return nil, false
		}
		return []*Term{Resize(t, 64, kindSigned(kindOfValue(x)))}, true
	case string, symstr:
		b, _ := strBytes(x)
		out := []*Term{BVConst(uint64(len(b)), 64)}
		for _, e := range b {
			out = append(out, Resize(termOf(e), 64, false))
		}
		return out, true
	case []value:
		out := []*Term{BVConst(uint64(len(x)), 64)}
		for _, e := range x {
			t, ok := flattenObs(e)
			if !ok || len(t) != 1 {
				return nil, false
			}
			out = append(out, t[0])
		}
		return out, true
	case structure:
		if len(x) == 3 { // time.Time model
			set, ns := timeParts(x)
			return []*Term{Ite(set, BVConst(1, 64), BVConst(0, 64)), Ite(set, ns, BVConst(0, 64))}, true
		}
	}
	return nil, false
}

func init() {
	symExternals[rtPkg+"Thorough"] = func(fr *frame, args []value) value { return X.Thorough }
	symExternals[rtPkg+"Cover"] = func(fr *frame, args []value) value {
		X.pathCovers = append(X.pathCovers, labelOf(args[0]))
		return nil
	}
	symExternals[rtPkg+"Event"] = func(fr *frame, args []value) value {
		X.Events = append(X.Events, labelOf(args[0]))
		return nil
	}
	symExternals[rtPkg+"ResetTrace"] = func(fr *frame, args []value) value {
		X.Events = nil
		return nil
	}
	symExternals[rtPkg+"KnownFinding"] = func(fr *frame, args []value) value {
		id := labelOf(args[0])
		t := termOf(args[1])
		if old, ok := X.known[id]; ok {
			t = Or(old, t)
		}
		X.known[id] = t
		return nil
	}
	symExternals[rtPkg+"Observe"] = func(fr *frame, args []value) value {
		terms, ok := flattenObs(args[1])
		if !ok {
			panic(fmt.Sprintf("verifrt.Observe: unsupported value %T", args[1]))
		}
		X.pathObs = append(X.pathObs, obsTerm{label: labelOf(args[0]), terms: terms})
		return nil
	}
	symExternals[rtPkg+"Bytes"] = func(fr *frame, args []value) value {
		s := symExternals[rtPkg+"String"](fr, args)
		b, _ := strBytes(s)
		return append([]value{}, b...)
	}
	symExternals[rtPkg+"BytesN"] = func(fr *frame, args []value) value {
		s := symExternals[rtPkg+"StringN"](fr, args)
		b, _ := strBytes(s)
		return append([]value{}, b...)
	}
}
