//go:build verif

package app

import (
	"fmt"
	"io"
	"net/http"
	"net/netip"
	"net/url"
	"strings"

	"github.com/nuetzliches/hookaido/internal/config"
	"github.com/nuetzliches/hookaido/internal/ingress"
	"github.com/nuetzliches/hookaido/internal/queue"

	vrt "github.com/nuetzliches/hookaido/internal/verifrt"
)

// VerifMatchRemoteIPs: C10 remote_ip matcher on symbolic IPv4 address and prefix length.
func VerifMatchRemoteIPs() {
	a, b, c, d := vrt.Byte("a"), vrt.Byte("b"), vrt.Byte("c"), vrt.Byte("d")
	pa, pb, pc, pd := vrt.Byte("pa"), vrt.Byte("pb"), vrt.Byte("pc"), vrt.Byte("pd")
	bits := vrt.Choose("bits", 33)
	addr := netip.AddrFrom4([4]byte{a, b, c, d})
	pfx := netip.PrefixFrom(netip.AddrFrom4([4]byte{pa, pb, pc, pd}), bits)
	got := matchRemoteIPs(addr, true, []netip.Prefix{pfx})
	x := uint32(a)<<24 | uint32(b)<<16 | uint32(c)<<8 | uint32(d)
	p := uint32(pa)<<24 | uint32(pb)<<16 | uint32(pc)<<8 | uint32(pd)
	var mask uint32
	if bits > 0 {
		mask = ^uint32(0) << uint(32-bits)
	}
	vrt.Assert("C10.remote-ip-v4", got == (x&mask == p&mask))
}

// VerifMatchHosts: C10 host matcher vs the documented grammar.
func VerifMatchHosts() {
	host := vrt.String("host", 4)
	pat := vrt.String("pat", 4)
	got := matchHosts(host, []string{pat})
	want := false
	if host != "" {
		switch {
		case pat == "*":
			want = true
		case host == pat:
			want = true
		case len(pat) > 2 && pat[0] == '*' && pat[1] == '.':
			suffix := pat[1:] // ".domain"
			want = len(host) > len(suffix) && host[len(host)-len(suffix):] == suffix
		}
	}
	vrt.Assert("C10.match-hosts", got == want)
}

type hStore struct{ queue.Store; calls int }

func (s *hStore) Enqueue(env queue.Envelope) error { s.calls++; return nil }

type hRW struct {
	status int
	hdr    http.Header
}

func (w *hRW) Header() http.Header {
	if w.hdr == nil {
		w.hdr = http.Header{}
	}
	return w.hdr
}
func (w *hRW) Write(b []byte) (int, error) {
	if w.status == 0 {
		w.status = 200
	}
	return len(b), nil
}
func (w *hRW) WriteHeader(code int) {
	if w.status == 0 {
		w.status = code
	}
}

// VerifReloadMixture: C18 — a request concurrent with a reload is served entirely under the old
// or entirely under the new configuration. Old: /x requires HMAC. New: /x is gone.
func VerifReloadMixture() {
	oldC := config.Compiled{Routes: []config.CompiledRoute{{Path: "/x", AuthHMACSecrets: []string{"raw:k"}, Pull: &config.PullConfig{Path: "/p"}}}, PathToRoute: map[string]string{"/p": "/x"}}
	newC := config.Compiled{Routes: []config.CompiledRoute{{Path: "/y", Pull: &config.PullConfig{Path: "/q"}}}, PathToRoute: map[string]string{"/q": "/y"}}
	state := newRuntimeState(oldC)
	if err := state.loadAuth(oldC); err != nil {
		vrt.Assume(false)
	}
	st := &hStore{}
	ing := ingress.NewServer(st)
	ing.ResolveRoute = state.resolveIngress
	ing.AllowedMethodsFor = state.allowedMethodsFor
	ing.AllowRequestFor = state.allowIngress
	ing.BasicAuthFor = state.basicAuthFor
	ing.ForwardAuthFor = state.forwardAuthFor
	ing.HMACAuthFor = state.hmacAuthFor
	ing.LimitsFor = state.limitsFor
	ing.TargetsFor = state.targetsFor
	vrt.Pending(func() { _ = state.loadAuth(newC) }, func() { state.updateAll(newC) })
	w := &hRW{}
	r := &http.Request{Method: "POST", URL: &url.URL{Path: "/x"}, Header: http.Header{}, Body: io.NopCloser(strings.NewReader("b")), RemoteAddr: "1.2.3.4:5", Host: "h"}
	ing.ServeHTTP(w, r)
	// old config alone: unsigned request -> 401; new config alone: no route -> 404
	for _, c := range []int{202, 401, 404, 405, 413, 429, 503, 400, 0} {
		if w.status == c {
			vrt.Assert(fmt.Sprintf("dbg.status=%d", c), true)
		}
	}
	vrt.Assert("C18.old-or-new", w.status == 401 || w.status == 404)
	vrt.Assert("C18.no-unauthenticated-enqueue", st.calls == 0)
}

// VerifChannelIsolation: C10 — routes declared outbound/internal are never resolved by ingress.
func VerifChannelIsolation() {
	cts := []config.ChannelType{config.ChannelDefault, config.ChannelInbound, config.ChannelOutbound, config.ChannelInternal}
	ct0 := cts[vrt.Choose("ct0", 4)]
	ct1 := cts[vrt.Choose("ct1", 4)]
	c := config.Compiled{Routes: []config.CompiledRoute{{Path: "/a", ChannelType: ct0}, {Path: "/a/b", ChannelType: ct1}}}
	state := newRuntimeState(c)
	reqPath := []string{"/a", "/a/b", "/a/b/c", "/x"}[vrt.Choose("path", 4)]
	r := &http.Request{Method: "POST", URL: &url.URL{Path: reqPath}, Header: http.Header{}, RemoteAddr: "1.2.3.4:5", Host: "h"}
	route, ok := state.resolveIngress(r, reqPath)
	inbound := func(ct config.ChannelType) bool { return ct == config.ChannelDefault || ct == config.ChannelInbound }
	// reference: first inbound route whose path matches
	want, wantOK := "", false
	if inbound(ct0) && (reqPath == "/a" || strings.HasPrefix(reqPath, "/a/")) {
		want, wantOK = "/a", true
	} else if inbound(ct1) && (reqPath == "/a/b" || strings.HasPrefix(reqPath, "/a/b/")) {
		want, wantOK = "/a/b", true
	}
	vrt.Assert("C10.first-inbound-match", ok == wantOK && route == want)
}
