//go:build verif

package config

import (
	"strings"

	vrt "github.com/nuetzliches/hookaido/internal/verifrt"
)

// verif:harness props=C11 tier=quick native=yes weight=60
// verif:bounds config.Parse + config.Compile on generated configuration texts: global pull_api block absent / present without tokens / present with a token; 1..3 pull routes (thorough 1..4), each with or without its own pull token, in every order; token values are literal ("raw:") strings of 1 symbolic ASCII letter
func VerifC11CompiledPullAllowlistNeverEmpty() {
	maxRoutes := 3
	if vrt.Thorough() {
		maxRoutes = 4
	}
	tok := vrt.StringN("token", 1)
	vrt.Assume(tok[0] >= 'a' && tok[0] <= 'z')
	global := vrt.Choose("global-pull-api", 3) // 0 absent, 1 present without tokens, 2 present with a token
	n := 1 + vrt.Choose("routes", maxRoutes)
	var b strings.Builder
	switch global {
	case 1:
		b.WriteString("pull_api {\n  listen :9443\n}\n")
	case 2:
		b.WriteString("pull_api {\n  listen :9443\n  auth token raw:g" + tok + "\n}\n")
	}
	own := make([]bool, n)
	for i := 0; i < n; i++ {
		own[i] = vrt.Choose("route-has-own-token", 2) == 1
		name := []string{"a", "b", "c", "d"}[i]
		b.WriteString("/" + name + " {\n  pull {\n    path /e" + name + "\n")
		if own[i] {
			b.WriteString("    auth token raw:r" + name + tok + "\n")
		}
		b.WriteString("  }\n}\n")
	}
	cfg, err := Parse([]byte(b.String()))
	vrt.Assert("C11.compile.generated-text-parses", err == nil)
	if err != nil {
		return
	}
	compiled, res := Compile(cfg)
	vrt.Observe("ok", res.OK)
	if !res.OK {
		vrt.Cover("compile.rejected")
		// a rejection is only expected when the pull_api block is missing or some route would be left without any token
		missing := global == 0
		for i := 0; i < n; i++ {
			if !own[i] && global != 2 {
				missing = true
			}
		}
		vrt.Assert("C11.compile.rejects-only-configs-with-an-unprotected-pull-route", missing)
		return
	}
	vrt.Cover("compile.accepted")
	vrt.Assert("C11.compile.every-route-compiled", len(compiled.Routes) == n)
	for _, r := range compiled.Routes {
		vrt.Assert("C11.compile.pull-route-keeps-its-pull-block", r.Pull != nil)
		if r.Pull == nil {
			continue
		}
		effective := len(r.Pull.AuthTokens)
		if effective == 0 {
			effective = len(compiled.PullAPI.AuthTokens)
		}
		vrt.Assert("C11.compile.every-pull-route-has-a-non-empty-effective-allowlist", effective > 0)
	}
}
