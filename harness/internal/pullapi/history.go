//go:build verif

package pullapi

import (
	"time"

	"github.com/nuetzliches/hookaido/internal/queue"
	vrt "github.com/nuetzliches/hookaido/internal/verifrt"
)

// ghost copy of one message: what the documented contract says its state is
type gMsg struct {
	id      string
	state   queue.State // queued, leased, delivered (= gone), dead
	lease   string
	until   time.Time
	next    time.Time
	attempt int
	payload string
}

type gLease struct {
	id   string
	msg  int
	kind int // 0 open, 1 acked by the consumer, 2 nacked/dead-lettered by the consumer
}

// verif:harness props=C03,C04,C05 tier=quick native=yes weight=400 tonly=C03
// verif:bounds history of K=3 pull-API operations (thorough: 4, the first one fixed to a dequeue with batch 2) (the transport-neutral Server.Dequeue/AckSingle/NackSingle/Extend used by HTTP and gRPC) on a REAL MemoryStore with 2 messages of one route (the second one scheduled an arbitrary time ahead); before every operation the clock advances by an arbitrary amount (0..1h, symbolic, so every expiry/not-before boundary is hit to the nanosecond); operation from {dequeue batch 1, dequeue batch 2, ack, nack with arbitrary delay, dead-letter, extend by an arbitrary amount}, lease TTL arbitrary (0,1h]; presented lease id = any id handed out so far in this history (incl. ids of earlier lease epochs) or an unknown id; a ghost copy of the contract is kept alongside and compared after every step
func VerifC03PullHistory() {
	pullHistory(false)
}

// verif:harness props=C04,C03 tier=quick native=yes weight=300 tonly=C04
// verif:bounds the same history harness (K=3 steps; thorough 4 with the first one fixed to a dequeue with batch 2; real MemoryStore, ghost contract, arbitrary clock advances) with the BATCH operations in the mix: operation from {dequeue batch 2, ack, nack, batch ack and batch nack of two lease ids drawn from {first handed out, second handed out, unknown}}
func VerifC04PullBatchHistory() {
	pullHistory(true)
}

func pullHistory(batchOps bool) {
	steps := 3
	if vrt.Thorough() {
		steps = 4
	}
	now := time.Unix(1700000000, 0)
	clock := func() time.Time { return now }
	ms := queue.NewMemoryStore(queue.WithNowFunc(clock))
	s := NewServer(ms)
	s.now = clock
	ahead := vrt.Duration("second-message-scheduled-ahead")
	vrt.Assume(ahead >= 0 && ahead <= time.Hour)
	g := []gMsg{
		{id: "a", state: queue.StateQueued, next: now, payload: "pa"},
		{id: "b", state: queue.StateQueued, next: now.Add(ahead), payload: "pb"},
	}
	okA := ms.Enqueue(queue.Envelope{ID: "a", Route: "/r", Target: "pull", Payload: []byte("pa")}) == nil
	okB := ms.Enqueue(queue.Envelope{ID: "b", Route: "/r", Target: "pull", Payload: []byte("pb"), NextRunAt: now.Add(ahead)}) == nil
	vrt.Assert("C05.history.setup", okA && okB)
	var leases []gLease
	for step := 0; step < steps; step++ {
		adv := vrt.Duration("clock-advance")
		vrt.Assume(adv >= 0 && adv <= time.Hour)
		now = now.Add(adv)
		op := 0
		if steps == 4 && step == 0 {
			op = 1 // thorough: a fourth step in front, fixed to "dequeue with batch 2" (arbitrary TTL and clock)
		} else if batchOps {
			op = []int{1, 2, 3, 6, 7}[vrt.Choose("op", 5)]
		} else {
			op = vrt.Choose("op", 6)
		}
		if op <= 1 {
			// ---------------- dequeue ----------------
			batch := op + 1
			ttl := vrt.Duration("ttl")
			vrt.Assume(ttl > 0 && ttl <= time.Hour)
			res, operr := s.Dequeue("/r", DequeueParams{Batch: batch, HasMaxWait: true, MaxWait: 0, HasLeaseTTL: true, LeaseTTL: ttl})
			vrt.Assert("C05.history.dequeue-ok", operr == nil)
			// contract: expired leases are back in the queue, visible from now
			ready := 0
			for i := range g {
				if g[i].state == queue.StateLeased && !now.Before(g[i].until) {
					g[i].state, g[i].lease, g[i].next = queue.StateQueued, "", now
				}
				if g[i].state == queue.StateQueued && !now.Before(g[i].next) {
					ready++
				}
			}
			want := batch
			if ready < want {
				want = ready
			}
			vrt.Assert("C05.history.dequeue-returns-exactly-min-batch-ready", len(res.Items) == want)
			for k, it := range res.Items {
				idx := -1
				for i := range g {
					if g[i].id == it.ID {
						idx = i
					}
				}
				vrt.Assert("C03.history.returned-message-exists", idx >= 0)
				if idx < 0 {
					continue
				}
				m := &g[idx]
				// never a message that is held by a live lease, settled, or not yet due
				vrt.Assert("C03.history.only-ready-messages-are-handed-out", m.state == queue.StateQueued && !now.Before(m.next))
				fresh := it.LeaseID != ""
				for _, l := range leases {
					if l.id == it.LeaseID {
						fresh = false
					}
				}
				for k2 := 0; k2 < k; k2++ {
					if res.Items[k2].LeaseID == it.LeaseID || res.Items[k2].ID == it.ID {
						fresh = false
					}
				}
				vrt.Assert("C03.history.fresh-lease-id-and-no-message-twice", fresh)
				vrt.Assert("C03.history.attempt-incremented-by-one", it.Attempt == m.attempt+1)
				vrt.Assert("C03.history.lease-runs-until-now-plus-ttl", it.LeaseUntil.Equal(now.Add(ttl)))
				vrt.Assert("C07.history.payload-as-enqueued", string(it.Payload) == m.payload)
				m.state, m.lease, m.until, m.attempt = queue.StateLeased, it.LeaseID, now.Add(ttl), m.attempt+1
				leases = append(leases, gLease{id: it.LeaseID, msg: idx})
				vrt.Cover("history.leased")
			}
		} else if op >= 6 {
			// ---------------- batch ack / batch nack with two different lease ids ----------------
			p1 := []int{0, 1, 9}[vrt.Choose("batch-lease-1", 3)]
			p2 := []int{0, 1, 9}[vrt.Choose("batch-lease-2", 3)]
			ids := []string{"unknown-lease", "other-unknown-lease"}
			lis := []int{-1, -1}
			if p1 < len(leases) {
				ids[0], lis[0] = leases[p1].id, p1
			}
			if p2 < len(leases) && p2 != p1 {
				ids[1], lis[1] = leases[p2].id, p2
			}
			var res LeaseBatchResult
			var operr *OpError
			if op == 6 {
				res, operr = s.AckBatch("/r", ids)
			} else {
				res, operr = s.NackBatch("/r", ids, false, "", 0)
			}
			vrt.Assert("C04.history.batch-call-itself-succeeds", operr == nil)
			wantOK, wantConflicts, dups := 0, 0, 0
			for k := 0; k < 2; k++ {
				var m *gMsg
				if lis[k] >= 0 {
					m = &g[leases[lis[k]].msg]
					if m.state != queue.StateLeased || m.lease != ids[k] {
						m = nil
					}
				}
				switch {
				case m != nil && now.Before(m.until):
					wantOK++
					if op == 6 {
						m.state, m.lease = queue.StateDelivered, ""
						leases[lis[k]].kind = 1
					} else {
						m.state, m.lease, m.next = queue.StateQueued, "", now
						leases[lis[k]].kind = 2
					}
				case m != nil:
					wantConflicts++
					m.state, m.lease, m.next = queue.StateQueued, "", now
				default:
					wantConflicts++
					if lis[k] >= 0 && ((op == 6 && leases[lis[k]].kind == 1) || (op == 7 && leases[lis[k]].kind == 2)) {
						dups++ // may be answered as the idempotent success of a duplicate instead
					}
				}
			}
			vrt.Cover("history.batch-op")
			okCounts := res.Succeeded >= wantOK && res.Succeeded <= wantOK+dups && res.Succeeded+len(res.Conflicts) == 2 && len(res.Conflicts) <= wantConflicts
			vrt.Assert("C04.history.batch-applies-the-single-lease-rule-per-id", okCounts)
		} else {
			// ---------------- ack / nack / dead-letter / extend with some lease id ----------------
			pick := 0
			if batchOps {
				pick = []int{0, 1, 9}[vrt.Choose("presented-lease", 3)]
			} else {
				pick = vrt.Choose("presented-lease", 4)
			}
			presented := "unknown-lease"
			li := -1
			if pick < len(leases) {
				li = pick
				presented = leases[pick].id
			}
			d := vrt.Duration("d")
			vrt.Assume(d >= -time.Hour && d <= time.Hour)
			var operr *OpError
			switch op {
			case 2:
				operr = s.AckSingle("/r", presented)
			case 3:
				operr = s.NackSingle("/r", presented, false, "", d)
			case 4:
				operr = s.NackSingle("/r", presented, true, "why", 0)
			case 5:
				operr = s.Extend("/r", presented, d)
			}
			// is the presented id the CURRENT lease of its message?
			var m *gMsg
			if li >= 0 {
				m = &g[leases[li].msg]
				if m.state != queue.StateLeased || m.lease != presented {
					m = nil // settled, superseded by a later lease epoch, or expired and re-queued
				}
			}
			switch {
			case op == 5 && d <= 0:
				// a non-positive extension is documented as a no-op success whatever the lease
				vrt.Assert("C04.history.nonpositive-extend-is-a-noop", operr == nil)
			case m != nil && now.Before(m.until):
				vrt.Cover("history.live-lease-op")
				vrt.Assert("C04.history.current-unexpired-lease-is-accepted", operr == nil)
				switch op {
				case 2:
					m.state, m.lease = queue.StateDelivered, ""
					leases[li].kind = 1
				case 3:
					dd := d
					if dd < 0 {
						dd = 0
					}
					m.state, m.lease, m.next = queue.StateQueued, "", now.Add(dd)
					leases[li].kind = 2
				case 4:
					m.state, m.lease = queue.StateDead, ""
					leases[li].kind = 2
				case 5:
					m.until = m.until.Add(d)
				}
			case m != nil:
				// current but expired: conflict, and the message goes back to the queue
				vrt.Cover("history.expired-lease-op")
				vrt.Assert("C04.history.expired-lease-is-a-conflict", operr != nil && operr.StatusCode == 409)
				m.state, m.lease, m.next = queue.StateQueued, "", now
			default:
				// stale, foreign or unknown: a conflict — or the idempotent answer to a duplicate of a call that itself succeeded
				dupOK := li >= 0 && ((op == 2 && leases[li].kind == 1) || ((op == 3 || op == 4) && leases[li].kind == 2))
				if operr == nil {
					vrt.Assert("C04.history.stale-success-only-as-idempotent-duplicate", dupOK)
				} else {
					vrt.Cover("history.stale-conflict")
					vrt.Assert("C04.history.stale-lease-is-a-conflict", operr.StatusCode == 409)
				}
			}
		}
		// ---------------- the store agrees with the contract after every step ----------------
		lk, err := ms.LookupMessages(queue.MessageLookupRequest{IDs: []string{"a", "b"}})
		vrt.Assert("C04.history.lookup-ok", err == nil)
		for i := range g {
			var got queue.State
			for _, it := range lk.Items {
				if it.ID == g[i].id {
					got = it.State
				}
			}
			want := g[i].state
			if want == queue.StateDelivered {
				want = "" // acked messages are removed (no delivered retention configured)
			}
			vrt.Assert("C04.history.state-follows-the-contract-after-every-step", got == want)
		}
	}
}
