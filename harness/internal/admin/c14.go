//go:build verif

package admin

// C14 at the Admin API: a by-filter mutation request reaches the store with exactly the criteria the body names.

import (
	"net/http"
	"net/url"
	"time"

	"github.com/nuetzliches/hookaido/internal/queue"
	vrt "github.com/nuetzliches/hookaido/internal/verifrt"
)

type hFilterStore struct {
	queue.Store
	ops  []string
	reqs []queue.MessageManageFilterRequest
}

func (s *hFilterStore) CancelMessagesByFilter(r queue.MessageManageFilterRequest) (queue.MessageCancelResponse, error) {
	s.ops, s.reqs = append(s.ops, "cancel"), append(s.reqs, r)
	return queue.MessageCancelResponse{Matched: 1, Canceled: 1}, nil
}
func (s *hFilterStore) RequeueMessagesByFilter(r queue.MessageManageFilterRequest) (queue.MessageRequeueResponse, error) {
	s.ops, s.reqs = append(s.ops, "requeue"), append(s.reqs, r)
	return queue.MessageRequeueResponse{Matched: 1, Requeued: 1}, nil
}
func (s *hFilterStore) ResumeMessagesByFilter(r queue.MessageManageFilterRequest) (queue.MessageResumeResponse, error) {
	s.ops, s.reqs = append(s.ops, "resume"), append(s.reqs, r)
	return queue.MessageResumeResponse{Matched: 1, Resumed: 1}, nil
}

func hTrimASCII(s string) string {
	sp := func(c byte) bool { return c == ' ' || c == '\t' || c == '\n' || c == '\v' || c == '\f' || c == '\r' }
	i, j := 0, len(s)
	for i < j && sp(s[i]) {
		i++
	}
	for j > i && sp(s[j-1]) {
		j--
	}
	return s[i:j]
}

// verif:harness props=C14 tier=quick weight=25
// verif:bounds POST /messages/{cancel,requeue,resume}_by_filter on a server without managed endpoints (only the JSON decoding is replaced): route from {absent, "/", "/a", padded "/a", "/a/", "//", "a"} or any ASCII string of 0..2 symbolic bytes; target from {absent, t, padded t}; state from {absent, each state, upper-case, padded, bogus}; limit any int; before absent / RFC 3339 / garbage; preview flag; recording store
func VerifC14AdminFilterPassesExactlyTheNamedCriteria() {
	st := &hFilterStore{}
	s := NewServer(st)
	l := 2 // (three symbolic bytes exceed the path limit; the fixed menu covers the longer spellings)
	routes := []string{"", "/", "/a", " /a ", "/a/", "//", "a"}
	var route string
	if k := vrt.Choose("route", len(routes)+1); k < len(routes) {
		route = routes[k]
	} else {
		route = vrt.String("route-bytes", l)
		for i := 0; i < len(route); i++ {
			vrt.Assume(route[i] < 0x80)
		}
	}
	target := []string{"", "t", " t "}[vrt.Choose("target", 3)]
	states := []string{"", "queued", "leased", "delivered", "dead", "canceled", "DEAD", " canceled ", "bogus"}
	state := states[vrt.Choose("state", len(states))]
	limit := vrt.Int("limit")
	befores := []string{"", "2024-05-06T07:08:09Z", "yesterday"}
	before := befores[vrt.Choose("before", 3)]
	preview := vrt.Bool("preview")
	op := vrt.Choose("op", 3)
	body := messagesManageFilterRequest{Route: route, Target: target, State: state, Limit: limit, Before: before, PreviewOnly: preview}
	vrt.Replace(decodeJSONBodyStrict, func(r *http.Request, dst any) error {
		*dst.(*messagesManageFilterRequest) = body
		return nil
	})
	path := []string{"/messages/cancel_by_filter", "/messages/requeue_by_filter", "/messages/resume_by_filter"}[op]
	r := &http.Request{Method: "POST", URL: &url.URL{Path: path}, Header: http.Header{}, Body: http.NoBody}
	r.Header.Set("X-Hookaido-Audit-Reason", "ticket-1")
	w := &hRW{}
	s.ServeHTTP(w, r)

	// the documented request rules
	wantRoute := hTrimASCII(route)
	routeOK := wantRoute == "" || wantRoute[0] == '/'
	wantState, stateOK := queue.State(""), true
	switch hTrimASCII(state) {
	case "":
	case "queued":
		wantState = queue.StateQueued
	case "leased":
		wantState = queue.StateLeased
	case "delivered":
		wantState = queue.StateDelivered
	case "dead", "DEAD":
		wantState = queue.StateDead
	case "canceled":
		wantState = queue.StateCanceled
	default:
		stateOK = false
	}
	allowed := map[int][]queue.State{0: {queue.StateQueued, queue.StateLeased, queue.StateDead}, 1: {queue.StateDead, queue.StateCanceled}, 2: {queue.StateCanceled}}
	if stateOK && wantState != "" {
		stateOK = false
		for _, a := range allowed[op] {
			if a == wantState {
				stateOK = true
			}
		}
	}
	wantLimit := limit
	if wantLimit == 0 {
		wantLimit = 100
	}
	if wantLimit > 1000 {
		wantLimit = 1000
	}
	valid := routeOK && stateOK && limit >= 0 && before != "yesterday"
	if !valid {
		vrt.Assert("C14.admin.filter.invalid-request-reaches-no-store-call", len(st.reqs) == 0 && w.status == 400)
		return
	}
	vrt.Cover("admin.filter.accepted")
	ok := len(st.reqs) == 1 && st.ops[0] == []string{"cancel", "requeue", "resume"}[op]
	vrt.Assert("C14.admin.filter.exactly-one-store-call-of-the-named-operation", ok)
	if !ok {
		return
	}
	got := st.reqs[0]
	vrt.Assert("C14.admin.filter.route-criterion-is-the-named-route", got.Route == wantRoute)
	vrt.Assert("C14.admin.filter.target-and-state-criteria-as-named", got.Target == hTrimASCII(target) && got.State == wantState)
	wantBefore := time.Time{}
	if before != "" {
		wantBefore = time.Date(2024, 5, 6, 7, 8, 9, 0, time.UTC)
	}
	vrt.Assert("C14.admin.filter.limit-cursor-and-preview-as-named", got.Limit == wantLimit && got.PreviewOnly == preview && got.Before.Equal(wantBefore))
}

// verif:harness props=C15 tier=quick native=yes weight=15
// verif:bounds resolvePublishTarget (which target a published item is stored for): the route has 0, 1 or 2 allowed targets ("pull", "https://t/H"); the item names no target or any ASCII string of 0..4 symbolic bytes (thorough 5) or a case variant / padded spelling of an allowed target: the stored target is ALWAYS one of the route's allowed targets, verbatim
func VerifC15PublishTargetIsAnAllowedTargetVerbatim() {
	l := 4
	if vrt.Thorough() {
		l = 5
	}
	allowedMenu := [][]string{nil, {"pull"}, {"pull", "https://t/H"}, {"https://t/H"}}
	allowed := allowedMenu[vrt.Choose("allowed-targets", len(allowedMenu))]
	var target string
	switch k := vrt.Choose("named-target", 6); k {
	case 0:
		target = ""
	case 1:
		target = " pull "
	case 2:
		target = "PULL"
	case 3:
		target = "https://t/h"
	case 4:
		target = "https://t/H"
	default:
		target = vrt.String("target-bytes", l)
		for i := 0; i < len(target); i++ {
			vrt.Assume(target[i] < 0x80)
		}
	}
	got, ok := resolvePublishTarget(target, allowed)
	vrt.Observe("ok", ok)
	if ok {
		vrt.Cover("target.resolved")
		in := false
		for _, a := range allowed {
			in = in || got == a
		}
		vrt.Assert("C15.target.stored-target-is-one-of-the-routes-allowed-targets", in)
		named := hTrimASCII(target)
		vrt.Assert("C15.target.a-named-target-resolves-only-to-itself", named == "" || got == named)
		vrt.Assert("C15.target.no-name-resolves-only-when-the-route-has-one-target", named != "" || len(allowed) == 1)
	} else {
		named := hTrimASCII(target)
		for _, a := range allowed {
			vrt.Assert("C15.target.an-allowed-target-named-verbatim-is-accepted", named != a)
		}
		if len(allowed) == 0 {
			vrt.Cover("target.route-without-targets")
		}
	}
}
