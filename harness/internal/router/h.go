//go:build verif

package router

import vrt "github.com/nuetzliches/hookaido/internal/verifrt"

// reference: exact match, or route "/" , or prefix followed by '/'
func refMatch(req, route string) bool {
	if route == "" {
		return false
	}
	if route == "/" {
		return true
	}
	if len(req) < len(route) {
		return false
	}
	for i := 0; i < len(route); i++ {
		if req[i] != route[i] {
			return false
		}
	}
	if len(req) == len(route) {
		return true
	}
	return req[len(route)] == '/'
}

func VerifMatchPath() {
	req := vrt.String("req", 4)
	route := vrt.String("route", 3)
	vrt.Assert("C10.matchpath", MatchPath(req, route) == refMatch(req, route))
}
