//go:build verif

package mcp

import (
	"errors"
	"strings"
	"time"

	"github.com/nuetzliches/hookaido/internal/config"
	"github.com/nuetzliches/hookaido/internal/queue"
	vrt "github.com/nuetzliches/hookaido/internal/verifrt"
)

// verif:harness props=C20 tier=quick native=yes weight=10
// verif:bounds configured config path from {a path, a path with blanks around, empty, blanks}; args["path"] absent, a non-string, the configured path (also padded), another path, or any ASCII string of 0..3 symbolic bytes
func VerifC20ResolveConfigPath() {
	cfgPaths := []string{"/etc/h/Hookaidofile", " /etc/h/Hookaidofile ", "", "  "}
	s := &Server{ConfigPath: cfgPaths[vrt.Choose("configured", len(cfgPaths))]}
	want := strings.TrimSpace(s.ConfigPath)
	args := map[string]any{}
	switch vrt.Choose("arg", 6) {
	case 1:
		args["path"] = 42
	case 2:
		args["path"] = "/etc/h/Hookaidofile"
	case 3:
		args["path"] = "  /etc/h/Hookaidofile "
	case 4:
		args["path"] = "/tmp/evil/Hookaidofile"
	case 5:
		sp := vrt.String("path", 3)
		for i := 0; i < len(sp); i++ {
			vrt.Assume(sp[i] < 0x80)
		}
		args["path"] = sp
	}
	got, err := s.resolveConfigPath(args)
	vrt.Observe("ok", err == nil)
	vrt.Assert("C20.confine.resolved-path-is-the-configured-one-or-an-error", err != nil || (got == want && want != ""))
	if _, has := args["path"]; !has && want != "" {
		vrt.Assert("C20.confine.no-path-argument-means-the-configured-path", err == nil && got == want)
	}
}

type hFSEvent struct {
	op   string
	path string
	data string
}

// verif:harness props=C20,C18 tier=quick weight=25
// verif:bounds config_apply with mode from {absent, preview_only, write_only, write_and_reload, WRITE_ONLY padded, bogus}; path argument absent / configured / foreign; content parses or not, compiles or not; health check after reload succeeds or fails; the file did or did not exist before; file writes, reads and the health probe replaced by recording stubs
func VerifC20ConfigApply() {
	const cfgPath = "/etc/h/Hookaidofile"
	s := &Server{ConfigPath: cfgPath, MutationsEnabled: true, Role: RoleAdmin, Principal: "ops"}
	var fs []hFSEvent
	parsed, compiledOK := false, false
	parseOK := vrt.Choose("content-parses", 2) == 1
	compileOK := vrt.Choose("content-compiles", 2) == 1
	healthOK := vrt.Choose("health-after-reload", 2) == 1
	existed := vrt.Choose("file-existed", 2) == 1
	writeFails := vrt.Choose("write-fails", 2) == 1
	vrt.Replace(config.Parse, func(data []byte) (*config.Config, error) {
		parsed = true
		if !parseOK {
			return nil, errors.New("parse error")
		}
		return &config.Config{}, nil
	})
	vrt.Replace(config.Compile, func(cfg *config.Config) (config.Compiled, config.ValidationResult) {
		compiledOK = compileOK
		return config.Compiled{}, config.ValidationResult{OK: compileOK}
	})
	vrt.Replace(writeFileAtomic, func(path string, data []byte) error {
		fs = append(fs, hFSEvent{"write", path, string(data)})
		if writeFails && len(fs) == 1 {
			return errors.New("disk full")
		}
		return nil
	})
	vrt.Replace(readExistingFile, func(p string) ([]byte, bool, error) {
		fs = append(fs, hFSEvent{"read", p, ""})
		if existed {
			return []byte("OLD"), true, nil
		}
		return nil, false, nil
	})
	vrt.Replace(waitForAdminHealth, func(compiled config.Compiled, timeout time.Duration) (string, error) {
		fs = append(fs, hFSEvent{"health", "", ""})
		if !healthOK {
			return "http://x/healthz", errors.New("unhealthy")
		}
		return "http://x/healthz", nil
	})
	vrt.Replace(rollbackConfigFile, func(p string, ex bool, previous []byte) error {
		fs = append(fs, hFSEvent{"rollback", p, string(previous)})
		return nil
	})
	args := map[string]any{"content": "NEW"}
	modes := []string{"", "preview_only", "write_only", "write_and_reload", " WRITE_ONLY ", "bogus"}
	mi := vrt.Choose("mode", len(modes))
	if mi > 0 {
		args["mode"] = modes[mi]
	}
	pathArg := vrt.Choose("path-arg", 3)
	switch pathArg {
	case 1:
		args["path"] = cfgPath
	case 2:
		args["path"] = "/tmp/evil"
	}
	_, err := s.toolConfigApply(args)
	writes, rollbacks := 0, 0
	for i, e := range fs {
		switch e.op {
		case "write":
			writes++
			vrt.Assert("C20.apply.writes-only-the-configured-path", e.path == cfgPath)
			vrt.Assert("C20.apply.writes-only-content-that-parsed-and-compiled", parsed && parseOK && compiledOK && e.data == "NEW")
		case "rollback":
			rollbacks++
			vrt.Assert("C18.apply.rollback-restores-the-previous-content", e.path == cfgPath && e.data == map[bool]string{true: "OLD", false: ""}[existed] && i > 0)
		}
	}
	writeMode := mi == 2 || mi == 3 || mi == 4
	if pathArg == 2 || !writeMode || !parseOK || !compileOK {
		vrt.Assert("C20.apply.no-write-when-refused-or-preview-or-invalid", writes == 0)
	}
	if pathArg == 2 {
		vrt.Assert("C20.apply.foreign-path-is-an-error", err != nil)
	}
	if mi == 3 && pathArg != 2 && parseOK && compileOK && !writeFails && !healthOK {
		vrt.Assert("C18.apply.failed-reload-is-rolled-back", rollbacks == 1 && writes == 1)
	}
	if healthOK || mi != 3 {
		vrt.Assert("C18.apply.no-rollback-without-a-failed-reload", rollbacks == 0)
	}
}

func hTrimASCII(s string) string {
	sp := func(c byte) bool { return c == ' ' || c == '\t' || c == '\n' || c == '\v' || c == '\f' || c == '\r' }
	i, j := 0, len(s)
	for i < j && sp(s[i]) {
		i++
	}
	for j > i && sp(s[j-1]) {
		j--
	}
	return s[i:j]
}

// verif:harness props=C20 tier=quick native=yes weight=15
// verif:bounds the audit arguments of every mutating tool (parseMutationAuditArgs, and parseManagementEndpointMutationArgs for the endpoint tools): configured principal from {empty, blank, ops, padded Op, o}; supplied actor any ASCII string of 0..3 symbolic bytes (thorough 4) or absent; reason present
func VerifC20ActorMustEqualPrincipal() {
	l := 3
	if vrt.Thorough() {
		l = 4
	}
	principal := []string{"", " ", "ops", " Op ", "o"}[vrt.Choose("principal", 5)]
	actor := vrt.String("actor", l)
	for i := 0; i < len(actor); i++ {
		vrt.Assume(actor[i] < 0x80)
	}
	args := map[string]any{"reason": "because", "application": "billing", "endpoint_name": "invoices"}
	if vrt.Bool("actor-supplied") {
		args["actor"] = actor
	} else {
		actor = ""
	}
	tp, ta := hTrimASCII(principal), hTrimASCII(actor)
	refuse := ta != "" && tp != "" && ta != tp
	want := ta
	if want == "" {
		want = tp
	}
	var got string
	var err error
	if vrt.Bool("endpoint-tool") {
		var r managementEndpointMutationRequest
		r, err = parseManagementEndpointMutationArgs(args, false, principal)
		got = r.Actor
	} else {
		var r mutationAuditArgs
		r, err = parseMutationAuditArgs(args, principal)
		got = r.Actor
	}
	vrt.Observe("refused", err != nil)
	vrt.Assert("C20.actor.refused-iff-a-supplied-actor-differs-from-the-principal", (err != nil) == refuse)
	ok := err != nil || got == want
	vrt.Assert("C20.actor.recorded-actor-is-the-principal-or-the-equal-actor", ok)
}

// verif:harness props=C14 tier=quick native=yes weight=10
// verif:bounds the request bodies the MCP by-filter tools forward to the Admin API (messageManageFilterPayload for route selectors, scopedMessageManageFilterPayload for application/endpoint selectors): route absent or /r, target absent or t, state absent / dead / canceled, any limit, before absent or one of two instants, preview flag: every criterion the caller named is in the forwarded body, with its value, and nothing else
func VerifC14MCPForwardsEveryNamedCriterion() {
	req := queue.MessageManageFilterRequest{
		Route:       []string{"", "/r"}[vrt.Choose("route", 2)],
		Target:      []string{"", "t"}[vrt.Choose("target", 2)],
		State:       []queue.State{"", queue.StateDead, queue.StateCanceled}[vrt.Choose("state", 3)],
		Limit:       vrt.Int("limit"),
		PreviewOnly: vrt.Bool("preview"),
	}
	wantBefore := ""
	switch vrt.Choose("before", 3) {
	case 1:
		req.Before = time.Date(2024, 5, 6, 7, 8, 9, 0, time.UTC)
		wantBefore = "2024-05-06T07:08:09Z"
	case 2:
		req.Before = time.Date(2031, 1, 2, 3, 4, 5, 600, time.UTC)
		wantBefore = "2031-01-02T03:04:05.0000006Z"
	}
	scoped := vrt.Bool("application-endpoint-selector")
	var p map[string]any
	if scoped {
		p = scopedMessageManageFilterPayload(req)
	} else {
		p = messageManageFilterPayload(req, "", "")
	}
	str := func(k string) string {
		s, _ := p[k].(string)
		return s
	}
	has := func(k string) bool { _, ok := p[k]; return ok }
	lim, _ := p["limit"].(int)
	prev, _ := p["preview_only"].(bool)
	vrt.Assert("C14.mcp.limit-and-preview-forwarded", lim == req.Limit && prev == req.PreviewOnly)
	vrt.Assert("C14.mcp.target-criterion-forwarded", has("target") == (req.Target != "") && str("target") == req.Target)
	vrt.Assert("C14.mcp.state-criterion-forwarded", has("state") == (req.State != "") && str("state") == string(req.State))
	vrt.Assert("C14.mcp.before-cursor-forwarded", has("before") == (wantBefore != "") && str("before") == wantBefore)
	if !scoped {
		vrt.Assert("C14.mcp.route-criterion-forwarded", has("route") == (req.Route != "") && str("route") == req.Route)
	}
	n := 2
	for _, k := range []string{"target", "state", "before", "route"} {
		if has(k) {
			n++
		}
	}
	vrt.Assert("C14.mcp.nothing-else-in-the-body", len(p) == n)
}
