//go:build verif

package app

import (
	"encoding/hex"
	"io"
	"net/http"
	"net/url"
	"strings"
	"time"

	"github.com/nuetzliches/hookaido/internal/config"
	vrt "github.com/nuetzliches/hookaido/internal/verifrt"
)

// verif:harness props=C08,C17 tier=quick weight=80
// verif:bounds END TO END from configuration text: 2 or 3 ingress routes in any of their orders, each protected by `auth hmac secret_ref` to its OWN secret (S1/S2/S3 with different values; S3 optionally not yet valid) or by an inline secret; real Parse -> Compile -> newRuntimeState -> loadAuth -> ingress.Server; one correctly formed signed request to one of the routes, signed with the secret of that route or with the secret of ANOTHER route
func VerifC08SecretRefsArePerRoute() {
	names := []string{"a", "b", "c"}
	keys := map[string]string{"a": "key-one", "b": "key-two", "c": "key-three"}
	n := 2 + vrt.Choose("routes", 2)
	order := []string{}
	// an arbitrary order of the first n routes
	rest := append([]string{}, names[:n]...)
	for len(rest) > 0 {
		k := vrt.Choose("next-route", len(rest))
		order = append(order, rest[k])
		rest = append(rest[:k], rest[k+1:]...)
	}
	inlineC := vrt.Choose("route-c-inline-secret", 2) == 1
	futureC := vrt.Choose("secret-of-c-not-yet-valid", 2) == 1
	var b strings.Builder
	b.WriteString("pull_api {\n  listen :9443\n  auth token raw:t\n}\n")
	b.WriteString("secrets {\n  secret \"S1\" {\n    value raw:key-one\n    valid_from \"2020-01-01T00:00:00Z\"\n  }\n  secret \"S2\" {\n    value raw:key-two\n    valid_from \"2020-01-01T00:00:00Z\"\n  }\n")
	if futureC {
		b.WriteString("  secret \"S3\" {\n    value raw:key-three\n    valid_from \"2099-01-01T00:00:00Z\"\n  }\n}\n")
	} else {
		b.WriteString("  secret \"S3\" {\n    value raw:key-three\n    valid_from \"2020-01-01T00:00:00Z\"\n  }\n}\n")
	}
	for _, r := range order {
		ref := map[string]string{"a": "S1", "b": "S2", "c": "S3"}[r]
		auth := "  auth hmac secret_ref \"" + ref + "\"\n"
		if r == "c" && inlineC {
			auth = "  auth hmac raw:key-three\n"
		}
		b.WriteString("/" + r + " {\n" + auth + "  pull {\n    path /p" + r + "\n  }\n}\n")
	}
	cfg, err := config.Parse([]byte(b.String()))
	vrt.Assert("C08.refs.text-parses", err == nil)
	if err != nil {
		return
	}
	compiled, res := config.Compile(cfg)
	vrt.Assert("C08.refs.compiles", res.OK)
	if !res.OK {
		return
	}
	state := newRuntimeState(compiled)
	lerr := state.loadAuth(compiled)
	vrt.Assert("C08.refs.secrets-load", lerr == nil)
	if lerr != nil {
		return
	}
	now := time.Unix(1700000005, 0)
	for _, a := range state.hmacByRoute {
		if a != nil {
			a.Now = func() time.Time { return now }
		}
	}
	target := names[vrt.Choose("request-to", n)]
	signer := names[vrt.Choose("signed-with-secret-of", n)]
	body := "bb"
	bh := vrt.SHA256([]byte(body))
	canon := "1700000000" + "\n" + "POST" + "\n" + "/" + target + "\n" + hex.EncodeToString(bh[:])
	mac := vrt.HMACSHA256([]byte(keys[signer]), []byte(canon))
	hdr := http.Header{"X-Signature": []string{hex.EncodeToString(mac[:])}, "X-Timestamp": []string{"1700000000"}, "X-Nonce": []string{"n1"}}
	st := &hStore{}
	w := &hRW{}
	hWire(state, st).ServeHTTP(w, &http.Request{Method: "POST", URL: &url.URL{Path: "/" + target}, Header: hdr, Body: io.NopCloser(strings.NewReader(body)), RemoteAddr: "1.2.3.4:5", Host: "h"})
	valid := signer == target && !(target == "c" && futureC && !inlineC)
	if valid {
		vrt.Cover("refs.accepted")
		vrt.Assert("C08.refs.request-signed-with-the-routes-own-valid-secret-is-accepted", w.status == 202 && len(st.envs) == 1 && st.envs[0].Route == "/"+target)
	} else {
		vrt.Cover("refs.refused")
		vrt.Assert("C08.refs.secret-of-another-route-or-not-yet-valid-secret-is-401", w.status == 401 && len(st.envs) == 0)
	}
}
