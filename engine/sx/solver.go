package sx

import (
	"bufio"
	"context"
	"os"
	"runtime"
	"fmt"
	"io"
	"os/exec"
	"sort"
	"strings"
	"time"
)

// Solver drives one persistent SMT solver process incrementally.
type Solver struct {
	cmd     *exec.Cmd
	in      *bufio.Writer
	inc     io.WriteCloser
	out     *bufio.Reader
	P       *Printer
	Queries int
	Sat     int
	Unsat   int
	Unknown int
	Time    time.Duration
	Bytes   int64
	Log     io.Writer
	depth   int
	Slow    func(d time.Duration, res string)
	RawModel func(string)
	LastModel string
	Portfolio map[string]int
}

func NewSolver(bin string, args ...string) (*Solver, error) {
	cmd := exec.Command(bin, args...)
	in, err := cmd.StdinPipe()
	if err != nil {
		return nil, err
	}
	out, err := cmd.StdoutPipe()
	if err != nil {
		return nil, err
	}
	cmd.Stderr = cmd.Stdout
	if err := cmd.Start(); err != nil {
		return nil, err
	}
	s := &Solver{cmd: cmd, inc: in, in: bufio.NewWriterSize(in, 1<<20), out: bufio.NewReaderSize(out, 1<<20), P: NewPrinter(), Portfolio: map[string]int{}}
	if dir := os.Getenv("GOSYM_SOLVER_LOG"); dir != "" {
		if f, err := os.Create(fmt.Sprintf("%s/solver-%d-%d.smt2", dir, os.Getpid(), cmd.Process.Pid)); err == nil {
			s.Log = f
		}
	}
	return s, nil
}

func (s *Solver) Close() {
	s.in.Flush()
	s.inc.Close()
	s.cmd.Wait()
}

func (s *Solver) send(str string) {
	if s.Log != nil {
		io.WriteString(s.Log, str)
	}
	s.Bytes += int64(len(str))
	s.in.WriteString(str)
}

func (s *Solver) readLine() string {
	s.in.Flush()
	line, err := s.out.ReadString('\n')
	if err != nil {
		panic(fmt.Sprintf("solver died: %v", err))
	}
	return strings.TrimSpace(line)
}

func (s *Solver) readSexp() string {
	var sb strings.Builder
	depth := 0
	started := false
	for {
		line := s.readLine()
		sb.WriteString(line)
		sb.WriteString(" ")
		for _, c := range line {
			if c == '(' {
				depth++
				started = true
			} else if c == ')' {
				depth--
			}
		}
		if started && depth <= 0 {
			break
		}
		if !started && line != "" {
			break
		}
	}
	return sb.String()
}

func (s *Solver) Push() {
	s.send("(push)\n")
	s.P.Push()
	s.depth++
}

func (s *Solver) Pop() {
	s.send("(pop)\n")
	s.P.Pop()
	s.depth--
}

// PopTo pops scopes until the given depth.
func (s *Solver) PopTo(d int) {
	for s.depth > d {
		s.Pop()
	}
}

func (s *Solver) Depth() int { return s.depth }

func (s *Solver) Assert(t *Term) {
	var sb strings.Builder
	r := s.P.Ref(t, &sb)
	sb.WriteString("(assert " + r + ")\n")
	s.send(sb.String())
}

// Check decides the current assertion stack plus extra (if non-nil).
var QueryProfile map[string]int

func (s *Solver) Check(extra *Term, wantModel bool, timeoutMs int) (string, map[string]uint64) {
	if QueryProfile != nil {
		var pcs [6]uintptr
		n := runtime.Callers(2, pcs[:])
		frames := runtime.CallersFrames(pcs[:n])
		key := ""
		for k := 0; k < 4; k++ {
			f, more := frames.Next()
			name := f.Function
			if i := strings.LastIndex(name, "."); i >= 0 {
				name = name[i+1:]
			}
			key += name + "<"
			if !more {
				break
			}
		}
		QueryProfile[key]++
	}
	t0 := time.Now()
	defer func() { s.Time += time.Since(t0) }()
	s.Queries++
	if extra != nil {
		s.Push()
		s.Assert(extra)
		defer s.Pop()
	}
	if timeoutMs > 0 {
		s.send(fmt.Sprintf("(set-option :timeout %d)\n", timeoutMs))
	}
	s.send("(check-sat)\n")
	res := s.readLine()
	for strings.HasPrefix(res, "(error") || res == "" || res == "success" {
		if strings.HasPrefix(res, "(error") {
			s.Unknown++
			return "unknown:" + res, nil
		}
		res = s.readLine()
	}
	if d := time.Since(t0); d > 2*time.Second && s.Slow != nil {
		s.Slow(d, res)
	}
	var model map[string]uint64
	switch res {
	case "sat":
		s.Sat++
		if wantModel && len(s.P.vars) > 0 {
			names := make([]string, 0, len(s.P.vars))
			for n := range s.P.vars {
				names = append(names, n)
			}
			sort.Strings(names)
			s.send("(get-value (" + strings.Join(names, " ") + "))\n")
			model = parseModel(s.readSexp())
		}
	case "unsat":
		s.Unsat++
	default:
		s.Unknown++
	}
	return res, model
}

// parseModel parses "((x #x01) (y true) ...)" into a map.
func parseModel(s string) map[string]uint64 {
	m := map[string]uint64{}
	s = strings.TrimSpace(s)
	if strings.HasPrefix(s, "(") {
		s = s[1:]
	}
	for {
		i := strings.Index(s, "(")
		if i < 0 {
			break
		}
		j := strings.Index(s[i:], ")")
		if j < 0 {
			break
		}
		pair := strings.TrimSpace(s[i+1 : i+j])
		s = s[i+j+1:]
		var name, val string
		if strings.HasPrefix(pair, "|") {
			k := strings.Index(pair[1:], "|")
			name = pair[:k+2]
			val = strings.TrimSpace(pair[k+2:])
		} else {
			f := strings.Fields(pair)
			if len(f) < 2 {
				continue
			}
			name, val = f[0], f[1]
		}
		switch {
		case val == "true":
			m[name] = 1
		case val == "false":
			m[name] = 0
		case strings.HasPrefix(val, "#x"):
			var v uint64
			fmt.Sscanf(val[2:], "%x", &v)
			m[name] = v
		case strings.HasPrefix(val, "#b"):
			var v uint64
			fmt.Sscanf(val[2:], "%b", &v)
			m[name] = v
		}
	}
	return m
}

// CheckOneShot decides the conjunction of asserts from scratch (reset), which lets z3 use
// its non-incremental tactics (notably nlsat for nonlinear real arithmetic).
// CheckOneShot decides the conjunction of asserts from scratch (int/real mode). A small portfolio is
// tried in turn until one member gives a definite answer: z3 5.1 default strategy (short budget), z3 5.1
// with an explicit nlsat tactic, cvc5, z3 4.8.12 — measured in this sandbox, each decides queries in
// milliseconds on which another one times out.
func (s *Solver) CheckOneShot(asserts []*Term, wantModel bool, timeoutMs int) (string, map[string]uint64) {
	t0 := time.Now()
	defer func() { s.Time += time.Since(t0) }()
	s.Queries++
	if timeoutMs <= 0 {
		timeoutMs = 60000
	}
	// build the script once
	p := NewPrinter()
	var body strings.Builder
	for _, a := range asserts {
		var sb strings.Builder
		r := p.Ref(a, &sb)
		body.WriteString(sb.String())
		body.WriteString("(assert " + r + ")\n")
	}
	names := make([]string, 0, len(p.vars))
	for n := range p.vars {
		names = append(names, n)
	}
	sort.Strings(names)
	getModel := ""
	if wantModel && len(names) > 0 {
		getModel = "(get-value (" + strings.Join(names, " ") + "))\n"
	}
	first := timeoutMs / 6
	if first < 3000 {
		first = 3000
	}
	type member struct {
		name  string
		bin   string
		args  []string
		pre   string
		check string
		ms    int
	}
	members := []member{
		{"z3-5.1", "z3-new", []string{"-in"}, "", "(check-sat)\n", first},
		{"z3-5.1-nlsat", "z3-new", []string{"-in"}, "", "(check-sat-using (then simplify purify-arith (or-else qfnra-nlsat smt)))\n", timeoutMs / 3},
		{"cvc5", "cvc5", []string{"--lang=smt2", "--produce-models"}, "(set-logic ALL)\n", "(check-sat)\n", timeoutMs / 3},
		{"z3-4.8", "z3", []string{"-in"}, "", "(check-sat)\n", timeoutMs / 3},
	}
	res := "unknown"
	for _, m := range members {
		var script strings.Builder
		script.WriteString(m.pre)
		if strings.HasPrefix(m.bin, "z3") {
			fmt.Fprintf(&script, "(set-option :timeout %d)\n", m.ms)
		}
		script.WriteString(body.String())
		script.WriteString(m.check)
		script.WriteString(getModel)
		args := m.args
		if m.bin == "cvc5" {
			args = append(append([]string{}, args...), fmt.Sprintf("--tlimit=%d", m.ms))
		}
		out := runSolverOnce(m.bin, args, script.String(), time.Duration(m.ms+5000)*time.Millisecond)
		line, rest, _ := strings.Cut(strings.TrimSpace(out), "\n")
		line = strings.TrimSpace(line)
		if line == "sat" || line == "unsat" {
			res = line
			s.LastModel = rest
			if len(s.LastModel) > 4000 {
				s.LastModel = s.LastModel[:4000]
			}
			s.Portfolio[m.name]++
			break
		}
	}
	if dumpDir := os.Getenv("GOSYM_DUMP_UNKNOWN"); dumpDir != "" && res == "unknown" {
		os.WriteFile(fmt.Sprintf("%s/unknown-%d-%d.smt2", dumpDir, os.Getpid(), s.Queries), []byte(body.String()+"(check-sat)\n"), 0o644)
	}
	if d := time.Since(t0); d > 2*time.Second && s.Slow != nil {
		s.Slow(d, res)
	}
	switch res {
	case "sat":
		s.Sat++
		if s.RawModel != nil {
			s.RawModel(s.LastModel)
		}
	case "unsat":
		s.Unsat++
	default:
		s.Unknown++
	}
	return res, nil
}

func runSolverOnce(bin string, args []string, script string, limit time.Duration) string {
	ctx, cancel := context.WithTimeout(context.Background(), limit)
	defer cancel()
	cmd := exec.CommandContext(ctx, bin, args...)
	cmd.Stdin = strings.NewReader(script)
	out, _ := cmd.Output()
	// (an "unsat" answer is followed by an error line for the get-value request: that is fine;
	// an error before the verdict makes the member's answer unusable)
	first, _, _ := strings.Cut(strings.TrimSpace(string(out)), "\n")
	if strings.Contains(first, "(error") {
		return "unknown"
	}
	return string(out)
}

// CheckValues decides the current assertion stack and, when sat, returns the model of all
// declared variables plus the values of the given terms (as int64, sign-agnostic raw bits).
func (s *Solver) CheckValues(terms []*Term, timeoutMs int) (string, map[string]uint64, []int64) {
	t0 := time.Now()
	defer func() { s.Time += time.Since(t0) }()
	s.Queries++
	s.Push()
	defer s.Pop()
	refs := make([]string, len(terms))
	var sb strings.Builder
	for i, t := range terms {
		refs[i] = s.P.Ref(t, &sb)
	}
	s.send(sb.String())
	if timeoutMs > 0 {
		s.send(fmt.Sprintf("(set-option :timeout %d)\n", timeoutMs))
	}
	s.send("(check-sat)\n")
	res := s.readLine()
	for strings.HasPrefix(res, "(error") || res == "" || res == "success" {
		if strings.HasPrefix(res, "(error") {
			s.Unknown++
			return "unknown:" + res, nil, nil
		}
		res = s.readLine()
	}
	switch res {
	case "sat":
		s.Sat++
	case "unsat":
		s.Unsat++
		return res, nil, nil
	default:
		s.Unknown++
		return res, nil, nil
	}
	model := map[string]uint64{}
	if len(s.P.vars) > 0 {
		names := make([]string, 0, len(s.P.vars))
		for n := range s.P.vars {
			names = append(names, n)
		}
		sort.Strings(names)
		s.send("(get-value (" + strings.Join(names, " ") + "))\n")
		model = parseModel(s.readSexp())
	}
	vals := make([]int64, len(terms))
	for i, r := range refs {
		switch {
		case r == "true":
			vals[i] = 1
		case r == "false":
			vals[i] = 0
		case strings.HasPrefix(r, "#x"):
			var v uint64
			fmt.Sscanf(r[2:], "%x", &v)
			vals[i] = signExt(v, terms[i].Sort.Width)
		case strings.HasPrefix(r, "#b"):
			var v uint64
			fmt.Sscanf(r[2:], "%b", &v)
			vals[i] = signExt(v, terms[i].Sort.Width)
		default:
			s.send("(get-value (" + r + "))\n")
			m := parseModel(s.readSexp())
			for _, v := range m {
				if terms[i].Sort.Kind == 'V' {
					vals[i] = signExt(v, terms[i].Sort.Width)
				} else {
					vals[i] = int64(v)
				}
			}
		}
	}
	return res, model, vals
}
