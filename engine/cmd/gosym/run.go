package main

import (
	"encoding/json"
	"flag"
	"fmt"
	"os"
	"path/filepath"
	"sort"
	"strings"
	"sync"
	"time"

	"golang.org/x/tools/go/packages"
	"golang.org/x/tools/go/ssa"
	"golang.org/x/tools/go/ssa/ssautil"

	"gosym/sx"
	"gosym/wq"
)

type Job = sx.Job
type PinFile = sx.PinFile
type Result = sx.Result

type loaded struct {
	prog  *ssa.Program
	pkgs  map[string]*ssa.Package // by relative dir
	loadS float64
	gover string
}

// skippedOverlay: harness files (virtual path -> first compile error) that do not type-check against the current
// tree — e.g. after a refactoring renamed an unexported identifier they use. They are left out of every overlay of
// this run; their harnesses are reported as SKIPPED (see cmdCheck), the others still run.
var skippedOverlay = map[string]string{}

func isHarnessFile(virt string) bool {
	return strings.HasPrefix(filepath.Base(virt), "zz_verif_") && !strings.HasSuffix(virt, "_test.go")
}

func loadProgram(pkgDirs []string) (*loaded, error) {
	t0 := time.Now()
	var pkgs []*packages.Package
	for round := 0; ; round++ {
		ovFiles, err := overlayFiles(pkgDirs)
		if err != nil {
			return nil, err
		}
		overlay := map[string][]byte{}
		for virt, real := range ovFiles {
			b, err := os.ReadFile(real)
			if err != nil {
				return nil, err
			}
			overlay[virt] = b
		}
		var pats []string
		for _, d := range pkgDirs {
			pats = append(pats, "./"+d)
		}
		if _, ok := ovFiles[filepath.Join(repoRoot, "internal/verifsql/sql.go")]; ok {
			pats = append(pats, "./internal/verifsql")
		}
		env := os.Environ()
		env = append(env, "GOFLAGS=-mod=mod", "GOPROXY=off", "GOTOOLCHAIN=auto")
		cfg := &packages.Config{
			Mode:       packages.LoadAllSyntax,
			Dir:        repoRoot,
			Overlay:    overlay,
			BuildFlags: []string{"-tags=verif"},
			Env:        env,
		}
		pkgs, err = packages.Load(cfg, pats...)
		if err != nil {
			return nil, err
		}
		var errs []string
		dropped := 0
		packages.Visit(pkgs, nil, func(p *packages.Package) {
			for _, e := range p.Errors {
				errs = append(errs, e.Error())
				file := e.Pos
				if i := strings.Index(file, ".go:"); i > 0 {
					file = file[:i+3]
				}
				if _, inOverlay := ovFiles[file]; inOverlay && isHarnessFile(file) {
					if _, seen := skippedOverlay[file]; !seen {
						skippedOverlay[file] = e.Error()
						dropped++
					}
				}
			}
		})
		if len(errs) == 0 {
			break
		}
		if dropped > 0 && round < 8 {
			continue // reload without the harness files that do not compile (others may depend on them: iterate)
		}
		if len(errs) > 8 {
			errs = errs[:8]
		}
		return nil, fmt.Errorf("harness does not type-check against the current tree:\n  %s", strings.Join(errs, "\n  "))
	}
	prog, _ := ssautil.AllPackages(pkgs, ssa.InstantiateGenerics)
	l := &loaded{prog: prog, pkgs: map[string]*ssa.Package{}}
	for _, p := range pkgs {
		sp := prog.Package(p.Types)
		if sp == nil {
			continue
		}
		sp.Build()
		for _, d := range pkgDirs {
			if strings.HasSuffix(p.PkgPath, "/"+d) {
				l.pkgs[d] = sp
			}
		}
	}
	l.loadS = time.Since(t0).Seconds()
	if rt := prog.ImportedPackage("runtime"); rt != nil {
		// record which std the analysed code comes from
		if f := rt.Func("Version"); f != nil {
			l.gover = filepath.Base(filepath.Dir(filepath.Dir(filepath.Dir(prog.Fset.Position(f.Pos()).Filename))))
		}
	}
	return l, nil
}

// runJobs explores each job (harness) with up to nw interpreter copies that share one work queue of
// decision prefixes (dynamic load balancing). Returns one result per copy and job.
func runJobs(l *loaded, jobs []Job, nw int, progress func(Result)) []Result {
	if nw > len(pool) {
		nw = len(pool)
	}
	if nw < 1 {
		nw = 1
	}
	var results []Result
	for _, job := range jobs {
		sp := l.pkgs[job.Pkg]
		var fn *ssa.Function
		if sp != nil {
			fn = sp.Func(job.Fn)
		}
		if sp == nil || fn == nil {
			r := Result{Job: job, Error: "harness function not found: " + job.Pkg + "." + job.Fn}
			results = append(results, r)
			if progress != nil {
				progress(r)
			}
			continue
		}
		w := nw
		if job.Pin != nil {
			w = 1
		}
		q := wq.New(w)
		part := make([]Result, w)
		var wg sync.WaitGroup
		for k := 0; k < w; k++ {
			wg.Add(1)
			go func(k int) {
				defer wg.Done()
				jk := job
				jk.ShardI, jk.ShardN = k, 1
				jb, _ := json.Marshal(jk)
				out := pool[k](l.prog, fn, jb, q)
				var res Result
				if err := json.Unmarshal(out, &res); err != nil {
					res = Result{Job: jk, Error: "result: " + err.Error()}
				}
				res.Job.ShardI, res.Job.ShardN = k, w
				res.LoadS, res.GoVersion = l.loadS, l.gover
				part[k] = res
			}(k)
		}
		wg.Wait()
		for _, r := range part {
			results = append(results, r)
			if progress != nil {
				progress(r)
			}
		}
	}
	return results
}

func firstLine(s string) string {
	if i := strings.IndexByte(s, '\n'); i >= 0 {
		return s[:i]
	}
	return s
}

// cmdRun: worker. Reads a JSON job list, writes a JSON result list.
func cmdRun(args []string) int {
	fs := flag.NewFlagSet("run", flag.ExitOnError)
	jobsFile := fs.String("jobs", "", "JSON file with the job list")
	fns := fs.String("fns", "", "comma separated harness names (alternative to -jobs; package is looked up)")
	tier := fs.String("tier", "quick", "quick|thorough")
	out := fs.String("out", "", "result file (default stdout summary)")
	knownFile := fs.String("known", filepath.Join(verifRoot, "known_findings.json"), "known findings")
	verbose := fs.Bool("v", false, "verbose")
	maxPaths := fs.Int("maxpaths", 0, "override path limit")
	shard := fs.String("shard", "", "i/n")
	workers := fs.Int("workers", 1, "parallel explorations (pool copies)")
	shards := fs.Int("shards", 0, "split each harness into n shards (run in parallel with -workers)")
	fs.Parse(args)

	var jobs []Job
	if *jobsFile != "" {
		b, err := os.ReadFile(*jobsFile)
		if err != nil {
			fmt.Fprintln(os.Stderr, err)
			return 2
		}
		if err := json.Unmarshal(b, &jobs); err != nil {
			fmt.Fprintln(os.Stderr, err)
			return 2
		}
	} else {
		hs, err := scanHarnesses()
		if err != nil {
			fmt.Fprintln(os.Stderr, err)
			return 2
		}
		for _, name := range strings.Split(*fns, ",") {
			found := false
			for _, h := range hs {
				if h.Fn == name || (strings.HasSuffix(name, "*") && strings.HasPrefix(h.Fn, strings.TrimSuffix(name, "*"))) {
					j := Job{Pkg: h.Pkg, Fn: h.Fn, MaxPaths: h.MaxPaths, MaxSteps: h.MaxSteps, QTimeout: h.QTimeout, ShardDepth: h.ShardDepth, ShardN: 1}
					if *maxPaths > 0 {
						j.MaxPaths = *maxPaths
					}
					if *shard != "" {
						fmt.Sscanf(*shard, "%d/%d", &j.ShardI, &j.ShardN)
					}
					if *shards > 1 {
						for k := 0; k < *shards; k++ {
							jk := j
							jk.ShardI, jk.ShardN = k, *shards
							jobs = append(jobs, jk)
						}
					} else {
						jobs = append(jobs, j)
					}
					found = true
				}
			}
			if !found {
				fmt.Fprintln(os.Stderr, "no such harness:", name)
				return 2
			}
		}
	}
	pkgSet := map[string]bool{}
	var pkgDirs []string
	for _, j := range jobs {
		if !pkgSet[j.Pkg] {
			pkgSet[j.Pkg] = true
			pkgDirs = append(pkgDirs, j.Pkg)
		}
	}
	sort.Strings(pkgDirs)
	known := loadKnown(*knownFile)
	var results []Result
	l, err := loadProgram(pkgDirs)
	if err != nil {
		for _, j := range jobs {
			results = append(results, Result{Job: j, Error: "load: " + err.Error()})
		}
		fmt.Fprintln(os.Stderr, err)
	} else {
		for i := range jobs {
			jobs[i].Thorough = *tier == "thorough"
			jobs[i].Verbose = *verbose
			jobs[i].KnownFor = known.labelMap(jobs[i].Fn)
		}
		results = runJobs(l, jobs, *workers, func(r Result) {
			if *out == "" || *verbose {
				printResult(r)
			}
		})
	}
	if *out != "" {
		b, _ := json.Marshal(results)
		if err := os.WriteFile(*out, b, 0o644); err != nil {
			fmt.Fprintln(os.Stderr, err)
			return 2
		}
	}
	return 0
}

func printResult(r Result) {
	fmt.Printf("== %s.%s shard %d/%d: paths=%d completed=%d queries=%d (sat %d unsat %d unknown %d) solver=%.1fs wall=%.1fs load=%.1fs\n",
		r.Job.Pkg, r.Job.Fn, r.Job.ShardI, r.Job.ShardN, r.Paths, r.Completed, r.Queries, r.Sat, r.Unsat, r.Unknown, r.SolverS, r.WallS, r.LoadS)
	if r.Error != "" {
		fmt.Printf("   ERROR %s\n", r.Error)
	}
	var labels []string
	for l := range r.Asserts {
		labels = append(labels, l)
	}
	sort.Strings(labels)
	for _, l := range labels {
		a := r.Asserts[l]
		fmt.Printf("   assert %-34s reached=%d proved=%d violated=%d known=%d undecided=%d\n", l, a.Reached, a.Proved, a.Violated, a.Known, a.Undecided)
	}
	for c, n := range r.Covers {
		fmt.Printf("   cover  %-34s x%d\n", c, n)
	}
	var reasons []string
	for k := range r.Aborted {
		reasons = append(reasons, k)
	}
	sort.Strings(reasons)
	for _, k := range reasons {
		fmt.Printf("   aborted x%d: %s\n", r.Aborted[k], k)
	}
	for i, v := range r.Violations {
		if i >= 4 {
			fmt.Printf("   ... %d more\n", len(r.Violations)-4)
			break
		}
		js, _ := json.Marshal(v.Inputs)
		fmt.Printf("   counterexample %s known=%q inputs=%s\n", v.Label, v.Known, js)
	}
	if r.PathLimit {
		fmt.Printf("   PATH LIMIT hit\n")
	}
}
