// Copyright 2013 The Go Authors. All rights reserved.
// Use of this source code is governed by a BSD-style
// license that can be found in the LICENSE file.

package sx

// Custom hashtable atop map.
// For use when the key's equivalence relation is not consistent with ==.

// The Go specification doesn't address the atomicity of map operations.
// The FAQ states that an implementation is permitted to crash on
// concurrent map access.

import (
	"go/types"
)

type hashable interface {
	hash(t types.Type) int
	eq(t types.Type, x any) bool
}

type entry struct {
	key   hashable
	value value
	next  *entry
}

// A hashtable atop the built-in map.  Since each bucket contains
// exactly one hash value, there's no need to perform hash-equality
// tests when walking the linked list.  Rehashing is done by the
// underlying map.
type hashmap struct {
	keyType types.Type
	table   map[int]*entry
	length  int // number of entries in map
}

// makeMap returns an empty initialized map of key type kt,
// preallocating space for reserve elements.
func makeMap(kt types.Type, reserve int64) value {
	if usesBuiltinMap(kt) {
		return make(map[value]value, reserve)
	}
	return &hashmap{keyType: kt, table: make(map[int]*entry, reserve)}
}

// delete removes the association for key k, if any.
func (m *hashmap) delete(k hashable) {
	if m != nil {
		hash := k.hash(m.keyType)
		head := m.table[hash]
		if head != nil {
			if k.eq(m.keyType, head.key) {
				m.table[hash] = head.next
				m.length--
				return
			}
			prev := head
			for e := head.next; e != nil; e = e.next {
				if k.eq(m.keyType, e.key) {
					prev.next = e.next
					m.length--
					return
				}
				prev = e
			}
		}
	}
}

// lookup returns the value associated with key k, if present, or
// value(nil) otherwise.
func (m *hashmap) lookup(k hashable) value {
	if m != nil {
		hash := k.hash(m.keyType)
		for e := m.table[hash]; e != nil; e = e.next {
			if k.eq(m.keyType, e.key) {
				return e.value
			}
		}
	}
	return nil
}

// insert updates the map to associate key k with value v.  If there
// was already an association for an eq() (though not necessarily ==)
// k, the previous key remains in the map and its associated value is
// updated.
func (m *hashmap) insert(k hashable, v value) {
	hash := k.hash(m.keyType)
	head := m.table[hash]
	for e := head; e != nil; e = e.next {
		if k.eq(m.keyType, e.key) {
			e.value = v
			return
		}
	}
	m.table[hash] = &entry{
		key:   k,
		value: v,
		next:  head,
	}
	m.length++
}

// len returns the number of key/value associations in the map.
func (m *hashmap) len() int {
	if m != nil {
		return m.length
	}
	return 0
}

// entries returns a rangeable map of entries.
func (m *hashmap) entries() map[int]*entry {
	if m != nil {
		return m.table
	}
	return nil
}
