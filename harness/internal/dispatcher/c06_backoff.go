//go:build verif

package dispatcher

import (
	"time"

	vrt "github.com/nuetzliches/hookaido/internal/verifrt"
)

// backoffCheck: retryDelay(attempt, cfg) in int/real mode with the standard float rounding model.
// Oracle: m = min(base*2^(attempt-1), cap) computed exactly; result within
// [m(1-j) - m*2^-40 - 1, m(1+j) + m*2^-40 + 1] and >= 0 (absolute slack for float rounding and truncation).
func backoffCheck(attempt int) {
	base := vrt.Int64("base")
	capv := vrt.Int64("cap")
	vrt.Assume(base > 0 && base <= capv && capv < (1<<53))
	j := vrt.FloatIn("jitter", 0, 1)
	d := retryDelay(attempt, RetryConfig{Type: "exponential", Max: 100, Base: time.Duration(base), Cap: time.Duration(capv), Jitter: j})
	vrt.ExactBegin()
	m := base
	for i := 1; i < attempt && i < 64; i++ {
		m = m * 2
	}
	if m > capv || attempt > 64 {
		m = capv
	}
	mf := float64(m)
	const tau = 1.0 / (1 << 40)
	lo := mf*(1-j) - mf*tau - 1
	hi := mf*(1+j) + mf*tau + 1
	df := float64(d)
	okLo, okHi := df >= lo, df <= hi
	vrt.ExactEnd()
	vrt.Assert("C06.backoff.lower", okLo)
	vrt.Assert("C06.backoff.upper", okHi)
	vrt.Assert("C06.backoff.nonneg", d >= 0)
}

var backoffQuick = []int{1, 2, 3, 5, 9, 17, 33, 35, 41, 64}

// verif:harness props=C06 tier=quick weight=300 qtimeout=20000
// verif:bounds attempts {1,2,3,5,9,17,33,35,41,64} as separate paths; every 0 < base <= cap < 2^53 ns (104 days), every jitter in [0,1], every rand in [0,1); float64 under the standard rounding model (|eps| <= 2^-53 per operation), integers as mathematical ints; absolute slack m*2^-40+1ns
func VerifC06Backoff() {
	vrt.IntMode()
	attempt := backoffQuick[vrt.Choose("attempt", len(backoffQuick))]
	backoffCheck(attempt)
}

// verif:harness props=C06 tier=thorough weight=2000 qtimeout=60000
// verif:bounds attempts 1..64, one path each; same value space as VerifC06Backoff
func VerifC06BackoffAll() {
	vrt.IntMode()
	attempt := 1 + vrt.Choose("attempt", 64)
	backoffCheck(attempt)
}

// verif:harness props=C06 tier=quick weight=60 qtimeout=20000
// verif:bounds every attempt > 64 at once (2^(attempt-1) abstracted as an arbitrary real >= 2^64, which also stands for +Inf in the comparisons that follow); same base/cap/jitter space
func VerifC06BackoffBeyond64() {
	vrt.IntMode()
	attempt := vrt.Int("attempt")
	vrt.Assume(attempt > 65 && attempt < 1000000)
	backoffCheck(attempt)
}
