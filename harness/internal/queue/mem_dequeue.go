//go:build verif

package queue

import (
	"time"

	vrt "github.com/nuetzliches/hookaido/internal/verifrt"
)

// refReady: after the expired-lease requeue, is this item offered to a dequeue for (route,target) at now?
func refReady(p mSnap, now time.Time, route, target string) bool {
	if !p.present {
		return false
	}
	if route != "" && p.route != route {
		return false
	}
	if target != "" && p.target != target {
		return false
	}
	if p.state == StateLeased {
		return !now.Before(p.leaseUntil) // expired lease: requeued with next_run_at = now
	}
	if p.state != StateQueued {
		return false
	}
	return !p.nextRunAt.After(now)
}

func clampBatch(b int) int {
	if b <= 0 {
		return 1
	}
	if b > 100 {
		return 100
	}
	return b
}

// verif:harness props=C03,C05,C02 tier=quick native=yes weight=14 tonly=C03
// verif:bounds N=2 live messages (thorough 3) in any of the 5 states with arbitrary timestamps and attempts; batch from {0,1,2,200} (thorough adds -1,3); arbitrary lease TTL incl. <=0 (default 30s); dangling lease-index entries and an order index with a ghost id / a duplicate id explored; MaxWait=0
func VerifC03Dequeue() {
	n := 2
	batches := []int{0, 1, 2, 200}
	if vrt.Thorough() {
		n = 3
		batches = []int{-1, 0, 1, 2, 3, 200}
	}
	w := mNew(n, mOpts{stale: true})
	switch vrt.Choose("order-shape", 3) {
	case 1:
		w.s.order = append([]string{"ghost"}, w.s.order...)
	case 2:
		w.s.order = append(w.s.order, w.ids[0])
	}
	batch := batches[vrt.Choose("batch", len(batches))]
	dequeueCore(w, n, batch, "", "")
}

// verif:harness props=C03,C05 tier=quick native=yes weight=40 tonly=C05
// verif:bounds N=2 messages (thorough 3) in states {queued, leased, dead} with symbolic route r0|r1 and target t0|t1; dequeue filter from {route, route+target, target}; batch from {1,200}
func VerifC05DequeueFilter() {
	n := 2
	if vrt.Thorough() {
		n = 3
	}
	w := mNew(n, mOpts{routes: true, states: []State{StateQueued, StateLeased, StateDead}})
	batch := []int{1, 200}[vrt.Choose("batch", 2)]
	f := vrt.Choose("filter", 3)
	route, target := "r0", "t0"
	if f == 0 {
		target = ""
	}
	if f == 2 {
		route = ""
	}
	dequeueCore(w, n, batch, route, target)
}

func dequeueCore(w *mWorld, n int, batch int, route, target string) {
	pre := w.snap()
	ttl := vrt.Duration("ttl")
	resp, err := w.s.Dequeue(DequeueRequest{Route: route, Target: target, Batch: batch, LeaseTTL: ttl})
	post := w.snap()
	vrt.Assert("C05.dequeue.noerr", err == nil)

	wantTTL := ttl
	if ttl <= 0 {
		wantTTL = 30 * time.Second
	}
	ready := 0
	for i := 0; i < n; i++ {
		if refReady(pre[i], w.now, route, target) {
			ready++
		}
	}
	want := clampBatch(batch)
	if ready < want {
		want = ready
	}
	vrt.Assert("C05.dequeue.exactly-min-batch-ready", len(resp.Items) == want)

	for i := 0; i < n; i++ {
		returned := -1
		for k := range resp.Items {
			if resp.Items[k].ID == w.ids[i] {
				vrt.Assert("C03.dequeue.no-duplicate-in-batch", returned < 0)
				returned = k
			}
		}
		if returned >= 0 {
			it := resp.Items[returned]
			vrt.Assert("C03.dequeue.only-ready", refReady(pre[i], w.now, route, target))
			a1 := it.Attempt == pre[i].attempt+1
			a2 := post[i].attempt == pre[i].attempt+1
			vrt.Assert("C03.dequeue.attempt-plus-one", a1 && a2)
			l1 := post[i].state == StateLeased
			l2 := post[i].leaseID == it.LeaseID
			l3 := it.LeaseID != ""
			l4 := post[i].leaseUntil.Equal(w.now.Add(wantTTL))
			l5 := w.s.leases[it.LeaseID] == w.ids[i]
			vrt.Assert("C03.dequeue.leased-with-fresh-id", l1 && l2 && l3 && l4 && l5)
			vrt.Assert("C03.dequeue.lease-id-new", it.LeaseID != pre[i].leaseID && it.LeaseID != "S0")
			vrt.Assert("C02.dequeue.immutable", sameImmutable(pre[i], post[i]) && sameImmutable(pre[i], snapOf(&it)))
			continue
		}
		// not returned: unchanged, except that an expired lease went back to queued
		if pre[i].state == StateLeased && !w.now.Before(pre[i].leaseUntil) {
			vrt.Assert("C05.dequeue.expired-requeued", sameItem(refRequeued(pre[i], w.now), post[i]))
		} else {
			vrt.Assert("C03.dequeue.others-untouched", sameItem(pre[i], post[i]))
		}
	}
	for a := range resp.Items {
		for b := range resp.Items {
			if a < b {
				vrt.Assert("C03.dequeue.distinct-leases", resp.Items[a].LeaseID != resp.Items[b].LeaseID)
			}
		}
	}
	vrt.Assert("C02.inv.dequeue", w.inv())
	vrt.Observe("returned", len(resp.Items))
}

// verif:harness props=C05,C03 tier=quick native=yes weight=10
// verif:bounds order index of 1100 entries (1098 stale ids + the live ones) so that compactOrderLocked really runs; N=2 live messages in any states; then every message is made due again (nack / expiry / requeue) and a second dequeue must see all of them
func VerifC05CompactOrder() {
	n := 2
	w := mNew(n, mOpts{})
	ghosts := make([]string, 1098)
	for i := range ghosts {
		ghosts[i] = "gone"
	}
	w.s.order = append(ghosts, w.s.order...)
	ttl := vrt.Duration("ttl")
	vrt.Assume(ttl > 0)
	_, err := w.s.Dequeue(DequeueRequest{Batch: 1, LeaseTTL: ttl})
	vrt.Assert("C05.compact.noerr", err == nil)
	vrt.Assert("C05.compact.ran", len(w.s.order) < 1000)
	vrt.Assert("C02.inv.compact", w.inv())
	// make everything that still exists due: cancel+requeue by id brings queued|leased|dead|canceled back to queued at now
	w.s.CancelMessages(MessageCancelRequest{IDs: w.ids})
	w.s.RequeueMessages(MessageRequeueRequest{IDs: w.ids})
	present := 0
	for _, id := range w.ids {
		if e := w.s.items[id]; e != nil && e.State == StateQueued {
			present++
		}
	}
	r2, err2 := w.s.Dequeue(DequeueRequest{Batch: 10, LeaseTTL: ttl})
	vrt.Assert("C05.compact.none-hidden", err2 == nil && len(r2.Items) == present)
}

// verif:harness props=C03,C05 tier=quick native=yes weight=25 tonly=C03
// verif:bounds N=2 messages (thorough 3); Dequeue(batch<=N) at now1, one intervening operation X from {none, ack, nack(d), extend(e), mark-dead, cancel, cancel+requeue} on the first returned lease, then Dequeue at an arbitrary now2 >= now1; all durations symbolic
func VerifC03TwoStep() {
	n := 2
	if vrt.Thorough() {
		n = 3
	}
	w := mNew(n, mOpts{})
	ttl := vrt.Duration("ttl")
	vrt.Assume(ttl > 0)
	now1 := w.now
	r1, err1 := w.s.Dequeue(DequeueRequest{Batch: n, LeaseTTL: ttl})
	vrt.Assert("C03.two.noerr1", err1 == nil)
	if len(r1.Items) == 0 {
		return
	}
	vrt.Cover("two-step.first-nonempty")
	first := r1.Items[0]
	x := vrt.Choose("X", 7)
	d := vrt.Duration("d")
	now2 := vrt.Time("now2")
	vrt.Assume(!now2.Before(now1))
	// the intervening operation happens at some instant in [now1, now2]
	nowX := vrt.Time("nowX")
	vrt.Assume(!nowX.Before(now1) && !now2.Before(nowX))
	w.now = nowX
	released := false // first's lease ended by an accepted ack/nack/mark-dead/cancel
	visibleAt := now1 // if released back to queued: earliest instant it may be offered
	requeuedBack := false
	liveAtX := nowX.Before(first.LeaseUntil)
	until := first.LeaseUntil
	switch x {
	case 1:
		e := w.s.Ack(first.LeaseID)
		vrt.Assert("C04.two.ack-iff-live", (e == nil) == liveAtX)
		released = e == nil
	case 2:
		e := w.s.Nack(first.LeaseID, d)
		vrt.Assert("C04.two.nack-iff-live", (e == nil) == liveAtX)
		if e == nil {
			released, requeuedBack = true, true
			dd := d
			if dd < 0 {
				dd = 0
			}
			visibleAt = nowX.Add(dd)
		}
	case 3:
		e := w.s.Extend(first.LeaseID, d)
		if e == nil && d > 0 {
			until = until.Add(d)
		}
	case 4:
		e := w.s.MarkDead(first.LeaseID, "x")
		released = e == nil
	case 5:
		w.s.CancelMessages(MessageCancelRequest{IDs: []string{first.ID}})
		released = true
	case 6:
		w.s.CancelMessages(MessageCancelRequest{IDs: []string{first.ID}})
		w.s.RequeueMessages(MessageRequeueRequest{IDs: []string{first.ID}})
		released, requeuedBack = true, true
		visibleAt = nowX
	}
	if !released && !liveAtX && x != 0 && x != 3 {
		// the refused call found the lease expired and requeued it at nowX
		requeuedBack = true
		visibleAt = nowX
		released = true
	}
	w.now = now2
	r2, err2 := w.s.Dequeue(DequeueRequest{Batch: n, LeaseTTL: ttl})
	vrt.Assert("C03.two.noerr2", err2 == nil)
	again := false
	for _, it := range r2.Items {
		if it.ID == first.ID {
			again = true
			vrt.Assert("C03.two.fresh-lease-id", it.LeaseID != first.LeaseID)
			vrt.Assert("C03.two.attempt-plus-one", it.Attempt == first.Attempt+1)
		}
	}
	if !released {
		// lease never ended: second dequeue may return it only after expiry
		expired := !now2.Before(until)
		vrt.Assert("C03.two.exclusive-while-lease-lives", again == expired)
		if expired {
			vrt.Cover("two-step.redelivered-after-expiry")
		}
	} else if requeuedBack {
		// C05: offered from visibleAt on and never earlier
		vrt.Assert("C05.two.visible-exactly-from-due", again == !now2.Before(visibleAt))
	} else {
		vrt.Assert("C03.two.settled-not-redelivered", !again)
	}
	// every other message of the first batch is still exclusively held unless its lease expired
	for _, o := range r1.Items[1:] {
		got := false
		for _, it := range r2.Items {
			if it.ID == o.ID {
				got = true
			}
		}
		vrt.Assert("C03.two.others-exclusive", got == !now2.Before(o.LeaseUntil))
	}
	vrt.Assert("C02.inv.two-step", w.inv())
}
