//go:build verif

package dispatcher

import (
	"context"
	"errors"
	"fmt"
	"log/slog"
	"strings"
	"time"

	"github.com/nuetzliches/hookaido/internal/queue"
	vrt "github.com/nuetzliches/hookaido/internal/verifrt"
)

// ---- stubs (harness side: they only record) ----

type hCall struct {
	op     string // ack | nack | dead | ackB | nackB | deadB
	lease  string
	delay  time.Duration
	reason string
}

type hStore struct {
	queue.Store
	attempts []queue.DeliveryAttempt
	calls    []hCall
	failOp   bool // single-lease ops return a generic error
}

func (s *hStore) RecordAttempt(a queue.DeliveryAttempt) error {
	s.attempts = append(s.attempts, a)
	return nil
}
func (s *hStore) opErr() error {
	if s.failOp {
		return errors.New("store down")
	}
	return nil
}
func (s *hStore) Ack(id string) error {
	s.calls = append(s.calls, hCall{op: "ack", lease: id})
	return s.opErr()
}
func (s *hStore) Nack(id string, d time.Duration) error {
	s.calls = append(s.calls, hCall{op: "nack", lease: id, delay: d})
	return s.opErr()
}
func (s *hStore) MarkDead(id string, reason string) error {
	s.calls = append(s.calls, hCall{op: "dead", lease: id, reason: reason})
	return s.opErr()
}

type hBatchStore struct {
	hStore
	failAckB, failNackB, failDeadB bool
}

func (s *hBatchStore) AckBatch(ids []string) (queue.LeaseBatchResult, error) {
	if s.failAckB {
		return queue.LeaseBatchResult{}, errors.New("batch down")
	}
	for _, id := range ids {
		s.calls = append(s.calls, hCall{op: "ack", lease: id})
	}
	return queue.LeaseBatchResult{Succeeded: len(ids)}, nil
}
func (s *hBatchStore) NackBatch(ids []string, d time.Duration) (queue.LeaseBatchResult, error) {
	if s.failNackB {
		return queue.LeaseBatchResult{}, errors.New("batch down")
	}
	for _, id := range ids {
		s.calls = append(s.calls, hCall{op: "nack", lease: id, delay: d})
	}
	return queue.LeaseBatchResult{Succeeded: len(ids)}, nil
}
func (s *hBatchStore) MarkDeadBatch(ids []string, reason string) (queue.LeaseBatchResult, error) {
	if s.failDeadB {
		return queue.LeaseBatchResult{}, errors.New("batch down")
	}
	for _, id := range ids {
		s.calls = append(s.calls, hCall{op: "dead", lease: id, reason: reason})
	}
	return queue.LeaseBatchResult{Succeeded: len(ids)}, nil
}

type hDeliverer struct {
	res Result
	got []Delivery
}

func (d *hDeliverer) Deliver(ctx context.Context, dl Delivery) Result {
	d.got = append(d.got, dl)
	return d.res
}

func hMkErr(kind int) error {
	switch kind {
	case 1:
		return errors.New("dial tcp: timeout")
	case 2:
		return fmt.Errorf("%w: host not allowed", ErrPolicyDenied)
	}
	return nil
}

// refClassify is the property's table (C06), written from the statement, not from push.go.
func refClassify(code int, errKind int, attempt, max int) (kind leaseActionKind, reason string, outcome queue.AttemptOutcome) {
	if errKind == 0 && code >= 200 && code <= 299 {
		return leaseActionAck, "", queue.AttemptOutcomeAcked
	}
	denied := errKind == 2
	retryable := (errKind == 1) || (errKind == 0 && (code == 408 || code == 429 || code >= 500))
	if retryable && attempt <= max {
		return leaseActionNack, "", queue.AttemptOutcomeRetry
	}
	switch {
	case denied:
		return leaseActionMarkDead, "policy_denied", queue.AttemptOutcomeDead
	case retryable:
		return leaseActionMarkDead, "max_retries", queue.AttemptOutcomeDead
	}
	return leaseActionMarkDead, "no_retry", queue.AttemptOutcomeDead
}

// verif:harness props=C06 tier=quick native=yes weight=3
// verif:bounds every int status code (not only 100..599) x {no error, transport error, wrapped ErrPolicyDenied} x every attempt >= 1 x every retry.max >= 1; payload 2 symbolic bytes, one stored header
func VerifC06Classify() {
	code := vrt.Int("status")
	attempt := vrt.Int("attempt")
	max := vrt.Int("retry_max")
	vrt.Assume(attempt >= 1 && max >= 1)
	ek := vrt.Choose("err", 3)
	st := &hStore{}
	dl := &hDeliverer{res: Result{StatusCode: code, Err: hMkErr(ek)}}
	d := &PushDispatcher{Store: st, Deliverer: dl}
	payload := vrt.BytesN("payload", 2)
	env := queue.Envelope{ID: "e1", Route: "/r", Target: "https://t/x", Attempt: attempt, LeaseID: "L1", Payload: payload, Headers: map[string]string{"X-A": "v"}}
	// base/cap/jitter-free retry config so that the delay is exact here (backoff is VerifC06Backoff*)
	act := d.classifyDelivery(nil, env, TargetConfig{URL: "https://t/x", Retry: RetryConfig{Max: max}})
	wantKind, wantReason, wantOutcome := refClassify(code, ek, attempt, max)
	vrt.Observe("kind", int(act.kind))
	vrt.Assert("C06.classify.kind", act.kind == wantKind)
	vrt.Assert("C06.classify.reason", act.reason == wantReason)
	vrt.Assert("C06.classify.lease", act.leaseID == "L1")
	okRec := len(st.attempts) == 1
	if okRec {
		a := st.attempts[0]
		okRec = a.Outcome == wantOutcome && a.DeadReason == wantReason && a.Attempt == attempt && a.StatusCode == code && a.EventID == "e1"
	}
	vrt.Assert("C06.classify.attempt-recorded-once-with-outcome", okRec)
	okSent := len(dl.got) == 1
	if okSent {
		g := dl.got[0]
		okSent = len(g.Body) == 2 && g.Body[0] == payload[0] && g.Body[1] == payload[1] && g.URL == "https://t/x" && g.Header.Get("X-A") == "v"
	}
	vrt.Assert("C07.push.body-and-headers-are-the-stored-ones", okSent)
	vrt.Assert("C06.classify.no-lease-mutation-here", len(st.calls) == 0)
}

// verif:harness props=C06,C05 tier=quick native=yes weight=10
// verif:bounds 1..3 lease actions with symbolic kind (ack/nack/dead), every nack with an arbitrary delay in [0,1h] (equal to its predecessor's or not) and two dead reasons; store with or without batch support; each batch call and the single-lease fallback may fail
func VerifC06ApplyActionsOnce() {
	n := 1 + vrt.Choose("n", 3)
	actions := make([]leaseAction, n)
	for i := range actions {
		a := leaseAction{leaseID: []string{"L0", "L1", "L2"}[i], route: "/r", target: "t"}
		switch vrt.Choose("kind", 3) {
		case 0:
			a.kind = leaseActionAck
		case 1:
			a.kind = leaseActionNack
			// an arbitrary delay (jittered delays are not whole seconds); two actions may or may not share it
			a.delay = vrt.Duration("delay")
			vrt.Assume(a.delay >= 0 && a.delay <= time.Hour)
			if i > 0 && actions[i-1].kind == leaseActionNack && vrt.Bool("same-delay-as-the-previous-nack") {
				a.delay = actions[i-1].delay
			}
		case 2:
			a.kind = leaseActionMarkDead
			a.reason = []string{"max_retries", "no_retry"}[vrt.Choose("reason", 2)]
		}
		actions[i] = a
	}
	var calls *[]hCall
	d := &PushDispatcher{}
	if vrt.Choose("batch-capable", 2) == 1 {
		bs := &hBatchStore{}
		bs.failAckB = vrt.Choose("failAckB", 2) == 1
		bs.failNackB = vrt.Choose("failNackB", 2) == 1
		bs.failDeadB = vrt.Choose("failDeadB", 2) == 1
		bs.failOp = vrt.Choose("failOp", 2) == 1
		d.Store = bs
		calls = &bs.calls
	} else {
		ss := &hStore{}
		ss.failOp = vrt.Choose("failOp", 2) == 1
		d.Store = ss
		calls = &ss.calls
	}
	d.applyLeaseActions(slog.Default(), actions)
	for _, a := range actions {
		hits := 0
		okArgs := true
		for _, c := range *calls {
			if c.lease != a.leaseID {
				continue
			}
			hits++
			switch a.kind {
			case leaseActionAck:
				okArgs = okArgs && c.op == "ack"
			case leaseActionNack:
				okArgs = okArgs && c.op == "nack" && c.delay == a.delay
			case leaseActionMarkDead:
				okArgs = okArgs && c.op == "dead" && c.reason == a.reason
			}
		}
		vrt.Assert("C06.apply.each-action-reaches-the-store-exactly-once", hits == 1)
		vrt.Assert("C06.apply.with-its-own-kind-delay-and-reason", okArgs)
	}
	vrt.Assert("C06.apply.nothing-invented", len(*calls) == n)
}

// verif:harness props=C06,C05 tier=quick native=yes weight=15
// verif:bounds one message on a real MemoryStore with arbitrary prior attempt count; Dequeue -> classifyDelivery -> applyLeaseAction with every status / error kind / retry.max in 1..3; exponential retry without jitter, base and cap symbolic
func VerifC06ComposedStep() {
	now := vrt.Time("now")
	ms := queue.NewMemoryStore(queue.WithNowFunc(func() time.Time { return now }))
	prior := vrt.Int("prior_attempts")
	vrt.Assume(prior >= 0 && prior < 1000)
	if err := ms.Enqueue(queue.Envelope{ID: "e1", Route: "/r", Target: "https://t/x", Attempt: prior, Payload: []byte("p")}); err != nil {
		return
	}
	resp, err := ms.Dequeue(queue.DequeueRequest{Route: "/r", Batch: 1, LeaseTTL: time.Minute})
	vrt.Assert("C06.step.dequeued", err == nil && len(resp.Items) == 1 && resp.Items[0].Attempt == prior+1)
	if err != nil || len(resp.Items) != 1 {
		return
	}
	code := vrt.Int("status")
	ek := vrt.Choose("err", 3)
	max := 1 + vrt.Choose("retry_max", 3)
	d := &PushDispatcher{Store: ms, Deliverer: &hDeliverer{res: Result{StatusCode: code, Err: hMkErr(ek)}}}
	d.handleDelivery(nil, resp.Items[0], TargetConfig{URL: "https://t/x", Retry: RetryConfig{Max: max}})
	kind, reason, _ := refClassify(code, ek, prior+1, max)
	list, _ := ms.ListMessages(queue.MessageListRequest{Limit: 10})
	switch kind {
	case leaseActionAck:
		vrt.Assert("C06.step.acked-is-gone", len(list.Items) == 0)
	case leaseActionNack:
		ok := len(list.Items) == 1
		if ok {
			it := list.Items[0]
			ok = it.State == queue.StateQueued && it.Attempt == prior+1 && !it.NextRunAt.Before(now)
		}
		vrt.Assert("C06.step.retry-requeued-with-attempt-kept", ok)
		vrt.Assert("C06.step.retry-only-while-attempt<=max", prior+1 <= max)
	case leaseActionMarkDead:
		ok := len(list.Items) == 1
		if ok {
			it := list.Items[0]
			ok = it.State == queue.StateDead && it.DeadReason == reason
		}
		vrt.Assert("C06.step.dead-with-reason", ok)
	}
	att, _ := ms.ListAttempts(queue.AttemptListRequest{Limit: 10})
	vrt.Assert("C06.step.one-attempt-logged", len(att.Items) == 1)
	_ = strings.TrimSpace
}
