// gosym: bounded symbolic execution of Go SSA with an SMT solver as the deciding step.
//
//	gosym check <PROPERTY> [-tier quick|thorough]   run a property's harness set (driver)
//	gosym run   -fns A,B [-tier ..] -out f.json      explore harnesses in this process (worker)
//	gosym list                                       list harnesses found under /verif/harness
package main

import (
	"fmt"
	"os"
)

var (
	verifRoot = envOr("VERIF_ROOT", "/verif")
	repoRoot  = envOr("VERIF_REPO", "/repo")
	outRoot   = envOr("VERIF_OUT", verifRoot) // where work/, replay/ and evidence/ go (scratch runs against mutants)
)

func envOr(k, d string) string {
	if v := os.Getenv(k); v != "" {
		return v
	}
	return d
}

func main() {
	if len(os.Args) < 2 {
		fmt.Fprintln(os.Stderr, "usage: gosym check|run|list ...")
		os.Exit(2)
	}
	switch os.Args[1] {
	case "check":
		os.Exit(cmdCheck(os.Args[2:]))
	case "run":
		os.Exit(cmdRun(os.Args[2:]))
	case "replay":
		os.Exit(cmdReplay(os.Args[2:]))
	case "list":
		hs, err := scanHarnesses()
		if err != nil {
			fmt.Fprintln(os.Stderr, err)
			os.Exit(2)
		}
		for _, h := range hs {
			fmt.Printf("%-12s %-22s %-40s tier=%s native=%v shards=%d weight=%d\n", h.Props, h.Pkg, h.Fn, h.Tier, h.Native, h.Shards, h.Weight)
		}
	default:
		fmt.Fprintln(os.Stderr, "unknown subcommand", os.Args[1])
		os.Exit(2)
	}
}
