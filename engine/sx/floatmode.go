package sx

// Int-mode (mathematical integers) and float64 as reals with the standard rounding model.

import (
	"fmt"
	"go/token"
	"go/types"
	"math"
	"math/big"
	"time"
)

var IntSort = Sort{Kind: 'I'}
var RealSort = Sort{Kind: 'R'}

// symf is a symbolic float64 (a real-valued term).
type symf struct{ t *Term }

func IConst(v int64) *Term {
	t := newTerm("const", IntSort)
	t.Val = uint64(v)
	return t
}

func RConstRat(r *big.Rat) *Term {
	t := newTerm("rconst", RealSort)
	t.Name = fmt.Sprintf("(/ %s.0 %s.0)", r.Num().String(), r.Denom().String())
	if r.Sign() < 0 {
		n := new(big.Int).Neg(r.Num())
		t.Name = fmt.Sprintf("(- (/ %s.0 %s.0))", n.String(), r.Denom().String())
	}
	return t
}

func RConst(f float64) *Term {
	if math.IsInf(f, 0) || math.IsNaN(f) {
		panic(abortPath{"float model: non-finite constant"})
	}
	r := new(big.Rat)
	r.SetFloat64(f)
	return RConstRat(r)
}

func arith(op string, s Sort, a, b *Term) *Term { return newTerm(op, s, a, b) }

func floatTerm(v value) *Term {
	switch v := v.(type) {
	case symf:
		return v.t
	case float64:
		return RConst(v)
	}
	panic(fmt.Sprintf("floatTerm: %T", v))
}

func isFloatSym(v value) bool { _, ok := v.(symf); return ok }

var epsBound = RConstRat(new(big.Rat).SetFrac(big.NewInt(1), new(big.Int).Lsh(big.NewInt(1), 53)))

func (e *Explorer) rounded(exact *Term) *Term {
	if e.ExactFloat {
		return exact
	}
	eps := e.fresh("eps", RealSort)
	e.addPC(arith("<=", BoolSort, newTerm("-", RealSort, epsBound), eps), arith("<=", BoolSort, eps, epsBound))
	return arith("*", RealSort, exact, arith("+", RealSort, RConst(1), eps))
}

func floatBinop(op token.Token, x, y value) value {
	a, b := floatTerm(x), floatTerm(y)
	switch op {
	case token.ADD:
		return symf{X.rounded(arith("+", RealSort, a, b))}
	case token.SUB:
		return symf{X.rounded(arith("-", RealSort, a, b))}
	case token.MUL:
		return symf{X.rounded(arith("*", RealSort, a, b))}
	case token.QUO:
		return symf{X.rounded(arith("/", RealSort, a, b))}
	case token.LSS:
		return mkScalar(arith("<", BoolSort, a, b), types.Bool)
	case token.LEQ:
		return mkScalar(arith("<=", BoolSort, a, b), types.Bool)
	case token.GTR:
		return mkScalar(arith(">", BoolSort, a, b), types.Bool)
	case token.GEQ:
		return mkScalar(arith(">=", BoolSort, a, b), types.Bool)
	case token.EQL:
		return mkScalar(newTerm("=", BoolSort, a, b), types.Bool)
	case token.NEQ:
		return mkScalar(Not(newTerm("=", BoolSort, a, b)), types.Bool)
	}
	panic(abortPath{fmt.Sprintf("float model: unsupported op %v", op)})
}

// int-mode arithmetic on mathematical integers.
func intModeBinop(op token.Token, x, y value) value {
	k := kindOfValue(x)
	a, b := termOf(x), termOf(y)
	if a.Op == "const" && b.Op == "const" {
		// both concrete: fold (mathematical integers; callers stay far from the int64 range)
		av, bv := int64(a.Val), int64(b.Val)
		switch op {
		case token.ADD:
			return mkScalar(IConst(av+bv), k)
		case token.SUB:
			return mkScalar(IConst(av-bv), k)
		case token.MUL:
			return mkScalar(IConst(av*bv), k)
		case token.LSS:
			return av < bv
		case token.LEQ:
			return av <= bv
		case token.GTR:
			return av > bv
		case token.GEQ:
			return av >= bv
		case token.EQL:
			return av == bv
		case token.NEQ:
			return av != bv
		}
	}
	switch op {
	case token.ADD:
		return symv{arith("+", IntSort, a, b), k}
	case token.SUB:
		return symv{arith("-", IntSort, a, b), k}
	case token.MUL:
		return symv{arith("*", IntSort, a, b), k}
	case token.SHL:
		// a symbolic count that the path condition forces to be >= 64 shifts everything out
		if b.Op != "const" && kindWidth(k) == 64 && !X.feasible(arith("<", BoolSort, b, IConst(64))) {
			return mkScalar(IConst(0), k)
		}
		// shift by a concrete count with two's-complement wrap-around of the 64-bit result
		if b.Op == "const" && kindWidth(k) == 64 {
			cnt := b.Val
			if cnt >= 64 {
				return mkScalar(IConst(0), k)
			}
			pow := newTerm("rconst", IntSort)
			pow.Name = new(big.Int).Lsh(big.NewInt(1), uint(cnt)).String()
			two63 := newTerm("rconst", IntSort)
			two63.Name = new(big.Int).Lsh(big.NewInt(1), 63).String()
			two64 := newTerm("rconst", IntSort)
			two64.Name = new(big.Int).Lsh(big.NewInt(1), 64).String()
			prod := arith("*", IntSort, a, pow)
			if kindSigned(k) {
				return symv{arith("-", IntSort, arith("mod", IntSort, arith("+", IntSort, prod, two63), two64), two63), k}
			}
			return symv{arith("mod", IntSort, prod, two64), k}
		}
	case token.LSS:
		return mkScalar(arith("<", BoolSort, a, b), types.Bool)
	case token.LEQ:
		return mkScalar(arith("<=", BoolSort, a, b), types.Bool)
	case token.GTR:
		return mkScalar(arith(">", BoolSort, a, b), types.Bool)
	case token.GEQ:
		return mkScalar(arith(">=", BoolSort, a, b), types.Bool)
	case token.EQL:
		return mkScalar(newTerm("=", BoolSort, a, b), types.Bool)
	case token.NEQ:
		return mkScalar(Not(newTerm("=", BoolSort, a, b)), types.Bool)
	}
	panic(abortPath{fmt.Sprintf("int-mode: unsupported op %v", op)})
}

// floatConv handles int<->float conversions in int-mode.
func floatConv(utDst, utSrc types.Type, x value) (value, bool) {
	db, ok1 := utDst.(*types.Basic)
	sb, ok2 := utSrc.(*types.Basic)
	if !ok1 || !ok2 {
		return nil, false
	}
	switch xv := x.(type) {
	case symv:
		if db.Kind() == types.Float64 && xv.t.Sort.Kind == 'I' {
			// exact below 2^53; callers assume that range
			return symf{newTerm("to_real", RealSort, xv.t)}, true
		}
	case symf:
		if db.Info()&types.IsInteger != 0 {
			// truncation toward zero
			fl := newTerm("to_int", IntSort, xv.t)
			neg := newTerm("-", IntSort, newTerm("to_int", IntSort, newTerm("-", RealSort, xv.t)))
			t := newTerm("ite", IntSort, arith(">=", BoolSort, xv.t, RConst(0)), fl, neg)
			return symv{t, db.Kind()}, true
		}
		if db.Kind() == types.Float64 {
			return xv, true
		}
	case float64:
		_ = sb
	}
	return nil, false
}

func init() {
	symExternals[rtPkg+"IntMode"] = func(fr *frame, args []value) value {
		X.IntMode = true
		return nil
	}
	symExternals[rtPkg+"ExactBegin"] = func(fr *frame, args []value) value { X.ExactFloat = true; return nil }
	symExternals[rtPkg+"ExactEnd"] = func(fr *frame, args []value) value { X.ExactFloat = false; return nil }
	symExternals[rtPkg+"Float01"] = func(fr *frame, args []value) value {
		t := X.fresh(labelOf(args[0]), RealSort)
		X.InputLog = append(X.InputLog, InputRec{K: "float", L: labelOf(args[0]), Vars: []string{t.Name}})
		if X.Pin != nil {
			return X.Pin.FValues[t.Name]
		}
		X.addPC(arith("<=", BoolSort, RConst(0), t), arith("<", BoolSort, t, RConst(1)))
		return symf{t}
	}
	symExternals[rtPkg+"FloatIn"] = func(fr *frame, args []value) value {
		t := X.fresh(labelOf(args[0]), RealSort)
		X.InputLog = append(X.InputLog, InputRec{K: "float", L: labelOf(args[0]), Vars: []string{t.Name}})
		if X.Pin != nil {
			return X.Pin.FValues[t.Name]
		}
		X.addPC(arith("<=", BoolSort, RConst(args[1].(float64)), t), arith("<=", BoolSort, t, RConst(args[2].(float64))))
		return symf{t}
	}
	symExternals["math/rand.Float64"] = func(fr *frame, args []value) value {
		t := X.fresh("rand.Float64", RealSort)
		X.InputLog = append(X.InputLog, InputRec{K: "float", L: "rand.Float64", Vars: []string{t.Name}})
		if X.Pin != nil {
			return X.Pin.FValues[t.Name]
		}
		X.addPC(arith("<=", BoolSort, RConst(0), t), arith("<", BoolSort, t, RConst(1)))
		return symf{t}
	}
	// (time.Duration).Seconds: d/1e9 as a real, one rounding
	symExternals["(time.Duration).Seconds"] = func(fr *frame, args []value) value {
		t := termOf(args[0])
		if t.Op == "const" {
			return time.Duration(int64(t.Val)).Seconds()
		}
		if t.Sort.Kind != 'I' {
			panic(abortPath{"unsupported: symbolic Duration.Seconds outside int/real mode"})
		}
		return symf{X.rounded(arith("/", RealSort, newTerm("to_real", RealSort, t), RConst(1e9)))}
	}
	symExternals["math.Pow"] = func(fr *frame, args []value) value {
		b, ok1 := args[0].(float64)
		e, ok2 := args[1].(float64)
		if ok1 && ok2 {
			return math.Pow(b, e)
		}
		if ok1 && b == 2 {
			if ef, isf := args[1].(symf); isf {
				// 2^e for a symbolic exponent the path condition forces to be >= 64: some real >= 2^64
				// (covers every finite value and, for the comparisons that follow, +Inf as well)
				if !X.feasible(arith("<", BoolSort, ef.t, RConst(64))) {
					p := X.fresh("pow2", RealSort)
					X.addPC(arith(">=", BoolSort, p, RConst(18446744073709551616.0)))
					return symf{p}
				}
			}
		}
		panic(abortPath{"float model: math.Pow with symbolic arguments"})
	}
}
