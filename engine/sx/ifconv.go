package sx

// If-conversion of pure triangles/diamonds on symbolic conditions:
// instead of forking, both sides are evaluated and the phis at the join
// become ite terms.

import (
	"go/token"

	"golang.org/x/tools/go/ssa"
)

func pureInstr(in ssa.Instruction) bool {
	switch in := in.(type) {
	case *ssa.BinOp:
		switch in.Op {
		case token.QUO, token.REM:
			return false
		}
		return true
	case *ssa.UnOp:
		return in.Op != token.ARROW
	case *ssa.Convert, *ssa.ChangeType, *ssa.Field, *ssa.FieldAddr, *ssa.Index, *ssa.IndexAddr,
		*ssa.Extract, *ssa.MakeInterface, *ssa.ChangeInterface, *ssa.DebugRef, *ssa.Slice:
		return true
	case *ssa.Call:
		if b, ok := in.Call.Value.(*ssa.Builtin); ok {
			switch b.Name() {
			case "len", "cap", "min", "max":
				return true
			}
		}
		return false
	}
	return false
}

func pureSide(b *ssa.BasicBlock) bool {
	if len(b.Instrs) == 0 || len(b.Instrs) > 12 {
		return false
	}
	for i, in := range b.Instrs {
		if i == len(b.Instrs)-1 {
			_, ok := in.(*ssa.Jump)
			return ok
		}
		if !pureInstr(in) {
			return false
		}
	}
	return false
}

func mergeable(v value) bool {
	switch v.(type) {
	case symv, bool, int, int8, int16, int32, int64, uint, uint8, uint16, uint32, uint64, uintptr:
		return true
	}
	return false
}

// tryIfConvert returns true when it handled the branch (fr.block advanced to the join).
func tryIfConvert(fr *frame, c symv) (ok bool) {
	b := fr.block
	T, F := b.Succs[0], b.Succs[1]
	var J *ssa.BasicBlock
	var sides [2]*ssa.BasicBlock
	single := func(x *ssa.BasicBlock) bool { return len(x.Preds) == 1 && len(x.Succs) == 1 }
	switch {
	case single(T) && single(F) && T.Succs[0] == F.Succs[0] && T != F:
		J, sides[0], sides[1] = T.Succs[0], T, F
	case single(T) && T.Succs[0] == F:
		J, sides[0] = F, T
	case single(F) && F.Succs[0] == T:
		J, sides[1] = T, F
	default:
		return false
	}
	if len(J.Preds) != 2 {
		return false
	}
	for _, s := range sides {
		if s != nil && !pureSide(s) {
			return false
		}
	}
	defer func() {
		if r := recover(); r != nil {
			if ap, isAbort := r.(abortPath); isAbort {
				panic(ap)
			}
			ok = false
		}
	}()
	savedDepth := X.specDepth
	X.specDepth++
	defer func() { X.specDepth = savedDepth }()
	for _, s := range sides {
		if s == nil {
			continue
		}
		for _, in := range s.Instrs[:len(s.Instrs)-1] {
			visitInstr(fr, in)
		}
	}
	// phis at J
	pred := func(i int) *ssa.BasicBlock {
		if sides[i] != nil {
			return sides[i]
		}
		return b
	}
	idxT, idxF := -1, -1
	for i, p := range J.Preds {
		if p == pred(0) && idxT < 0 {
			idxT = i
		} else if p == pred(1) {
			idxF = i
		}
	}
	if idxT < 0 || idxF < 0 {
		return false
	}
	var phis []*ssa.Phi
	var vals []value
	for _, in := range J.Instrs {
		phi, isPhi := in.(*ssa.Phi)
		if !isPhi {
			break
		}
		vt, vf := fr.get(phi.Edges[idxT]), fr.get(phi.Edges[idxF])
		if !mergeable(vt) || !mergeable(vf) {
			if s1, ok1 := vt.(string); ok1 {
				if s2, ok2 := vf.(string); ok2 && s1 == s2 {
					phis, vals = append(phis, phi), append(vals, vt)
					continue
				}
			}
			return false
		}
		k := kindOfValue(vt)
		phis = append(phis, phi)
		vals = append(vals, mkScalar(Ite(c.t, termOf(vt), termOf(vf)), k))
	}
	for i, phi := range phis {
		fr.env[phi] = vals[i]
	}
	fr.prevBlock, fr.block = pred(0), J
	fr.skipPhis = true
	X.IfConverted++
	return true
}
