package sx

// Job API: one exploration of one harness (or shard). The package is compiled several times
// under different import paths (see engine/build.sh), each copy with its own globals, so that
// several explorations run in parallel inside one process over one shared ssa.Program.

import (
	"encoding/json"
	"fmt"
	"go/types"
	"os"
	"sort"
	"strings"
	"time"

	"golang.org/x/tools/go/ssa"

	"gosym/wq"
)

type PinFile struct {
	Values  map[string]uint64 `json:"values"`
	FValues map[string]float64 `json:"fvalues,omitempty"`
	Chooses []int             `json:"chooses"`
}

// Job is one harness (or one shard of it) to explore.
type Job struct {
	Pkg       string   `json:"pkg"`
	Fn        string   `json:"fn"`
	ShardI    int      `json:"shard_i"`
	ShardN    int      `json:"shard_n"`
	ShardDepth int     `json:"shard_depth"`
	MaxPaths  int      `json:"max_paths"`
	MaxSteps  int64    `json:"max_steps"`
	QTimeout  int      `json:"qtimeout_ms"`
	Pin       *PinFile `json:"pin,omitempty"`
	DeadlineS int      `json:"deadline_s"`
	Thorough  bool     `json:"thorough"`
	Verbose   bool     `json:"verbose"`
	KnownFor  map[string][]string `json:"known_for,omitempty"`
}

// Result is what an exploration reports.
type Result struct {
	Job        Job                    `json:"job"`
	Paths      int                    `json:"paths"`
	Completed  int                    `json:"completed"`
	Nontrivial int                    `json:"nontrivial"`
	Decisions  int                    `json:"decisions"`
	Queries    int                    `json:"queries"`
	Sat        int                    `json:"sat"`
	Unsat      int                    `json:"unsat"`
	Unknown    int                    `json:"unknown"`
	SolverS    float64                `json:"solver_s"`
	WallS      float64                `json:"wall_s"`
	Asserts    map[string]*AssertStat `json:"asserts"`
	Covers     map[string]int         `json:"covers"`
	Aborted    map[string]int         `json:"aborted"`
	Violations []Violation            `json:"violations"`
	KnownHits  map[string]int         `json:"known_hits"`
	Witnesses  []Witness              `json:"witnesses"`
	Funcs      []string               `json:"funcs"`
	Stubs      map[string]int         `json:"stubs"`
	Replaced   []string               `json:"replaced"`
	PathLimit  bool                   `json:"path_limit"`
	TimedOut   bool                   `json:"timed_out"`
	IfConv     int                    `json:"if_converted"`
	Error      string                 `json:"error,omitempty"`
	LoadS      float64                `json:"load_s"`
	GoVersion  string                 `json:"go_version"`
}

// RunJobJSON is the copy-independent entry point (JSON in, JSON out).
func RunJobJSON(prog *ssa.Program, fn *ssa.Function, jobJSON []byte, q *wq.Queue) []byte {
	var job Job
	if err := json.Unmarshal(jobJSON, &job); err != nil {
		b, _ := json.Marshal(Result{Error: "bad job: " + err.Error()})
		return b
	}
	res := RunJob(prog, fn, job, q)
	b, err := json.Marshal(res)
	if err != nil {
		b, _ = json.Marshal(Result{Job: job, Error: "marshal: " + err.Error()})
	}
	return b
}

func RunJob(prog *ssa.Program, fn *ssa.Function, job Job, q *wq.Queue) Result {
	res := Result{Job: job}
	solver, err := NewSolver("z3-new", "-in")
	if err != nil {
		res.Error = err.Error()
		return res
	}
	defer solver.Close()
	solver2, err := NewSolver("z3-new", "-in")
	if err != nil {
		res.Error = err.Error()
		return res
	}
	defer solver2.Close()
	x := NewExplorer(solver, solver2)
	x.Verbose = job.Verbose
	x.Q = q
	x.Thorough = job.Thorough
	x.KnownFor = job.KnownFor
	if job.MaxSteps > 0 {
		x.MaxSteps = job.MaxSteps
	}
	if job.MaxPaths > 0 {
		x.MaxPaths = job.MaxPaths
	}
	if job.QTimeout > 0 {
		x.QTimeoutMs = job.QTimeout
	}
	if job.ShardN > 1 {
		x.ShardI, x.ShardN = job.ShardI, job.ShardN
	}
	if job.ShardDepth > 0 {
		x.ShardDepth = job.ShardDepth
	}
	if job.DeadlineS > 0 {
		x.Deadline = time.Now().Add(time.Duration(job.DeadlineS) * time.Second)
	}
	if job.Pin != nil {
		x.Pin = &Pin{Values: job.Pin.Values, FValues: job.Pin.FValues, Chooses: job.Pin.Chooses}
		x.WitnessK = 0
	}
	for k := range InitFailures {
		delete(InitFailures, k)
	}
	if os.Getenv("GOSYM_DECIDE_PROFILE") != "" {
		x.DecideProfile = map[string]int{}
		QueryProfile = map[string]int{}
		defer func() {
			for k, v := range QueryProfile {
				if v > 50 {
					fmt.Fprintf(os.Stderr, "query-profile %8d %s\n", v, k)
				}
			}
			type kv struct {
				k string
				v int
			}
			var all []kv
			for k, v := range x.DecideProfile {
				all = append(all, kv{k, v})
			}
			sort.Slice(all, func(i, j int) bool { return all[i].v > all[j].v })
			for i, e := range all {
				if i > 15 {
					break
				}
				fmt.Fprintf(os.Stderr, "decide-profile %8d %s\n", e.v, e.k)
			}
		}()
	}
	t0 := time.Now()
	func() {
		defer func() {
			if r := recover(); r != nil {
				res.Error = fmt.Sprintf("engine panic: %v", r)
			}
		}()
		RunHarness(prog, types.SizesFor("gc", "amd64"), fn, x)
	}()
	res.WallS = time.Since(t0).Seconds()
	res.Paths, res.Completed, res.Nontrivial, res.Decisions = x.Paths, x.Completed, x.NontrivialPaths, x.Decisions
	res.Queries = solver.Queries + solver2.Queries
	res.Sat, res.Unsat, res.Unknown = solver.Sat+solver2.Sat, solver.Unsat+solver2.Unsat, solver.Unknown+solver2.Unknown
	res.SolverS = (solver.Time + solver2.Time).Seconds()
	res.Asserts, res.Covers, res.Aborted, res.Violations, res.KnownHits = x.Asserts, x.Covers, x.Aborted, x.Violations, x.KnownHits
	res.Witnesses = x.Witnesses
	res.Funcs = x.TopFuncs(60)
	res.Stubs = x.StubHits
	for k, v := range solver2.Portfolio {
		res.Stubs["solver-portfolio:"+k] += v
	}
	for k := range x.Replaced {
		res.Replaced = append(res.Replaced, k)
	}
	sort.Strings(res.Replaced)
	res.PathLimit, res.TimedOut, res.IfConv = x.PathLimit, x.TimedOut, x.IfConverted
	for p, e := range InitFailures {
		if p == "time" {
			continue
		}
		line := e
		if i := strings.IndexByte(line, '\n'); i >= 0 {
			line = line[:i]
		}
		res.Aborted["note: init failure "+p+": "+line] += 0
	}
	return res
}
