//go:build verif

package ingress

import (
	"errors"
	"net/http"

	"github.com/nuetzliches/hookaido/internal/queue"
	vrt "github.com/nuetzliches/hookaido/internal/verifrt"
)

// recording store: Enqueue may fail (nondet per call)
type hStore struct {
	queue.Store
	envs      []queue.Envelope
	statusAt  []int // response status already written when the call happened (0 = none)
	failed    int
	w         *hRW
	neverFail bool
}

func (s *hStore) Enqueue(env queue.Envelope) error {
	s.envs = append(s.envs, env)
	s.statusAt = append(s.statusAt, s.w.status)
	if !s.neverFail && vrt.Choose("enqueue_fails", 2) == 1 {
		s.failed++
		return errors.New("store down")
	}
	return nil
}

type hRW struct {
	status int
	hdr    http.Header
	wrote  int
}

func (w *hRW) Header() http.Header {
	if w.hdr == nil {
		w.hdr = http.Header{}
	}
	return w.hdr
}
func (w *hRW) Write(b []byte) (int, error) {
	if w.status == 0 {
		w.status = 200
	}
	w.wrote += len(b)
	return len(b), nil
}
func (w *hRW) WriteHeader(code int) {
	if w.status == 0 {
		w.status = code
	}
}

// hTrimmed: w.l.o.g. header values are already trimmed (the code only looks at TrimSpace(value)) and ASCII.
func hTrimmed(s string) bool {
	if len(s) == 0 {
		return true
	}
	a, b := s[0], s[len(s)-1]
	return a > ' ' && a < 0x80 && b > ' ' && b < 0x80
}
