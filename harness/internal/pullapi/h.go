//go:build verif

package pullapi

import (
	"net/http"
	"net/url"
	"time"

	"github.com/nuetzliches/hookaido/internal/queue"
	vrt "github.com/nuetzliches/hookaido/internal/verifrt"
)

type hStore struct {
	queue.Store
	calls int
}

func (s *hStore) Ack(string) error                          { s.calls++; return nil }
func (s *hStore) Nack(string, time.Duration) error          { s.calls++; return nil }
func (s *hStore) Extend(string, time.Duration) error        { s.calls++; return nil }
func (s *hStore) MarkDead(string, string) error             { s.calls++; return nil }
func (s *hStore) Dequeue(queue.DequeueRequest) (queue.DequeueResponse, error) {
	s.calls++
	return queue.DequeueResponse{}, nil
}

type hRW struct {
	status int
	hdr    http.Header
}

func (w *hRW) Header() http.Header {
	if w.hdr == nil {
		w.hdr = http.Header{}
	}
	return w.hdr
}
func (w *hRW) Write(b []byte) (int, error) {
	if w.status == 0 {
		w.status = 200
	}
	return len(b), nil
}
func (w *hRW) WriteHeader(code int) {
	if w.status == 0 {
		w.status = code
	}
}

// VerifPullAuthorizeFirst: C11 — no store call unless Authorize returned true (and the method is POST).
func VerifPullAuthorizeFirst() {
	st := &hStore{}
	s := NewServer(st)
	authorized := vrt.Bool("authorized")
	asked := 0
	s.Authorize = func(*http.Request) bool { asked++; return authorized }
	s.ResolveRoute = func(endpoint string) (string, bool) { return "/r", endpoint == "/e" }
	vrt.Replace(decodeJSONBodyStrict, func(w http.ResponseWriter, r *http.Request, dst any, allowEmpty bool) bool {
		if !vrt.Bool("decode_ok") {
			w.WriteHeader(400)
			return false
		}
		switch d := dst.(type) {
		case *leaseRequest:
			d.LeaseID = []string{"", "L1"}[vrt.Choose("lease", 2)]
			d.ExtendBy = []string{"", "1s"}[vrt.Choose("extend", 2)]
		case *dequeueRequest:
			d.Batch = vrt.Int("batch")
		}
		return true
	})
	method := []string{"POST", "GET"}[vrt.Choose("method", 2)]
	op := []string{"dequeue", "ack", "nack", "extend", "other"}[vrt.Choose("op", 5)]
	ep := []string{"/e", "/zz"}[vrt.Choose("endpoint", 2)]
	w := &hRW{}
	r := &http.Request{Method: method, URL: &url.URL{Path: ep + "/" + op}, Header: http.Header{}, Body: http.NoBody}
	s.ServeHTTP(w, r)
	if st.calls > 0 {
		vrt.Assert("C11.store-only-if-authorized", authorized && asked == 1 && method == "POST" && ep == "/e")
	}
	if !authorized && method == "POST" {
		vrt.Assert("C11.unauthorized-is-401", w.status == 401 && st.calls == 0)
	}
}
