//go:build verif

package app

import (
	"net/http"
	"net/url"
	"time"

	"github.com/nuetzliches/hookaido/internal/config"
	"github.com/nuetzliches/hookaido/internal/pullapi"
	"github.com/nuetzliches/hookaido/internal/queue"
	vrt "github.com/nuetzliches/hookaido/internal/verifrt"
)

type hPullStore struct {
	queue.Store
	dequeues []string // routes dequeued
}

func (s *hPullStore) Dequeue(req queue.DequeueRequest) (queue.DequeueResponse, error) {
	s.dequeues = append(s.dequeues, req.Route)
	return queue.DequeueResponse{}, nil
}
func (s *hPullStore) Ack(string) error { s.dequeues = append(s.dequeues, "ack"); return nil }
func (s *hPullStore) Nack(string, time.Duration) error {
	s.dequeues = append(s.dequeues, "nack")
	return nil
}

// verif:harness props=C11 tier=quick native=yes weight=15
// verif:bounds two pull routes: /own (endpoint /e1) with its own token, /shared (endpoint /e2) without; global pull token; request URL from 9 spellings of <endpoint>/dequeue (canonical, doubled slash, dot segment, trailing slash, leading double slash, dot-dot segment, each endpoint) and an unconfigured endpoint; Authorization from {route token, global token, other route's... none}; the whole chain runtimeState.authorizePull -> pullapi.ServeHTTP -> resolvePull is real
func VerifC11PullRouteOverride() {
	c := config.Compiled{
		Routes: []config.CompiledRoute{
			{Path: "/own", Pull: &config.PullConfig{Path: "/e1", AuthTokens: []string{"raw:own-token"}}},
			{Path: "/shared", Pull: &config.PullConfig{Path: "/e2"}},
		},
		PathToRoute: map[string]string{"/e1": "/own", "/e2": "/shared"},
		PullAPI:     config.APIConfig{AuthTokens: []string{"raw:global-token"}},
	}
	state := newRuntimeState(c)
	if err := state.loadAuth(c); err != nil {
		vrt.Assume(false)
	}
	st := &hPullStore{}
	srv := pullapi.NewServer(st)
	srv.Authorize = state.authorizePull
	srv.ResolveRoute = state.resolvePull
	spellings := []string{"/e1/dequeue", "/e1//dequeue", "/e1/./dequeue", "/e1/dequeue/", "//e1/dequeue", "/e1/zz/../dequeue", "/e2/dequeue", "/e2//dequeue", "/nope/dequeue"}
	p := spellings[vrt.Choose("url", len(spellings))]
	tok := []string{"own-token", "global-token", "own-toke", ""}[vrt.Choose("token", 4)]
	r := &http.Request{Method: "POST", URL: &url.URL{Path: p}, Header: http.Header{}, Body: http.NoBody}
	if tok != "" {
		r.Header.Set("Authorization", "Bearer "+tok)
	}
	w := &hRW{}
	srv.ServeHTTP(w, r)
	for _, route := range st.dequeues {
		// the effective allowlist of the endpoint the request addresses: the route's own tokens when it has any, else the global ones
		switch route {
		case "/own":
			vrt.Assert("C11.override.route-with-own-tokens-accepts-only-them", tok == "own-token")
		case "/shared":
			vrt.Assert("C11.override.route-without-own-tokens-uses-the-global-list", tok == "global-token")
		default:
			// verif:optional C11.override.unknown-route-never-served
			vrt.Assert("C11.override.unknown-route-never-served", false)
		}
	}
	if tok == "" || tok == "own-toke" {
		vrt.Assert("C11.override.no-valid-token-no-effect-and-401", len(st.dequeues) == 0 && w.status == 401)
	}
	if tok == "own-token" && p == "/e1/dequeue" {
		vrt.Assert("C11.override.valid-route-token-is-served", len(st.dequeues) == 1)
	}
}
