package sx

// sync.Map as an ordered map kept on the interpreter; net/http client as a havoc stub.

import (
	"go/token"
	"go/types"
	"strings"

	"golang.org/x/tools/go/ssa"
)

var anyType = types.NewInterfaceType(nil, nil)

func (i *interpreter) syncMap(recv value) *omap {
	if i.syncMaps == nil {
		i.syncMaps = map[*value]*omap{}
	}
	key := recv.(*value)
	m := i.syncMaps[key]
	if m == nil {
		m = newOmap(anyType)
		i.syncMaps[key] = m
	}
	return m
}

func init() {
	symExternals["(*sync.Map).Load"] = func(fr *frame, args []value) value {
		v, ok := fr.i.syncMap(args[0]).lookup(args[1])
		if !ok {
			return tuple{iface{}, false}
		}
		return tuple{v, true}
	}
	symExternals["(*sync.Map).Store"] = func(fr *frame, args []value) value {
		fr.i.syncMap(args[0]).insert(args[1], args[2])
		return nil
	}
	symExternals["(*sync.Map).Delete"] = func(fr *frame, args []value) value {
		fr.i.syncMap(args[0]).delete(args[1])
		return nil
	}
	symExternals["(*sync.Map).LoadOrStore"] = func(fr *frame, args []value) value {
		m := fr.i.syncMap(args[0])
		if v, ok := m.lookup(args[1]); ok {
			return tuple{v, true}
		}
		m.insert(args[1], args[2])
		return tuple{args[2], false}
	}

	// (*http.Client).Do: the network. Records the request, returns a nondet status or an error.
	symExternals["(*net/http.Client).Do"] = func(fr *frame, args []value) value {
		req := args[1].(*value)
		X.httpReqs = append(X.httpReqs, req)
		event("http.Do")
		if X.httpDoErr != nil {
			event("http.Do:scripted-error")
			return tuple{(*value)(nil), X.httpDoErr}
		}
		if X.choose(2) == 1 {
			event("http.Do:error")
			errorsPkg := fr.i.prog.ImportedPackage("errors")
			et := errorsPkg.Type("errorString").Type()
			cell := value(structure{"stub: transport error"})
			return tuple{(*value)(nil), iface{t: types.NewPointer(et), v: &cell}}
		}
		httpPkg := fr.i.prog.ImportedPackage("net/http")
		rt := httpPkg.Type("Response").Type()
		resp := zero(rt).(structure)
		st := rt.Underlying().(*types.Struct)
		code := mkScalar(X.pinOr(X.fresh("http.status", BV(64))), types.Int)
		X.lastHTTPStatus = code
		for k := 0; k < st.NumFields(); k++ {
			switch st.Field(k).Name() {
			case "Header":
				if X.httpRespHdr != nil {
					resp[k] = X.httpRespHdr
				}
			case "StatusCode":
				resp[k] = code
			case "Body":
				resp[k] = iface{t: fr.i.prog.ImportedPackage("net/http").Var("NoBody").Type().(*types.Pointer).Elem(), v: structure{}}
			}
		}
		cell := value(resp)
		return tuple{&cell, iface{}}
	}
	symExternals[rtPkg+"HTTPResponseHeader"] = func(fr *frame, args []value) value {
		X.httpRespHdr = args[0]
		return nil
	}
	symExternals[rtPkg+"HTTPDoError"] = func(fr *frame, args []value) value {
		X.httpDoErr = args[0]
		return nil
	}
	symExternals[rtPkg+"LastHTTPStatus"] = func(fr *frame, args []value) value {
		if X.lastHTTPStatus == nil {
			return 0
		}
		return X.lastHTTPStatus
	}
	symExternals[rtPkg+"HTTPRequests"] = func(fr *frame, args []value) value {
		out := make([]value, len(X.httpReqs))
		for i, r := range X.httpReqs {
			out[i] = r
		}
		return out
	}
}

func init() {
	// io.Discard's ReadFrom drains through a sync.Pool buffer; nothing a harness observes depends on it.
	symExternals["(io.discard).ReadFrom"] = func(fr *frame, args []value) value {
		return tuple{int64(0), iface{}}
	}
}

func init() {
	// context.WithValue without the reflective comparability check.
	symExternals["context.WithValue"] = func(fr *frame, args []value) value {
		vt := fr.i.prog.ImportedPackage("context").Type("valueCtx").Type()
		cell := value(structure{args[0], args[1], args[2]})
		return iface{t: types.NewPointer(vt), v: &cell}
	}
}

func init() {
	// encoding/json.Marshal(Indent): reflection-heavy; output formatting is never the subject of a
	// property here. An opaque document is returned.
	isStringMap := func(t types.Type) bool {
		m, ok := t.Underlying().(*types.Map)
		if !ok {
			return false
		}
		k, ok1 := m.Key().Underlying().(*types.Basic)
		e, ok2 := m.Elem().Underlying().(*types.Basic)
		return ok1 && ok2 && k.Kind() == types.String && e.Kind() == types.String
	}
	rtFunc := func(fr *frame, name string) *ssa.Function {
		return fr.i.prog.ImportedPackage(strings.TrimSuffix(rtPkg, ".")).Func(name)
	}
	jsonErr := func(fr *frame, msg string) value {
		errorsPkg := fr.i.prog.ImportedPackage("errors")
		cell := value(structure{msg})
		return iface{t: types.NewPointer(errorsPkg.Type("errorString").Type()), v: &cell}
	}
	symExternals[rtPkg+"JSONModel"] = func(fr *frame, args []value) value {
		X.JSONModel = true
		return nil
	}
	// json.Unmarshal into *map[string]string: the validated model codec of verifrt (interpreted, so the document may be symbolic)
	symExternals["encoding/json.Unmarshal"] = func(fr *frame, args []value) value {
		it, _ := args[1].(iface)
		pt, ok := it.t.(*types.Pointer)
		if !X.JSONModel || !ok || !isStringMap(pt.Elem()) {
			panic(abortPath{"encoding/json.Unmarshal outside the modelled shape (*map[string]string with vrt.JSONModel)"})
		}
		X.StubHits["encoding/json.Unmarshal -> verifrt.JSONModelUnmarshalStringMap"]++
		r := call(fr.i, fr, token.NoPos, rtFunc(fr, "JSONModelUnmarshalStringMap"), []value{args[0]}).(tuple)
		okv := r[1]
		good := false
		switch b := okv.(type) {
		case bool:
			good = b
		case symv:
			good = X.decide(b.t)
		}
		if !good {
			return jsonErr(fr, "json: cannot decode (model)")
		}
		// json leaves the destination alone for "null"; otherwise it stores the decoded map
		if m, isMap := r[0].(*omap); isMap && m != nil {
			*it.v.(*value) = r[0]
		}
		return iface{}
	}
	marshal := func(fr *frame, args []value) value {
		if it, ok := args[0].(iface); ok && X.JSONModel && it.t != nil && isStringMap(it.t) {
			X.StubHits["encoding/json.Marshal -> verifrt.JSONModelMarshalStringMap"]++
			out := call(fr.i, fr, token.NoPos, rtFunc(fr, "JSONModelMarshalStringMap"), []value{it.v})
			return tuple{out, iface{}}
		}
		X.Events = append(X.Events, "json.Marshal")
		doc := []value{uint8('{'), uint8('"'), uint8('o'), uint8('p'), uint8('a'), uint8('q'), uint8('u'), uint8('e'), uint8('"'), uint8(':'), uint8('1'), uint8('}')}
		return tuple{doc, iface{}}
	}
	symExternals["encoding/json.Marshal"] = marshal
	symExternals["encoding/json.MarshalIndent"] = marshal
}

// sync.Pool: a LIFO free list per pool (the most adversarial reuse policy: the object just put is
// handed out next), falling back to New.
func (i *interpreter) pool(recv value) *[]value {
	if i.pools == nil {
		i.pools = map[*value]*[]value{}
	}
	key := recv.(*value)
	p := i.pools[key]
	if p == nil {
		p = &[]value{}
		i.pools[key] = p
	}
	return p
}

func init() {
	symExternals["(*sync.Pool).Put"] = func(fr *frame, args []value) value {
		p := fr.i.pool(args[0])
		*p = append(*p, args[1])
		return nil
	}
	symExternals["(*sync.Pool).Get"] = func(fr *frame, args []value) value {
		p := fr.i.pool(args[0])
		if n := len(*p); n > 0 {
			v := (*p)[n-1]
			*p = (*p)[:n-1]
			return v
		}
		// field New func() any
		st := (*args[0].(*value)).(structure)
		pt := fr.i.prog.ImportedPackage("sync").Type("Pool").Type().Underlying().(*types.Struct)
		for k := 0; k < pt.NumFields(); k++ {
			if pt.Field(k).Name() == "New" {
				if st[k] == nil {
					return iface{}
				}
				if c, ok := st[k].(*closure); ok && c == nil {
					return iface{}
				}
				if f, ok := st[k].(*ssa.Function); ok && f == nil {
					return iface{}
				}
				return call(fr.i, fr, 0, st[k], nil)
			}
		}
		return iface{}
	}
}

func init() {
	// sync.WaitGroup: bookkeeping only (worker loops are run in place by harness stubs)
	symExternals["(*sync.WaitGroup).Add"] = func(fr *frame, args []value) value { return nil }
	symExternals["(*sync.WaitGroup).Done"] = func(fr *frame, args []value) value { return nil }
	symExternals["(*sync.WaitGroup).Wait"] = func(fr *frame, args []value) value { return nil }
	symExternals["internal/synctest.IsInBubble"] = func(fr *frame, args []value) value { return false }
}
