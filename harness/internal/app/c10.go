//go:build verif

package app

import (
	"net/http"
	"net/netip"
	"net/url"

	"github.com/nuetzliches/hookaido/internal/config"
	vrt "github.com/nuetzliches/hookaido/internal/verifrt"
)

var hChannels = []config.ChannelType{config.ChannelDefault, config.ChannelInbound, config.ChannelOutbound, config.ChannelInternal}

func hInbound(ct config.ChannelType) bool {
	return ct == config.ChannelDefault || ct == config.ChannelInbound
}

// refPathMatch: equal, or route "/", or a prefix that ends on a segment boundary.
func refPathMatch(req, route string) bool {
	if route == "" {
		return false
	}
	if route == "/" || req == route {
		return true
	}
	return len(req) > len(route) && req[:len(route)] == route && req[len(route)] == '/'
}

type hRouteSpec struct {
	rt      config.CompiledRoute
	methods []string
	host    string
}

func hDrawRoute(name string) hRouteSpec {
	ct := hChannels[vrt.Choose(name+".channel", len(hChannels))]
	p := []string{"/a", "/a/b", "/"}[vrt.Choose(name+".path", 3)]
	sp := hRouteSpec{rt: config.CompiledRoute{Path: p, ChannelType: ct}}
	if vrt.Choose(name+".methods", 2) == 1 {
		sp.methods = []string{"GET", "PUT"}
		sp.rt.Match.Methods = sp.methods
	}
	if vrt.Thorough() && vrt.Choose(name+".host", 2) == 1 {
		sp.host = "x.example.com"
		sp.rt.Match.Hosts = []string{sp.host}
	}
	return sp
}

func hSpecMatchesButMethod(sp hRouteSpec, reqPath, host string) bool {
	return hInbound(sp.rt.ChannelType) && refPathMatch(reqPath, sp.rt.Path) && (sp.host == "" || sp.host == host)
}

func hMethodOK(sp hRouteSpec, method string) bool {
	if len(sp.methods) == 0 {
		return method == "POST"
	}
	for _, m := range sp.methods {
		if m == method {
			return true
		}
	}
	return false
}

// verif:harness props=C10 tier=quick native=yes weight=20
// verif:bounds 2 routes in configuration order, each with channel type from {default, inbound, outbound, internal}, path from {/a, /a/b, /}, methods none or {GET,PUT} (thorough: optional host criterion); request path from {/a, /a/b, /a/b/c, /ab, /z}, method from {POST, GET}, host from {x.example.com, other}
func VerifC10Resolve() {
	n := 2 // (three routes with four channel types each exceed the path limit; the thorough tier adds the host criterion)
	specs := make([]hRouteSpec, n)
	var routes []config.CompiledRoute
	for i := range specs {
		specs[i] = hDrawRoute([]string{"r0", "r1", "r2"}[i])
		routes = append(routes, specs[i].rt)
	}
	state := newRuntimeState(config.Compiled{Routes: routes})
	reqPath := []string{"/a", "/a/b", "/a/b/c", "/ab", "/z"}[vrt.Choose("req.path", 5)]
	method := []string{"POST", "GET"}[vrt.Choose("req.method", 2)]
	host := []string{"x.example.com", "y.example.com"}[vrt.Choose("req.host", 2)]
	r := &http.Request{Method: method, URL: &url.URL{Path: reqPath}, Header: http.Header{}, RemoteAddr: "1.2.3.4:5", Host: host}
	got, ok := state.resolveIngress(r, reqPath)
	// reference: FIRST route in order that is inbound and whose criteria all hold
	want, wantOK := "", false
	for _, sp := range specs {
		if hSpecMatchesButMethod(sp, reqPath, host) && hMethodOK(sp, method) {
			want, wantOK = sp.rt.Path, true
			break
		}
	}
	vrt.Assert("C10.resolve.first-inbound-route-whose-criteria-all-hold", ok == wantOK && got == want)
	// 405 + Allow exactly when only the method differs: methods advertised = those of inbound routes matching everything else
	allow := state.allowedMethodsFor(r, reqPath)
	wantSet := map[string]bool{}
	for _, sp := range specs {
		if !hSpecMatchesButMethod(sp, reqPath, host) {
			continue
		}
		ms := sp.methods
		if len(ms) == 0 {
			ms = []string{"POST"}
		}
		for _, m := range ms {
			wantSet[m] = true
		}
	}
	okAllow := len(allow) == len(wantSet)
	for _, m := range allow {
		okAllow = okAllow && wantSet[m]
	}
	vrt.Assert("C10.resolve.allow-header-lists-methods-of-inbound-routes-only", okAllow)
	vrt.Observe("resolved", got)
}

// refHostMatch: the documented host grammar (exact, *, *.domain for sub-domains only).
func refHostMatch(host, pat string) bool {
	if host == "" {
		return false
	}
	if pat == "*" || host == pat {
		return true
	}
	if len(pat) > 2 && pat[0] == '*' && pat[1] == '.' {
		suffix := pat[1:] // ".domain"
		// (a host that starts with a dot is not a host name; the reference does not demand a non-empty label)
		return len(host) >= len(suffix) && host[len(host)-len(suffix):] == suffix && host != pat[2:]
	}
	return false
}

// verif:harness props=C10 tier=quick native=yes weight=8
// verif:bounds request host <= 4 bytes (thorough 6) and one host pattern <= 4 bytes (thorough 5), every byte value
func VerifC10MatchHosts() {
	lh, lp := 4, 4
	if vrt.Thorough() {
		lh, lp = 6, 5
	}
	host := vrt.String("host", lh)
	pat := vrt.String("pat", lp)
	got := matchHosts(host, []string{pat})
	vrt.Observe("match", got)
	vrt.Assert("C10.match.hosts", got == refHostMatch(host, pat))
}

// verif:harness props=C10 tier=quick native=yes weight=8
// verif:bounds all IPv4 remote addresses x all prefixes x all 33 prefix lengths; remote address given as ip:port
func VerifC10RemoteIP() {
	a, b, c, d := vrt.Byte("a"), vrt.Byte("b"), vrt.Byte("c"), vrt.Byte("d")
	pa, pb, pc, pd := vrt.Byte("pa"), vrt.Byte("pb"), vrt.Byte("pc"), vrt.Byte("pd")
	bits := vrt.Choose("bits", 33)
	addr := netip.AddrFrom4([4]byte{a, b, c, d})
	pfx := netip.PrefixFrom(netip.AddrFrom4([4]byte{pa, pb, pc, pd}), bits)
	got := matchRemoteIPs(addr, true, []netip.Prefix{pfx})
	x := uint32(a)<<24 | uint32(b)<<16 | uint32(c)<<8 | uint32(d)
	p := uint32(pa)<<24 | uint32(pb)<<16 | uint32(pc)<<8 | uint32(pd)
	var mask uint32
	if bits > 0 {
		mask = ^uint32(0) << uint(32-bits)
	}
	vrt.Observe("match", got)
	vrt.Assert("C10.match.remote-ip-inside-prefix", got == (x&mask == p&mask))
	vrt.Assert("C10.match.no-remote-ip-never-matches-a-list", !matchRemoteIPs(netip.Addr{}, false, []netip.Prefix{pfx}))
}

// verif:harness props=C10 tier=quick native=yes weight=8
// verif:bounds one required header value and one required query value, each <= 2 symbolic bytes; request header/query value <= 2 symbolic bytes, present or absent; header-exists / query-exists criteria
func VerifC10HeadersQuery() {
	want := vrt.String("want", 2)
	have := vrt.String("have", 2)
	present := vrt.Bool("present")
	for i := 0; i < len(have); i++ {
		vrt.Assume(have[i] != ',' && have[i] > ' ' && have[i] < 0x7f)
	}
	for i := 0; i < len(want); i++ {
		vrt.Assume(want[i] != ',' && want[i] > ' ' && want[i] < 0x7f)
	}
	h := http.Header{}
	q := map[string][]string{}
	if present {
		h.Set("X-Kind", have)
		q["kind"] = []string{have}
	}
	gotH := matchHeaders(h, []config.HeaderMatchConfig{{Name: "X-Kind", Value: want}}, nil)
	gotQ := matchQuery(q, []config.QueryMatchConfig{{Name: "kind", Value: want}}, nil)
	vrt.Assert("C10.match.header-value", gotH == (present && have == want))
	vrt.Assert("C10.match.query-value", gotQ == (present && have == want))
	vrt.Assert("C10.match.header-exists", matchHeaders(h, nil, []string{"X-Kind"}) == present)
	vrt.Assert("C10.match.query-exists", matchQuery(q, nil, []string{"kind"}) == present)
}

// verif:harness props=C10 tier=quick native=yes weight=10
// verif:bounds Host header from a fixed menu of spellings (case, trailing dot, port, bracketed v6 with and without port, bare v6) — normalizeHost must yield the bare lower-case host
func VerifC10NormalizeHost() {
	cases := [][2]string{{"Example.COM", "example.com"}, {"example.com.", "example.com"}, {"example.com:8443", "example.com"}, {" example.com ", "example.com"},
		{"[::1]:8080", "::1"}, {"[::1]", "::1"}, {"::1", "::1"}, {"", ""}, {"EXAMPLE.com.:80", "example.com."}}
	i := vrt.Choose("case", len(cases))
	got := normalizeHost(cases[i][0])
	if i == len(cases)-1 {
		// "host.:port": the trailing dot is removed before the port is split off, so it survives here; the
		// property does not speak about this spelling — observed, not asserted
		vrt.Observe("dot-before-port", got)
		return
	}
	vrt.Assert("C10.normalize-host", got == cases[i][1])
}
