//go:build verif

package queue

// Differential validation of the SQL model (internal/verifsql) against the REAL modernc SQLite,
// run natively: the real SQLiteStore code executes every operation twice — once on a real database
// file, once on a store whose *sql.DB is backed by a database/sql driver that hands every statement
// to the model — on random small tables; return values and the full table must agree after every step.

import (
	"database/sql"
	"database/sql/driver"
	"errors"
	"fmt"
	"io"
	"math/rand"
	"os"
	"path/filepath"
	"strconv"
	"strings"
	"testing"
	"time"

	vsql "github.com/nuetzliches/hookaido/internal/verifsql"
)

type mdlDriver struct{}
type mdlConn struct{}
type mdlStmt struct{ q string }
type mdlRows struct {
	cols []string
	rows [][]vsql.Val
	pos  int
}
type mdlResult struct{ n int64 }

func (mdlDriver) Open(string) (driver.Conn, error)    { return mdlConn{}, nil }
func (mdlConn) Prepare(q string) (driver.Stmt, error) { return mdlStmt{q}, nil }
func (mdlConn) Close() error                          { return nil }
func (mdlConn) Begin() (driver.Tx, error)             { return nil, errors.New("driver-level transactions unused") }
func (mdlStmt) Close() error                          { return nil }
func (mdlStmt) NumInput() int                         { return -1 }
func (r mdlResult) LastInsertId() (int64, error)      { return 0, nil }
func (r mdlResult) RowsAffected() (int64, error)      { return r.n, nil }
func toAny(args []driver.Value) []any {
	out := make([]any, len(args))
	for i, a := range args {
		out[i] = a
	}
	return out
}
func (s mdlStmt) Exec(args []driver.Value) (driver.Result, error) {
	n, err := vsql.Exec(s.q, toAny(args))
	return mdlResult{n}, err
}
func (s mdlStmt) Query(args []driver.Value) (driver.Rows, error) {
	rows, ncols, _, err := vsql.Run(s.q, toAny(args))
	if err != nil {
		return nil, err
	}
	cols := make([]string, ncols)
	for i := range cols {
		cols[i] = "c" + strconv.Itoa(i)
	}
	return &mdlRows{cols: cols, rows: rows}, nil
}
func (r *mdlRows) Columns() []string { return r.cols }
func (r *mdlRows) Close() error      { return nil }
func (r *mdlRows) Next(dest []driver.Value) error {
	if r.pos >= len(r.rows) {
		return io.EOF
	}
	for i, v := range r.rows[r.pos] {
		switch {
		case v.Null:
			dest[i] = nil
		case v.IsInt:
			dest[i] = v.I
		default:
			dest[i] = v.S
		}
	}
	r.pos++
	return nil
}

func init() { sql.Register("verifsql-model", mdlDriver{}) }

type vRow struct {
	id, state  string
	recv, next int64
	attempt    int64
	leaseID    string
	leaseUntil int64
	hasLease   bool
	deadReason string
	hasDead    bool
}

func vDump(db *sql.DB) (string, error) {
	rows, err := db.Query(`SELECT id, state, received_at, attempt, next_run_at, lease_id, lease_until, dead_reason FROM queue_items ORDER BY id`)
	if err != nil {
		return "", err
	}
	defer rows.Close()
	out := ""
	for rows.Next() {
		var id, state string
		var recv, attempt, next int64
		var lease, dead sql.NullString
		var until sql.NullInt64
		if err := rows.Scan(&id, &state, &recv, &attempt, &next, &lease, &until, &dead); err != nil {
			return "", err
		}
		out += fmt.Sprintf("%s|%s|%d|%d|%d|%v|%v|%v\n", id, state, recv, attempt, next, vCanonLease(lease), until, dead)
	}
	return out, rows.Err()
}

// generated lease ids are random on the real side and counters on the model side: compare them as "GEN"
func vCanonLease(l sql.NullString) sql.NullString {
	if l.Valid && l.String != "L0" && l.String != "L1" && l.String != "L2" {
		l.String = "GEN"
	}
	return l
}

func vItems(r DequeueResponse, e error) string {
	out := fmt.Sprint(e)
	seen := map[string]bool{}
	for _, it := range r.Items {
		if it.LeaseID == "" || seen[it.LeaseID] {
			out += "|BAD-LEASE-ID"
		}
		seen[it.LeaseID] = true
		out += fmt.Sprintf("|%s,%s,%s,%s,%d,%d,%d,%q", it.ID, it.Route, it.Target, it.State, it.Attempt, it.ReceivedAt.UnixNano(), it.LeaseUntil.UnixNano(), it.Payload)
	}
	return out
}

func vList(items []Envelope, e error) string {
	out := fmt.Sprint(e != nil)
	for _, it := range items {
		out += fmt.Sprintf("|%s,%s,%s,%s,%d,%d,%d,%q,%v,%v,%d,%q", it.ID, it.Route, it.Target, it.State, it.Attempt, it.ReceivedAt.UnixNano(), it.NextRunAt.UnixNano(), it.Payload, it.Headers, it.Trace, it.SchemaVersion, it.DeadReason)
	}
	return out
}

func vStats(st Stats, e error) string {
	out := fmt.Sprint(e, st.Total, st.ByState, st.OldestQueuedReceivedAt.UnixNano(), st.EarliestQueuedNextRun.UnixNano(), st.OldestQueuedAge, st.ReadyLag)
	for _, b := range st.TopQueued {
		out += fmt.Sprintf("|%s,%s,%d,%d,%d,%v,%v", b.Route, b.Target, b.Queued, b.OldestQueuedReceivedAt.UnixNano(), b.EarliestQueuedNextRun.UnixNano(), b.OldestQueuedAge, b.ReadyLag)
	}
	return out
}

func vErr(e error) string {
	if e != nil && strings.Contains(e.Error(), "UNIQUE constraint") {
		return ErrEnvelopeExists.Error() // the real driver's typed constraint error is mapped by mapQueueInsertError
	}
	return fmt.Sprint(e)
}

func vDumpModel() string {
	out := ""
	rows := append([]*vsql.Row{}, vsql.Current.Rows...)
	// order by id
	for i := range rows {
		for j := i + 1; j < len(rows); j++ {
			if rows[j].V[0].S < rows[i].V[0].S {
				rows[i], rows[j] = rows[j], rows[i]
			}
		}
	}
	col := func(r *vsql.Row, name string) vsql.Val {
		for k, c := range vsql.Columns {
			if c == name {
				return r.V[k]
			}
		}
		return vsql.NullVal
	}
	for _, r := range rows {
		lease := sql.NullString{String: col(r, "lease_id").S, Valid: !col(r, "lease_id").Null}
		dead := sql.NullString{String: col(r, "dead_reason").S, Valid: !col(r, "dead_reason").Null}
		until := sql.NullInt64{Int64: col(r, "lease_until").I, Valid: !col(r, "lease_until").Null}
		lease = vCanonLease(lease)
		out += fmt.Sprintf("%s|%s|%d|%d|%d|%v|%v|%v\n", col(r, "id").S, col(r, "state").S, col(r, "received_at").I, col(r, "attempt").I, col(r, "next_run_at").I, lease, until, dead)
	}
	return out
}

func TestVerifSQLModelDifferential(t *testing.T) {
	seed := int64(1)
	if s := os.Getenv("VERIF_SEED"); s != "" {
		if n, err := strconv.ParseInt(s, 10, 64); err == nil {
			seed = n
		}
	}
	iters := 1500
	if os.Getenv("VERIF_TIER") == "thorough" {
		iters = 4000
	}
	rng := rand.New(rand.NewSource(seed))
	dir := t.TempDir()
	base := int64(1700000000) * 1e9
	steps, changed, refused := 0, 0, 0
	changedByOp := make([]int, 23)
	ranByOp := make([]int, 23)
	for it := 0; it < iters; it++ {
		now := time.Unix(0, base+int64(rng.Intn(7)))
		clock := func() time.Time { return now }
		real, err := NewSQLiteStore(filepath.Join(dir, fmt.Sprintf("d%d.db", it)), WithSQLiteNowFunc(clock), WithSQLiteCheckpointInterval(0))
		if err != nil {
			t.Fatal(err)
		}
		mdb, _ := sql.Open("verifsql-model", "")
		mdb.SetMaxOpenConns(1)
		model := &SQLiteStore{db: mdb, nowFn: clock, notify: make(chan struct{}), dropPolicy: "reject", metrics: newSQLiteRuntimeMetrics(), pollInterval: real.pollInterval}
		if rng.Intn(2) == 1 {
			real.deliveredRetentionMaxAge, model.deliveredRetentionMaxAge = time.Hour, time.Hour
		}
		if rng.Intn(2) == 1 {
			real.maxDepth = 1 + rng.Intn(3)
			if rng.Intn(2) == 1 {
				real.dropPolicy = "drop_oldest"
			}
			model.maxDepth, model.dropPolicy = real.maxDepth, real.dropPolicy
		}
		if rng.Intn(3) == 0 {
			// pruning on Enqueue/Dequeue: age-based for queued and dead, depth-based for the DLQ
			real.pruneInterval, real.retentionMaxAge, real.dlqRetentionMaxAge, real.dlqMaxDepth = 1, time.Duration(rng.Intn(4)), time.Duration(rng.Intn(4)), rng.Intn(2)
			model.pruneInterval, model.retentionMaxAge, model.dlqRetentionMaxAge, model.dlqMaxDepth = real.pruneInterval, real.retentionMaxAge, real.dlqRetentionMaxAge, real.dlqMaxDepth
		}
		vsql.Current = &vsql.DB{}
		states := []State{StateQueued, StateLeased, StateDelivered, StateDead, StateCanceled}
		n := 1 + rng.Intn(3)
		for i := 0; i < n; i++ {
			st := states[rng.Intn(5)]
			id := fmt.Sprintf("m%d", i)
			recv, next, attempt := base+int64(rng.Intn(5)), base+int64(rng.Intn(7)), int64(rng.Intn(3))
			route := []string{"r0", "r1"}[rng.Intn(2)]
			var lease, until, dead any
			if st == StateLeased {
				lease, until = fmt.Sprintf("L%d", i), base+int64(rng.Intn(7))
			}
			if st == StateDead {
				dead = "max_retries"
			}
			if _, err := real.db.Exec(`INSERT INTO queue_items (id, route, target, state, received_at, attempt, next_run_at, payload, headers_json, trace_json, schema_version, dead_reason, lease_id, lease_until) VALUES (?, ?, 't0', ?, ?, ?, ?, x'70', NULL, NULL, 1, ?, ?, ?)`,
				id, route, string(st), recv, attempt, next, dead, lease, until); err != nil {
				t.Fatal(err)
			}
			row := &vsql.Row{V: make([]vsql.Val, len(vsql.Columns))}
			set := func(c string, v vsql.Val) {
				for k, name := range vsql.Columns {
					if name == c {
						row.V[k] = v
					}
				}
			}
			nv := func(x any) vsql.Val {
				switch v := x.(type) {
				case nil:
					return vsql.NullVal
				case string:
					return vsql.Text(v)
				case int64:
					return vsql.Int(v)
				}
				return vsql.NullVal
			}
			set("id", vsql.Text(id))
			set("route", vsql.Text(route))
			set("target", vsql.Text("t0"))
			set("state", vsql.Text(string(st)))
			set("received_at", vsql.Int(recv))
			set("attempt", vsql.Int(attempt))
			set("next_run_at", vsql.Int(next))
			set("payload", vsql.Text("p"))
			set("headers_json", vsql.NullVal)
			set("trace_json", vsql.NullVal)
			set("schema_version", vsql.Int(1))
			set("dead_reason", nv(dead))
			set("lease_id", nv(lease))
			set("lease_until", nv(until))
			vsql.Current.Rows = append(vsql.Current.Rows, row)
		}
		leaseMenu := []string{"L0", "L1", "L2", "zz", "", " L0 "}
		idMenu := []string{"m0", "m1", "m2", " m0 ", "", "nope"}
		for step := 0; step < 3; step++ {
			now = now.Add(time.Duration(rng.Intn(3)))
			d := time.Duration(rng.Intn(5) - 1)
			l1, l2 := leaseMenu[rng.Intn(len(leaseMenu))], leaseMenu[rng.Intn(len(leaseMenu))]
			i1, i2 := idMenu[rng.Intn(len(idMenu))], idMenu[rng.Intn(len(idMenu))]
			op := rng.Intn(23)
			listState := []State{"", StateQueued, StateLeased, StateDead, StateCanceled, StateDelivered}[rng.Intn(6)]
			listOrder := []string{"", "asc", "desc", " ASC "}[rng.Intn(4)]
			listLimit := rng.Intn(4)
			var cursor time.Time
			if rng.Intn(2) == 1 {
				cursor = time.Unix(0, base+int64(rng.Intn(6)))
			}
			incP, incH, incT := rng.Intn(2) == 1, rng.Intn(2) == 1, rng.Intn(2) == 1
			manageState := []State{"", StateQueued, StateDead, StateCanceled, StateLeased}[rng.Intn(5)]
			preview := rng.Intn(4) == 0
			route := []string{"", "r0", "r1"}[rng.Intn(3)]
			batch := 1 + rng.Intn(3)
			newID := []string{"m0", "m1", "n1", "n2"}[rng.Intn(4)]
			if rng.Intn(2) == 1 {
				// make the next dequeue sweep expired leases (otherwise it does only once per poll interval)
				real.lastLeaseSweepNanos, model.lastLeaseSweepNanos = 0, 0
			}
			run := func(s *SQLiteStore) string {
				switch op {
				case 0:
					return fmt.Sprint(s.Ack(l1))
				case 1:
					return fmt.Sprint(s.Nack(l1, d))
				case 2:
					return fmt.Sprint(s.Extend(l1, d))
				case 3:
					return fmt.Sprint(s.MarkDead(l1, "why"))
				case 4:
					r, e := s.AckBatch([]string{l1, l2})
					return fmt.Sprint(r.Succeeded, len(r.Conflicts), e)
				case 5:
					r, e := s.NackBatch([]string{l1, l2}, d)
					return fmt.Sprint(r.Succeeded, len(r.Conflicts), e)
				case 6:
					r, e := s.MarkDeadBatch([]string{l1, l2}, "why")
					return fmt.Sprint(r.Succeeded, len(r.Conflicts), e)
				case 7:
					r, e := s.CancelMessages(MessageCancelRequest{IDs: []string{i1, i2}})
					return fmt.Sprint(r.Canceled, e)
				case 8:
					r, e := s.RequeueMessages(MessageRequeueRequest{IDs: []string{i1, i2}})
					return fmt.Sprint(r.Requeued, e)
				case 9:
					r, e := s.ResumeMessages(MessageResumeRequest{IDs: []string{i1, i2}})
					return fmt.Sprint(r.Resumed, e)
				case 10:
					r, e := s.RequeueDead(DeadRequeueRequest{IDs: []string{i1, i2}})
					return fmt.Sprint(r.Requeued, e)
				case 12, 13:
					return vItems(s.Dequeue(DequeueRequest{Route: route, Batch: batch, LeaseTTL: time.Duration(1 + rng.Intn(1))}))
				case 14:
					return vErr(s.Enqueue(Envelope{ID: newID, Route: "r0", Target: "t0", Payload: []byte("q")}))
				case 16:
					r, e := s.ListMessages(MessageListRequest{Route: route, State: listState, Order: listOrder, Limit: listLimit, Before: cursor, IncludePayload: incP, IncludeHeaders: incH, IncludeTrace: incT})
					return vList(r.Items, e)
				case 17:
					r, e := s.ListDead(DeadListRequest{Route: route, Limit: listLimit, Before: cursor, IncludePayload: incP, IncludeHeaders: incH, IncludeTrace: incT})
					return vList(r.Items, e)
				case 18:
					r, e := s.LookupMessages(MessageLookupRequest{IDs: []string{i1, i2, "m2"}})
					return fmt.Sprint(r.Items, e)
				case 19:
					st, e := s.Stats()
					return vStats(st, e)
				case 20:
					r, e := s.CancelMessagesByFilter(MessageManageFilterRequest{Route: route, State: manageState, Limit: listLimit, Before: cursor, PreviewOnly: preview})
					return fmt.Sprint(r, e != nil)
				case 21:
					r, e := s.RequeueMessagesByFilter(MessageManageFilterRequest{Route: route, State: manageState, Limit: listLimit, Before: cursor, PreviewOnly: preview})
					return fmt.Sprint(r, e != nil)
				case 22:
					r, e := s.ResumeMessagesByFilter(MessageManageFilterRequest{Route: route, State: manageState, Limit: listLimit, Before: cursor, PreviewOnly: preview})
					return fmt.Sprint(r, e != nil)
				case 15:
					n, e := s.EnqueueBatch([]Envelope{{ID: newID, Route: "r1", Target: "t0"}, {ID: "n3", Route: "r0", Target: "t0", Payload: []byte("zz")}})
					return fmt.Sprint(n) + vErr(e)
				}
				r, e := s.DeleteDead(DeadDeleteRequest{IDs: []string{i1, i2}})
				return fmt.Sprint(r.Deleted, e)
			}
			before := vDumpModel()
			a, b := run(real), run(model)
			steps++
			ranByOp[op]++
			if a != b {
				t.Fatalf("iteration %d step %d op %d args (%q,%q,%q,%q,%v): real SQLite answered %q, the model %q", it, step, op, l1, l2, i1, i2, d, a, b)
			}
			da, err := vDump(real.db)
			if err != nil {
				t.Fatal(err)
			}
			db := vDumpModel()
			if da != db {
				t.Fatalf("iteration %d step %d op %d: tables differ\nreal:\n%smodel:\n%s", it, step, op, da, db)
			}
			if db != before {
				changedByOp[op]++
				changed++
			} else {
				refused++
			}
		}
		real.Close()
	}
	for op, n := range changedByOp {
		if op >= 16 && op <= 19 {
			if ranByOp[op] == 0 {
				t.Fatalf("validation is vacuous: read operation %d never ran", op)
			}
			continue // listings, lookups and statistics read (they change the table only through pruning)
		}
		if n == 0 && op != 2 { // (Extend only moves lease_until forward; with these tiny tables it may or may not)
			t.Fatalf("validation is vacuous: operation %d never changed the table", op)
		}
	}
	if changed < iters/4 || refused < iters/4 {
		t.Fatalf("validation is vacuous: %d operations changed the table, %d left it alone", changed, refused)
	}
	t.Logf("VERIF-SQLMODEL-VALIDATION ok iterations=%d operations=%d (table-changing=%d per operation kind %v, no-change=%d) seed=%d", iters, steps, changed, changedByOp, refused, seed)
}
