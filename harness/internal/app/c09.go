//go:build verif

package app

import (
	"encoding/hex"
	"net/http"
	"time"

	"github.com/nuetzliches/hookaido/internal/config"
	vrt "github.com/nuetzliches/hookaido/internal/verifrt"
)

func hSignedRequest(ts, nonce string) (*http.Request, []byte) {
	body := []byte("b")
	bh := vrt.SHA256(body)
	canon := ts + "\n" + "POST" + "\n" + "/x" + "\n" + hex.EncodeToString(bh[:])
	mac := vrt.HMACSHA256([]byte("k0"), []byte(canon))
	return &http.Request{Method: "POST", Header: http.Header{"X-Signature": []string{hex.EncodeToString(mac[:])}, "X-Timestamp": []string{ts}, "X-Nonce": []string{nonce}}}, body
}

// verif:harness props=C09 tier=quick native=yes weight=10
// verif:bounds route /x with HMAC; a valid signed request, 0..2 successful configuration reloads (real reloadConfig, file/parse/compile stubbed to return the same configuration) after it or while it is in flight (authenticator fetched before, verified after), then the byte-identical replay; both arrive at arbitrary instants inside the tolerance window
func VerifC09ReplayAcrossReload() {
	c := config.Compiled{Routes: []config.CompiledRoute{{Path: "/x", AuthHMACSecrets: []string{"raw:k0"}, Pull: &config.PullConfig{Path: "/p"}}}, PathToRoute: map[string]string{"/p": "/x"}}
	state := newRuntimeState(c)
	if err := state.loadAuth(c); err != nil {
		vrt.Assume(false)
	}
	signed := time.Unix(1700000000, 0)
	t1, t2 := vrt.Time("t1"), vrt.Time("t2")
	vrt.Assume(!t1.Before(signed) && !t2.Before(t1) && t2.Before(signed.Add(5*time.Minute)))
	a1 := state.hmacAuthFor("/x")
	a1.Now = func() time.Time { return t1 }
	r1, body := hSignedRequest("1700000000", "n1")
	// the first request may be in flight while the reloads happen: it fetched its authenticator before them and verifies after
	inFlight := vrt.Bool("first-request-in-flight-during-the-reloads")
	var err1 error
	if !inFlight {
		err1 = a1.Verify(r1, "/x", body)
	}
	reloads := vrt.Choose("reloads", 3)
	running := c
	for i := 0; i < reloads; i++ {
		var ok bool
		running, ok = hReloadSame(running, state)
		vrt.Assert("C09.reload.reload-succeeds", ok)
	}
	if inFlight {
		err1 = a1.Verify(r1, "/x", body)
	}
	vrt.Assert("C09.reload.first-request-accepted", err1 == nil)
	a2 := state.hmacAuthFor("/x")
	a2.Now = func() time.Time { return t2 }
	r2, _ := hSignedRequest("1700000000", "n1")
	err2 := a2.Verify(r2, "/x", body)
	vrt.KnownFinding("C09-replay-after-reload", reloads > 0)
	vrt.Assert("C09.reload.replay-rejected-no-matter-how-many-reloads", err2 != nil)
}
