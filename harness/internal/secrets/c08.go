//go:build verif

package secrets

import (
	"os"

	vrt "github.com/nuetzliches/hookaido/internal/verifrt"
)

func hTrimASCII(s string) string {
	sp := func(c byte) bool { return c == ' ' || c == '\t' || c == '\n' || c == '\v' || c == '\f' || c == '\r' }
	i, j := 0, len(s)
	for i < j && sp(s[i]) {
		i++
	}
	for j > i && sp(s[j-1]) {
		j--
	}
	return s[i:j]
}

// verif:harness props=C08,C11 tier=quick weight=10
// verif:bounds secrets.LoadRef for file:, env: and raw: references: the file content / variable value is any ASCII string of 0..3 symbolic bytes (thorough 4) or the read fails; os.ReadFile and os.Getenv replaced by stubs: a reference never loads as an EMPTY secret (an empty key would make every signature or token comparison meaningless) — it is an error instead
func VerifC08SecretRefNeverLoadsAnEmptySecret() {
	l := 3
	if vrt.Thorough() {
		l = 4
	}
	content := vrt.String("content", l)
	for i := 0; i < len(content); i++ {
		vrt.Assume(content[i] < 0x80)
	}
	readFails := vrt.Bool("read-fails")
	vrt.Replace(os.ReadFile, func(name string) ([]byte, error) {
		if readFails {
			return nil, os.ErrNotExist
		}
		return []byte(content), nil
	})
	vrt.Replace(os.Getenv, func(name string) string { return content })
	kind := vrt.Choose("scheme", 3)
	var got []byte
	var err error
	switch kind {
	case 0:
		got, err = LoadRef("file:/run/secrets/hmac")
		if readFails {
			vrt.Assert("C08.secretref.unreadable-file-is-an-error", err != nil)
			return
		}
		want := hTrimASCII(content)
		vrt.Assert("C08.secretref.file-yields-its-trimmed-content-or-an-error", (err != nil && want == "") || (err == nil && string(got) == want))
	case 1:
		got, err = LoadRef("env:HOOKAIDO_SECRET")
		vrt.Assert("C08.secretref.env-yields-the-value-or-an-error", (err != nil && content == "") || (err == nil && string(got) == content))
	case 2:
		got, err = LoadRef("raw:" + content)
	}
	vrt.Assert("C08.secretref.never-an-empty-secret", err != nil || len(got) > 0)
}
