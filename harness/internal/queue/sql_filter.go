//go:build verif

package queue

import (
	vrt "github.com/nuetzliches/hookaido/internal/verifrt"
)

// verif:harness props=C14 tier=quick weight=60
// verif:bounds SQLiteStore cancel/requeue/resume BY FILTER over the SQL model, selection criteria: N=2 rows on routes r0/r1 in any state with arbitrary received_at; filter: route none/r0, target none/t0/t1, state from {none, queued, dead, canceled} (thorough all six), limit from {0,1}
func VerifC14SQLFilterCriteria() {
	sqlFilterCore(true)
}

// verif:harness props=C14 tier=quick weight=60
// verif:bounds SQLiteStore cancel/requeue/resume BY FILTER over the SQL model, ordering and cursors: N=2 rows in any state with arbitrary received_at incl. ties; before-cursor absent or arbitrary, limit from {0,1,1001} (thorough adds -1,2), preview_only on/off; newest-first selection with id tie-break
func VerifC14SQLFilterOrder() {
	sqlFilterCore(false)
}

func sqlFilterCore(criteria bool) {
	n := 2 // (thorough widens the filter menus)
	w, _ := qNew(n, false, criteria)
	pre := w.snap()
	op := vrt.Choose("op", 3) // mgCancel, mgRequeue, mgResume
	req := MessageManageFilterRequest{}
	hasBefore := false
	if criteria {
		if vrt.Choose("f.route", 2) == 1 {
			req.Route = "r0"
		}
		req.Target = []string{"", "t0", "t1"}[vrt.Choose("f.target", 3)]
		stateMenu := []State{"", StateQueued, StateDead, StateCanceled}
		if vrt.Thorough() {
			stateMenu = []State{"", StateQueued, StateLeased, StateDelivered, StateDead, StateCanceled}
		}
		req.State = stateMenu[vrt.Choose("f.state", len(stateMenu))]
		req.Limit = []int{0, 1}[vrt.Choose("f.limit", 2)]
	} else {
		limitMenu := []int{0, 1, 1001}
		if vrt.Thorough() {
			limitMenu = []int{-1, 0, 1, 2, 1001}
		}
		hasBefore = vrt.Choose("f.before", 2) == 1
		if hasBefore {
			req.Before = vrt.Time("before")
		}
		req.Limit = limitMenu[vrt.Choose("f.limit", len(limitMenu))]
		req.PreviewOnly = vrt.Choose("f.preview", 2) == 1
	}
	count, matched := 0, 0
	var err error
	switch op {
	case mgCancel:
		var r MessageCancelResponse
		r, err = w.s.CancelMessagesByFilter(req)
		count, matched = r.Canceled, r.Matched
	case mgRequeue:
		var r MessageRequeueResponse
		r, err = w.s.RequeueMessagesByFilter(req)
		count, matched = r.Requeued, r.Matched
	case mgResume:
		var r MessageResumeResponse
		r, err = w.s.ResumeMessagesByFilter(req)
		count, matched = r.Resumed, r.Matched
	}
	post := w.snap()
	vrt.Assert("C14.sql.filter.noerr", err == nil)
	limit := clampLimit(req.Limit)
	match := make([]bool, n)
	for i := 0; i < n; i++ {
		m := refManageAllowed(op, pre[i].state)
		if req.State != "" && pre[i].state != req.State {
			m = false
		}
		if req.Route != "" && pre[i].route != req.Route {
			m = false
		}
		if req.Target != "" && pre[i].target != req.Target {
			m = false
		}
		if hasBefore && !pre[i].receivedAt.Before(req.Before) {
			m = false
		}
		match[i] = m
	}
	selected := 0
	for i := 0; i < n; i++ {
		rank := 0
		for j := 0; j < n; j++ {
			if j == i || !match[j] {
				continue
			}
			newer := pre[j].receivedAt.After(pre[i].receivedAt)
			tie := pre[j].receivedAt.Equal(pre[i].receivedAt)
			if newer || (tie && pre[j].id > pre[i].id) {
				rank++
			}
		}
		sel := match[i] && rank < limit
		if sel {
			selected++
		}
		if sel && !req.PreviewOnly {
			vrt.Cover("sqlfilter.changed")
			vrt.Assert("C14.sql.filter.selected-changes", sameRow(refManageEffect(op, pre[i], w.now), post[i]))
		} else {
			vrt.Assert("C14.sql.filter.unselected-untouched", sameRow(pre[i], post[i]))
		}
	}
	if req.PreviewOnly {
		vrt.Assert("C14.sql.filter.preview-reports-what-a-run-would-match", count == 0 && matched == selected)
	} else {
		vrt.Assert("C14.sql.filter.count-equals-changed", count == selected && matched == selected)
	}
	vrt.Assert("C02.sql.inv.manage-filter", qInv(w))
}
