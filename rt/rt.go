// Package verifrt: nondeterministic inputs, assumptions and assertions for verification
// harnesses. The symbolic engine (gosym) intercepts every exported function of this package;
// the bodies below are the NATIVE TWIN: compiled with `go test -tags verif -overlay ...` they
// replay a recorded solver model (a JSON list with one record per nondet call, in call order)
// against the natively compiled real code.
package verifrt

import (
	"crypto/hmac"
	"crypto/sha256"
	"database/sql"
	"encoding/json"
	"fmt"
	"net/http"
	"os"
	"path/filepath"
	"sort"
	"strings"
	"testing"
	"time"
)

type Rec struct {
	K string `json:"k"`
	L string `json:"l"`
	V int64  `json:"v"`
	B []int  `json:"b,omitempty"`
}

type AssertRec struct {
	Label string `json:"label"`
	OK    bool   `json:"ok"`
}

type ObsRec struct {
	Label string  `json:"label"`
	V     []int64 `json:"v"`
}

// ReplayFile is what gosym writes for the native twin.
type ReplayFile struct {
	Harness  string `json:"harness"`
	Tier     string `json:"tier"`
	Script   []Rec  `json:"script"`
	Kind     string `json:"kind,omitempty"`
	Label    string `json:"label,omitempty"`
	Expect   *Outcome `json:"expect,omitempty"`
}

// Outcome is what one run of a harness produced.
type Outcome struct {
	Asserts  []AssertRec `json:"asserts"`
	Observes []ObsRec    `json:"observes"`
	Covers   []string    `json:"covers,omitempty"`
	Failed   string      `json:"failed,omitempty"` // label of the first failing assertion
	Panic    string      `json:"panic,omitempty"`
	AssumeViolated bool  `json:"assume_violated,omitempty"`
}

var (
	script   []Rec
	pos      int
	thorough bool
	out      *Outcome
)

type assertFailed struct{ label string }
type AssumptionViolated struct{}

func next(kind, label string) Rec {
	if pos >= len(script) {
		panic(fmt.Sprintf("verifrt: replay script exhausted at %s(%q)", kind, label))
	}
	r := script[pos]
	pos++
	if r.K != kind {
		panic(fmt.Sprintf("verifrt: replay divergence at #%d: script has %s(%q), harness asks %s(%q)", pos-1, r.K, r.L, kind, label))
	}
	return r
}

// RunScript runs fn natively against one recorded script.
func RunScript(s []Rec, tier string, fn func()) (res Outcome) {
	script, pos, thorough = s, 0, tier == "thorough"
	out = &res
	defer func() {
		out = nil
		if r := recover(); r != nil {
			switch r := r.(type) {
			case assertFailed:
				res.Failed = r.label
			case AssumptionViolated:
				res.AssumeViolated = true
			default:
				res.Panic = fmt.Sprint(r)
			}
		}
	}()
	fn()
	return
}

// RunReplays is called by the generated TestVerifReplay: it runs every replay file in
// $VERIF_REPLAY_DIR whose harness is in fns and writes <file>.out with the native outcome.
func RunReplays(t *testing.T, fns map[string]func()) {
	dir := os.Getenv("VERIF_REPLAY_DIR")
	if dir == "" {
		t.Skip("VERIF_REPLAY_DIR not set")
	}
	files, _ := filepath.Glob(filepath.Join(dir, "*.json"))
	sort.Strings(files)
	for _, f := range files {
		b, err := os.ReadFile(f)
		if err != nil {
			t.Fatal(err)
		}
		var rf ReplayFile
		if err := json.Unmarshal(b, &rf); err != nil {
			t.Fatalf("%s: %v", f, err)
		}
		fn := fns[rf.Harness]
		if fn == nil {
			continue
		}
		res := RunScript(rf.Script, rf.Tier, fn)
		ob, _ := json.Marshal(res)
		if err := os.WriteFile(strings.TrimSuffix(f, ".json")+".out", ob, 0o644); err != nil {
			t.Fatal(err)
		}
	}
}

// Thorough reports whether the thorough tier's bounds are in force (concrete in both worlds).
func Thorough() bool { return thorough }

func Int(label string) int           { return int(next("int", label).V) }
func Int64(label string) int64       { return next("int64", label).V }
func Byte(label string) byte         { return byte(next("byte", label).V) }
func Bool(label string) bool         { return next("bool", label).V != 0 }
func Choose(label string, n int) int { return int(next("choose", label).V) }

// String returns an arbitrary string of length 0..max (every byte value).
func String(label string, max int) string {
	r := next("string", label)
	b := make([]byte, len(r.B))
	for i, x := range r.B {
		b[i] = byte(x)
	}
	return string(b)
}

// StringN returns an arbitrary string of exactly n bytes.
func StringN(label string, n int) string { return String(label, n) }

// Bytes / BytesN: like String/StringN for []byte.
func Bytes(label string, max int) []byte { return []byte(String(label, max)) }
func BytesN(label string, n int) []byte  { return []byte(String(label, n)) }

// Time returns an arbitrary instant in [1970, ~2116]; Duration an arbitrary duration in (-2^62, 2^61).
func Time(label string) time.Time         { return time.Unix(0, next("time", label).V).UTC() }
func Duration(label string) time.Duration { return time.Duration(next("duration", label).V) }

func Assume(c bool) {
	if !c {
		panic(AssumptionViolated{})
	}
}

// Assert records the outcome; a failing assertion ends the native run.
func Assert(label string, c bool) {
	if out != nil {
		out.Asserts = append(out.Asserts, AssertRec{label, c})
	}
	if !c {
		panic(assertFailed{label})
	}
}

// Cover marks a point every harness run is expected to be able to reach (vacuity guard).
func Cover(label string) {
	if out != nil {
		out.Covers = append(out.Covers, label)
	}
}

// KnownFinding declares the discriminator of a recorded finding for the rest of the path.
func KnownFinding(id string, cond bool) {}

// Observe records a value for translator validation: the interpreter's prediction under the
// witness model must equal what the native run computes.
func Observe(label string, v any) {
	if out == nil {
		return
	}
	out.Observes = append(out.Observes, ObsRec{label, flatten(v)})
}

func flatten(v any) []int64 {
	switch x := v.(type) {
	case bool:
		if x {
			return []int64{1}
		}
		return []int64{0}
	case int:
		return []int64{int64(x)}
	case int64:
		return []int64{x}
	case int32:
		return []int64{int64(x)}
	case uint8:
		return []int64{int64(x)}
	case uint64:
		return []int64{int64(x)}
	case uint32:
		return []int64{int64(x)}
	case time.Duration:
		return []int64{int64(x)}
	case string:
		o := make([]int64, 0, len(x)+1)
		o = append(o, int64(len(x)))
		for i := 0; i < len(x); i++ {
			o = append(o, int64(x[i]))
		}
		return o
	case []byte:
		return flatten(string(x))
	case time.Time:
		if x.IsZero() {
			return []int64{0, 0}
		}
		return []int64{1, x.UnixNano()}
	case error:
		if x == nil {
			return []int64{0}
		}
		return []int64{1}
	case nil:
		return []int64{0}
	}
	panic(fmt.Sprintf("verifrt.Observe: unsupported type %T", v))
}

// Event / Trace: harness-visible event log (the engine also appends stub events).
var events []string

func Event(name string)  { events = append(events, name) }
func Trace() []string    { return events }
func ResetTrace()        { events = nil }

// ---- crypto as uninterpreted functions (engine) / real crypto (native) ----

// HMACModel stands in for crypto/hmac's hash.Hash; the engine maps hmac.New to it
// and treats HMACSHA256 / SHA256 as uninterpreted functions.
type HMACModel struct{ Key, Msg []byte }

func NewHMACModel(key []byte) *HMACModel {
	return &HMACModel{Key: append([]byte(nil), key...)}
}
func (h *HMACModel) Write(p []byte) (int, error) { h.Msg = append(h.Msg, p...); return len(p), nil }
func (h *HMACModel) Sum(b []byte) []byte {
	d := HMACSHA256(h.Key, h.Msg)
	return append(b, d[:]...)
}
func (h *HMACModel) Reset()         { h.Msg = nil }
func (h *HMACModel) Size() int      { return 32 }
func (h *HMACModel) BlockSize() int { return 64 }

func HMACSHA256(key, msg []byte) (out [32]byte) {
	m := hmac.New(sha256.New, key)
	m.Write(msg)
	copy(out[:], m.Sum(nil))
	return
}
func SHA256(data []byte) (out [32]byte) { return sha256.Sum256(data) }

// ---- int/real mode (float obligations) ----

func IntMode()                                     {}
func Float01(label string) float64                 { return float64(next("float", label).V) / (1 << 53) }
func FloatIn(label string, lo, hi float64) float64 { return lo }
func ExactBegin()                                  {}
func ExactEnd()                                    {}

// ---- engine-only facilities (harnesses that use them replay in the interpreter) ----

type SQLResult struct{ N int64 }

func (r SQLResult) LastInsertId() (int64, error) { return 0, nil }
func (r SQLResult) RowsAffected() (int64, error) { return r.N, nil }
func StubDB() *sql.DB                            { panic("verifrt.StubDB: engine only") }
func Pending(steps ...func())                    { panic("verifrt.Pending: engine only") }
func SQLModel()                                  { panic("verifrt.SQLModel: engine only") }
func Replace(fn any, with any)                   { panic("verifrt.Replace: engine only") }

// Nop is the no-op cancel function the engine hands out for context.WithTimeout/WithCancel.
func Nop() {}

// HTTPRequests returns the requests handed to the stubbed (*http.Client).Do (engine only).
func HTTPRequests() []*http.Request { panic("verifrt.HTTPRequests: engine only") }

// LastHTTPStatus returns the status the stubbed (*http.Client).Do answered last (engine only).
func LastHTTPStatus() int { panic("verifrt.LastHTTPStatus: engine only") }

// Go starts f as a second thread; Join runs it to completion. The engine interleaves the two threads
// at every mutex acquisition (engine only).
func Go(f func()) { panic("verifrt.Go: engine only") }
func Join()       { panic("verifrt.Join: engine only") }

// LockTrace lists every mutex acquisition so far as "<Lock|RLock>#<mutex number>@<thread A|B>" (engine only).
func LockTrace() []string { panic("verifrt.LockTrace: engine only") }

// JSONEncoded returns every value handed to a (*json.Encoder).Encode so far (engine only; the encoder is a stub).
func JSONEncoded() []any { panic("verifrt.JSONEncoded: engine only") }
