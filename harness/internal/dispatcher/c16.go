//go:build verif

package dispatcher

import (
	"context"
	"errors"
	"net"
	"net/http"
	"net/netip"
	"net/url"

	"github.com/nuetzliches/hookaido/internal/queue"

	vrt "github.com/nuetzliches/hookaido/internal/verifrt"
)

// ---- address classes (reference written from the property: loopback, RFC1918/ULA private,
// link-local, multicast, unspecified, broadcast are not public) ----

func refPublicV4(a, b, c, d byte) bool {
	switch {
	case a == 127:
		return false
	case a == 10, a == 172 && b&0xf0 == 16, a == 192 && b == 168:
		return false
	case a == 169 && b == 254:
		return false
	case a >= 224 && a <= 239:
		return false
	case a == 0 && b == 0 && c == 0 && d == 0:
		return false
	case a == 255 && b == 255 && c == 255 && d == 255:
		return false
	}
	return true
}

func refPublicV6(p [16]byte) bool {
	allZero := true
	for i := 0; i < 16; i++ {
		if p[i] != 0 {
			allZero = false
		}
	}
	if allZero {
		return false
	}
	lo := true
	for i := 0; i < 15; i++ {
		if p[i] != 0 {
			lo = false
		}
	}
	if lo && p[15] == 1 {
		return false
	}
	if p[0] == 0xff {
		return false
	}
	if p[0] == 0xfe && p[1]&0xc0 == 0x80 {
		return false
	}
	if p[0]&0xfe == 0xfc {
		return false
	}
	return true
}

// verif:harness props=C16 tier=quick native=yes weight=3
// verif:bounds all 2^32 IPv4 addresses, in 4-byte and in IPv4-mapped 16-byte form
func VerifC16IPv4Classes() {
	a, b, c, d := vrt.Byte("a"), vrt.Byte("b"), vrt.Byte("c"), vrt.Byte("d")
	var ip net.IP
	if vrt.Choose("form", 2) == 0 {
		ip = net.IP{a, b, c, d}
	} else {
		ip = net.IP{0, 0, 0, 0, 0, 0, 0, 0, 0, 0, 0xff, 0xff, a, b, c, d}
	}
	got := isAllowedIP(ip)
	vrt.Observe("allowed", got)
	vrt.Assert("C16.ip.v4-class", got == refPublicV4(a, b, c, d))
}

// verif:harness props=C16 tier=quick native=yes weight=3
// verif:bounds all 2^128 IPv6 addresses that are not IPv4-mapped
func VerifC16IPv6Classes() {
	var p [16]byte
	for i := range p {
		p[i] = vrt.Byte("p")
	}
	mapped := p[10] == 0xff && p[11] == 0xff
	for i := 0; i < 10; i++ {
		mapped = mapped && p[i] == 0
	}
	vrt.Assume(!mapped)
	got := isAllowedIP(net.IP(p[:]))
	vrt.Observe("allowed", got)
	vrt.Assert("C16.ip.v6-class", got == refPublicV6(p))
}

// refHostRule: exact host, "*", or "*.domain" for sub-domains only (never the apex, never a look-alike).
func refHostRule(host, ruleHost string, sub bool) bool {
	if ruleHost == "" || host == "" {
		return false
	}
	if ruleHost == "*" {
		return true
	}
	if !sub {
		return host == ruleHost
	}
	// host = <label(s)> "." ruleHost. (A host that starts with a dot is not a host name; the property does
	// not speak about it and the reference accepts the code's answer there by not demanding a non-empty label.)
	if len(host) < len(ruleHost)+1 {
		return false
	}
	off := len(host) - len(ruleHost)
	for i := 0; i < len(ruleHost); i++ {
		if host[off+i] != ruleHost[i] {
			return false
		}
	}
	return host[off-1] == '.'
}

// verif:harness props=C16 tier=quick native=yes weight=5
// verif:bounds host <= 5 bytes (thorough 7), rule host <= 3 bytes (thorough 4), every byte value, sub-domain flag symbolic
func VerifC16HostRule() {
	lh, lr := 5, 3
	if vrt.Thorough() {
		lh, lr = 7, 4
	}
	host := vrt.String("host", lh)
	rh := vrt.String("rule", lr)
	sub := vrt.Bool("subdomains")
	got := matchHostRule(host, EgressRule{Host: rh, Subdomains: sub})
	vrt.Observe("match", got)
	vrt.Assert("C16.rule.host", got == refHostRule(host, rh, sub))
}

// ---- policy function ----

type hResolver struct {
	ips   []net.IP
	err   error
	asked []string
}

func (r *hResolver) LookupIPAddr(ctx context.Context, host string) ([]net.IPAddr, error) {
	r.asked = append(r.asked, host)
	if r.err != nil {
		return nil, r.err
	}
	out := make([]net.IPAddr, len(r.ips))
	for i, ip := range r.ips {
		out[i] = net.IPAddr{IP: ip}
	}
	return out, nil
}

type hTarget struct {
	rawHost string // as written in the URL (with port / case / trailing dot / brackets)
	host    string // what the policy must look at: lower-cased, port and trailing dot stripped
	literal net.IP // non-nil when the host is an IP literal
}

var hTargets = []hTarget{
	{"a.example.com", "a.example.com", nil},
	{"EXAMPLE.com.:8443", "example.com", nil},
	{"evilexample.com", "evilexample.com", nil},
	{"10.0.0.7:80", "10.0.0.7", net.IP{10, 0, 0, 7}},
	{"[::1]:8080", "::1", net.ParseIP("::1")},
	{"93.184.216.34", "93.184.216.34", net.IP{93, 184, 216, 34}},
	{"", "", nil},
}

type hRule struct {
	rule EgressRule
	// reference matcher
	host string
	sub  bool
	cidr [4]byte
	bits int
	isC  bool
}

func hMkRules() []hRule {
	return []hRule{
		{rule: EgressRule{Host: "example.com"}, host: "example.com"},
		{rule: EgressRule{Host: "example.com", Subdomains: true}, host: "example.com", sub: true},
		{rule: EgressRule{IsCIDR: true, CIDR: netip.MustParsePrefix("10.0.0.0/8")}, isC: true, cidr: [4]byte{10, 0, 0, 0}, bits: 8},
		{rule: EgressRule{IsCIDR: true, CIDR: netip.MustParsePrefix("93.184.216.0/24")}, isC: true, cidr: [4]byte{93, 184, 216, 0}, bits: 24},
		{rule: EgressRule{Host: "*"}, host: "*"},
	}
}

func refRuleMatch(r hRule, host string, ips []net.IP) bool {
	if !r.isC {
		return refHostRule(host, r.host, r.sub)
	}
	for _, ip := range ips {
		v4 := ip.To4()
		if v4 == nil {
			continue
		}
		ok := true
		for i := 0; i < r.bits/8; i++ {
			if v4[i] != r.cidr[i] {
				ok = false
			}
		}
		if ok {
			return true
		}
	}
	return false
}

func refIPPublic(ip net.IP) bool {
	if v4 := ip.To4(); v4 != nil {
		return refPublicV4(v4[0], v4[1], v4[2], v4[3])
	}
	var p [16]byte
	copy(p[:], ip)
	return refPublicV6(p)
}

type hPolicyCase struct {
	u             *url.URL
	policy        EgressPolicy
	resolver      *hResolver
	allowed       bool // reference verdict
	resolveFailed bool
}

// hEnforcementCase: the full space in the thorough tier; in the quick tier a menu of representative
// verdicts (the policy function itself is compared against the reference on the full quick space by
// VerifC16Policy): allowed, https_only violation, deny rule hit, allow-list miss, rebind protection
// with an arbitrary resolved address, resolver failure.
// (the whole policy space multiplied by hops / havoc client answers exceeds the path limit in the thorough tier: the
// enforcement harnesses use the representative verdicts in both tiers; the policy function itself is compared with
// the reference on the whole space by VerifC16Policy)
func hEnforcementCase() hPolicyCase { return hEnforcementCaseIn(false) }

func hEnforcementCaseIn(wholeSpace bool) hPolicyCase {
	if wholeSpace {
		return hBuildPolicyCase()
	}
	rules := hMkRules()
	res := &hResolver{ips: []net.IP{{vrt.Byte("ip0"), vrt.Byte("ip1"), vrt.Byte("ip2"), vrt.Byte("ip3")}}}
	c := hPolicyCase{u: &url.URL{Scheme: "https", Host: "a.example.com", Path: "/hook"}, resolver: res, allowed: true}
	switch vrt.Choose("case", 7) {
	case 1:
		c.u.Scheme = "http"
		c.policy.HTTPSOnly = true
		c.allowed = false
	case 2:
		c.policy.Deny = []EgressRule{rules[1].rule} // *.example.com
		c.allowed = false
	case 3:
		c.policy.Allow = []EgressRule{rules[0].rule} // example.com only
		c.allowed = false
	case 4:
		c.policy.DNSRebindProtection = true
		ip := res.ips[0]
		c.allowed = refPublicV4(ip[0], ip[1], ip[2], ip[3])
	case 5:
		c.policy.DNSRebindProtection = true
		res.err = errors.New("no such host")
		c.allowed, c.resolveFailed = false, true
	case 6:
		c.u.Host = "10.0.0.7:80"
		c.policy.DNSRebindProtection = true
		c.allowed = false
	}
	return c
}

// hBuildPolicyCase draws a URL, a policy and a resolver behaviour and computes the reference verdict.
func hBuildPolicyCase() hPolicyCase {
	schemes := []string{"http", "HTTPS", "ftp"}
	targets := []hTarget{hTargets[0], hTargets[1], hTargets[3], hTargets[4]}
	rules := hMkRules()
	denyMenu := []int{-1, 0, 2}
	allowMenu := []int{-1, 1, 4}
	maxAnswers := 1
	if vrt.Thorough() {
		// (schemes x all host spellings x two resolver answers exceeded the path limit when the whole property was run
		// in the thorough tier; the thorough tier adds the remaining schemes only)
		schemes = []string{"http", "https", "HTTPS", "ftp", ""}
	}
	scheme := schemes[vrt.Choose("scheme", len(schemes))]
	tg := targets[vrt.Choose("target", len(targets))]
	pol := EgressPolicy{HTTPSOnly: vrt.Choose("https_only", 2) == 1, DNSRebindProtection: vrt.Choose("rebind", 2) == 1}
	var deny, allow []hRule
	if di := denyMenu[vrt.Choose("deny", len(denyMenu))]; di >= 0 {
		deny = append(deny, rules[di])
		pol.Deny = []EgressRule{rules[di].rule}
	}
	if ai := allowMenu[vrt.Choose("allow", len(allowMenu))]; ai >= 0 {
		allow = append(allow, rules[ai])
		pol.Allow = []EgressRule{rules[ai].rule}
	}
	res := &hResolver{}
	nips := 1 + vrt.Choose("answers", maxAnswers)
	for i := 0; i < nips; i++ {
		res.ips = append(res.ips, net.IP{vrt.Byte("ip0"), vrt.Byte("ip1"), vrt.Byte("ip2"), vrt.Byte("ip3")})
	}
	if vrt.Choose("resolver-fails", 2) == 1 {
		res.err = errors.New("no such host")
	}
	c := hPolicyCase{u: &url.URL{Scheme: scheme, Host: tg.rawHost, Path: "/hook"}, policy: pol, resolver: res}
	// ---- reference verdict (from the property text) ----
	lower := scheme == "http" || scheme == "https" || scheme == "HTTPS"
	isHTTPS := scheme == "https" || scheme == "HTTPS"
	ok := lower && (!pol.HTTPSOnly || isHTTPS) && tg.host != ""
	needIPs := pol.DNSRebindProtection
	for _, r := range append(append([]hRule{}, deny...), allow...) {
		if r.isC {
			needIPs = true
		}
	}
	var ips []net.IP
	if ok && needIPs {
		if tg.literal != nil {
			ips = []net.IP{tg.literal}
		} else if res.err != nil {
			c.resolveFailed = true
			ok = false
		} else {
			ips = res.ips
		}
	}
	if ok && pol.DNSRebindProtection {
		for _, ip := range ips {
			if !refIPPublic(ip) {
				ok = false
			}
		}
	}
	if ok {
		for _, r := range deny {
			if refRuleMatch(r, tg.host, ips) {
				ok = false
			}
		}
	}
	if ok && len(allow) > 0 {
		m := false
		for _, r := range allow {
			if refRuleMatch(r, tg.host, ips) {
				m = true
			}
		}
		ok = m
	}
	c.allowed = ok
	return c
}

// verif:harness props=C16 tier=quick native=yes weight=60
// verif:bounds quick: scheme from {http, HTTPS, ftp}; host from {name, upper case + trailing dot + port, private v4 literal with port, bracketed v6 loopback with port}; https_only / dns_rebind_protection on/off; deny from {none, exact host, 10/8}, allow from {none, *.domain, *}; resolver answers one arbitrary IPv4 address (all 2^32) or fails. thorough: schemes + {https, empty}
func VerifC16Policy() {
	c := hBuildPolicyCase()
	err := checkEgressPolicyURL(context.Background(), c.u, c.policy, c.resolver)
	vrt.Observe("allowed", err == nil)
	vrt.Assert("C16.policy.allows-exactly-what-the-rules-allow", (err == nil) == c.allowed)
	if err != nil && !c.resolveFailed {
		vrt.Assert("C16.policy.denial-is-ErrPolicyDenied", errors.Is(err, ErrPolicyDenied))
	}
}

// ---- enforcement: no request unless the policy allowed it; every redirect hop re-checked ----

// verif:harness props=C16,C06 tier=quick weight=8 tonly=C16
// verif:bounds quick: 7 representative verdicts (allowed, https_only violation, deny hit, allow-list miss, rebind with an arbitrary resolved IPv4 address, resolver failure, private IP literal) in both tiers; (*http.Client).Do is a havoc stub returning any status or a transport error
func VerifC16DeliverEnforces() {
	c := hEnforcementCaseIn(false) // (the whole policy space times the havoc client exceeds the path limit; the policy function itself is compared on the whole space by VerifC16Policy)
	if c.u.Host == "" {
		return
	}
	d := NewHTTPDeliverer(&http.Client{}, c.policy)
	d.Resolver = c.resolver
	res := d.Deliver(context.Background(), Delivery{URL: c.u.String(), Body: []byte("x"), Header: http.Header{}})
	sent := len(vrt.HTTPRequests())
	if c.allowed {
		vrt.Assert("C16.deliver.allowed-is-sent-once", sent == 1)
		okURL := false
		if sent == 1 {
			ru := vrt.HTTPRequests()[0].URL
			okURL = ru.Host == c.u.Host && ru.Path == c.u.Path
		}
		vrt.Assert("C16.deliver.sent-to-the-checked-url", okURL)
	} else {
		vrt.Assert("C16.deliver.denied-sends-nothing", sent == 0 && res.Err != nil)
		if !c.resolveFailed {
			vrt.Assert("C16.deliver.denied-is-policy_denied", errors.Is(res.Err, ErrPolicyDenied))
			vrt.Assert("C16.deliver.denied-is-not-retried", !shouldRetry(res) && !isSuccess(res))
		} else if len(c.policy.Deny) == 0 && len(c.policy.Allow) == 0 {
			// a name that could not be resolved is a transient network fault, not a verdict of the policy: it is retried
			vrt.Assert("C06.deliver.resolver-failure-is-retried-not-policy_denied", !errors.Is(res.Err, ErrPolicyDenied) && shouldRetry(res))
		}
	}
}

// verif:harness props=C16,C06 tier=quick weight=10
// verif:bounds a delivery whose first request is answered with a redirect to a hop the policy refuses (the 7 representative verdicts), 0 or 1 earlier hops: the client's refusal — the *url.Error net/http wraps around the CheckRedirect error — is handed back by the stubbed Do; classification with attempt and retry.max symbolic
func VerifC16DeniedRedirectHopIsPolicyDenied() {
	c := hEnforcementCase()
	c.policy.Redirects = true
	if c.allowed || c.resolveFailed || c.u.Host == "" {
		return
	}
	client := &http.Client{}
	first := EgressPolicy{Redirects: true}
	d := NewHTTPDeliverer(client, first)
	d.Policy = c.policy
	d.Resolver = c.resolver
	via := []*http.Request{{Method: "POST", URL: &url.URL{Scheme: "https", Host: "first.example.net", Path: "/a"}}}
	hop := (&http.Request{Method: "POST", URL: c.u}).WithContext(context.Background())
	refusal := client.CheckRedirect(hop, via)
	vrt.Assert("C16.redirect-hop.refused", refusal != nil && errors.Is(refusal, ErrPolicyDenied))
	if refusal == nil {
		return
	}
	// what (*http.Client).Do returns when CheckRedirect refuses (net/http: "a non-nil error ... wrapped in a url.Error")
	vrt.HTTPDoError(&url.Error{Op: "Post", URL: c.u.String(), Err: refusal})
	d.Policy = first // the first URL itself is fine
	res := d.Deliver(context.Background(), Delivery{URL: "https://first.example.net/a", Body: []byte("x"), Header: http.Header{}})
	vrt.Assert("C16.redirect-hop.delivery-result-is-a-policy-denial", errors.Is(res.Err, ErrPolicyDenied) && !shouldRetry(res) && !isSuccess(res))
	pd := &PushDispatcher{Store: &hStore{}, Deliverer: &hDeliverer{res: res}}
	attempt, max := vrt.Int("attempt"), vrt.Int("retry_max")
	vrt.Assume(attempt >= 1 && max >= 1)
	act := pd.classifyDelivery(nil, queue.Envelope{ID: "e1", Route: "/r", Target: "https://first.example.net/a", Attempt: attempt, LeaseID: "L"}, TargetConfig{URL: "https://first.example.net/a", Retry: RetryConfig{Max: max}})
	vrt.Assert("C16.redirect-hop.dead-lettered-as-policy_denied-without-retry", act.kind == leaseActionMarkDead && act.reason == "policy_denied")
}

// verif:harness props=C16,C06 tier=quick native=yes weight=10
// verif:bounds redirect hop URL/policy/resolver: the 7 representative verdicts of VerifC16DeliverEnforces (both tiers); 0..11 earlier hops; the previous hop is on the same host, on another host, or absent; redirects enabled or disabled
func VerifC16Redirects() {
	c := hEnforcementCase()
	redirects := vrt.Choose("redirects", 2) == 1
	c.policy.Redirects = redirects
	client := &http.Client{}
	d := NewHTTPDeliverer(client, c.policy)
	d.Resolver = c.resolver
	nvia := []int{0, 1, 9, 10, 11}[vrt.Choose("hops", 5)]
	via := make([]*http.Request, nvia)
	prevHost := c.u.Host
	if vrt.Choose("prev-hop-other-host", 2) == 1 {
		prevHost = "first.example.net"
	}
	for i := range via {
		via[i] = &http.Request{Method: "POST", URL: &url.URL{Scheme: "https", Host: prevHost, Path: "/a"}}
	}
	req := (&http.Request{Method: "POST", URL: c.u}).WithContext(context.Background())
	err := client.CheckRedirect(req, via)
	if !redirects {
		vrt.Assert("C16.redirect.disabled-never-follows", err == http.ErrUseLastResponse)
		return
	}
	followed := err == nil
	vrt.Assert("C16.redirect.hop-followed-only-if-policy-allows", !followed || (c.allowed && nvia < 10))
	vrt.Assert("C16.redirect.allowed-hop-is-followed", !(c.allowed && nvia < 10) || followed)
	if !c.allowed && nvia < 10 && !c.resolveFailed {
		vrt.Assert("C16.redirect.denied-hop-is-policy-denied", errors.Is(err, ErrPolicyDenied))
	}
}

// verif:harness props=C16 tier=quick weight=12
// verif:bounds TWO deliveries to the same URL through the same deliverer with dns_rebind_protection on (and optionally a CIDR deny rule): the name resolves to a public address for the first delivery and to an arbitrary IPv4 address (all 2^32) for the second (DNS rebinding between deliveries); the stubbed client answers 200
func VerifC16EveryDeliveryIsCheckedAfresh() {
	res := &hResolver{}
	pol := EgressPolicy{DNSRebindProtection: true}
	d := NewHTTPDeliverer(&http.Client{}, pol)
	d.Resolver = res
	a := net.IP{93, 184, 216, 34} // (public: the first delivery passes)
	b := net.IP{vrt.Byte("b0"), vrt.Byte("b1"), vrt.Byte("b2"), vrt.Byte("b3")}
	del := Delivery{URL: "https://a.example.com/hook", Body: []byte("x"), Header: http.Header{}}
	res.ips = []net.IP{a}
	r1 := d.Deliver(context.Background(), del)
	sent1 := len(vrt.HTTPRequests())
	ok1 := refPublicV4(a[0], a[1], a[2], a[3])
	vrt.Assert("C16.afresh.first-delivery-follows-its-own-resolution", (sent1 == 1) == ok1 && (ok1 || errors.Is(r1.Err, ErrPolicyDenied)))
	res.ips = []net.IP{b}
	r2 := d.Deliver(context.Background(), del)
	sent2 := len(vrt.HTTPRequests()) - sent1
	ok2 := refPublicV4(b[0], b[1], b[2], b[3])
	vrt.Assert("C16.afresh.second-delivery-is-checked-against-the-addresses-of-its-own-time", (sent2 == 1) == ok2 && (ok2 || errors.Is(r2.Err, ErrPolicyDenied)))
	vrt.Assert("C16.afresh.the-name-is-resolved-for-every-delivery", len(res.asked) == 2)
}
