//go:build verif

package queue

import (
	"time"

	vrt "github.com/nuetzliches/hookaido/internal/verifrt"
	vsql "github.com/nuetzliches/hookaido/internal/verifsql"
)

type tOutcome struct {
	errA, errB int
	idsA, idsB []string
	attA, attB []int
	countB     int
	rows       []mSnap
}

func tCloneDB(src *vsql.DB) *vsql.DB {
	out := &vsql.DB{}
	for _, r := range src.Rows {
		out.Rows = append(out.Rows, &vsql.Row{V: append([]vsql.Val(nil), r.V...)})
	}
	return out
}

func tErr(err error) int {
	switch err {
	case nil:
		return 0
	case ErrLeaseNotFound:
		return 1
	case ErrLeaseExpired:
		return 2
	case ErrQueueFull:
		return 3
	case ErrEnvelopeExists:
		return 4
	}
	return 5
}

// verif:harness props=C03,C04 tier=quick weight=300 tonly=C03
// verif:bounds two CONCURRENT store operations on one SQLiteStore over the SQL model (single pooled connection, modelled as a blocking resource; interleaved at every mutex and connection acquisition): thread A = Dequeue(batch 1), thread B = one of Dequeue(batch 1|2), Ack, Cancel by id (thorough adds Nack, MarkDead, Extend, Requeue by id, Enqueue); N=2 rows in state queued/leased (thorough: also canceled) with arbitrary timestamps; the outcome (both results and the final table, generated lease ids aside) must equal the outcome of running the two operations one after the other in one of the two orders on the same initial table
func VerifC03SQLConcurrentOps() {
	vrt.SQLModel()
	n := 2
	now := vrt.Time("now")
	vrt.Assume(now.UnixNano() > int64(time.Hour))
	states := []State{StateQueued, StateLeased}
	if vrt.Thorough() {
		states = []State{StateQueued, StateLeased, StateCanceled}
	}
	init := &vsql.DB{}
	for i := 0; i < n; i++ {
		st := states[vrt.Choose("state", len(states))]
		recv, next := vrt.Time("recv"), vrt.Time("next")
		row := &vsql.Row{V: make([]vsql.Val, len(vsql.Columns))}
		for c := range row.V {
			row.V[c] = vsql.NullVal
		}
		qSet(row, "id", vsql.Text(mIDs[i]))
		qSet(row, "route", vsql.Text("r0"))
		qSet(row, "target", vsql.Text("t0"))
		qSet(row, "state", vsql.Text(string(st)))
		qSet(row, "received_at", vsql.Int(recv.UnixNano()))
		qSet(row, "attempt", vsql.Int(1))
		qSet(row, "next_run_at", vsql.Int(next.UnixNano()))
		qSet(row, "payload", vsql.Text("p"))
		qSet(row, "schema_version", vsql.Int(1))
		if st == StateLeased {
			until := vrt.Time("until")
			qSet(row, "lease_id", vsql.Text(mLeases[i]))
			qSet(row, "lease_until", vsql.Int(until.UnixNano()))
			qSet(row, "next_run_at", vsql.Int(until.UnixNano()))
		}
		if st == StateDead {
			qSet(row, "dead_reason", vsql.Text("max_retries"))
		}
		init.Rows = append(init.Rows, row)
	}
	bA := 1
	nOps := 3
	if vrt.Thorough() {
		nOps = 8
	}
	opB := vrt.Choose("B-operation", nOps)
	bB := 1
	if opB == 0 {
		bB = 1 + vrt.Choose("B-batch", 2)
	}
	d := time.Duration(0)
	if opB == 3 || opB == 5 {
		d = vrt.Duration("d")
	}
	vrt.Replace(isSQLiteConstraintError, func(err error) bool { return err == vsql.ErrConstraint })
	newStore := func(db *vsql.DB) (*SQLiteStore, *qWorld) {
		vsql.Current = db
		s := &SQLiteStore{db: vrt.StubDB(), nowFn: func() time.Time { return now }, metrics: newSQLiteRuntimeMetrics(), notify: make(chan struct{}), dropPolicy: "reject"}
		return s, &qWorld{s: s, db: db, now: now, ids: mIDs[:n], n: n}
	}
	runA := func(s *SQLiteStore, o *tOutcome) {
		resp, err := s.Dequeue(DequeueRequest{Batch: bA, LeaseTTL: time.Minute})
		o.errA = tErr(err)
		for _, it := range resp.Items {
			o.idsA = append(o.idsA, it.ID)
			o.attA = append(o.attA, it.Attempt)
		}
	}
	runB := func(s *SQLiteStore, o *tOutcome) {
		switch opB {
		case 0:
			resp, err := s.Dequeue(DequeueRequest{Batch: bB, LeaseTTL: time.Minute})
			o.errB = tErr(err)
			for _, it := range resp.Items {
				o.idsB = append(o.idsB, it.ID)
				o.attB = append(o.attB, it.Attempt)
			}
		case 1:
			o.errB = tErr(s.Ack("L0"))
		case 2:
			r, err := s.CancelMessages(MessageCancelRequest{IDs: []string{"m0", "m1"}})
			o.errB, o.countB = tErr(err), r.Canceled
		case 3:
			o.errB = tErr(s.Nack("L0", d))
		case 4:
			o.errB = tErr(s.MarkDead("L0", "why"))
		case 5:
			o.errB = tErr(s.Extend("L0", d))
		case 6:
			r, err := s.RequeueMessages(MessageRequeueRequest{IDs: []string{"m0", "m1"}})
			o.errB, o.countB = tErr(err), r.Requeued
		case 7:
			o.errB = tErr(s.Enqueue(Envelope{ID: "m1", Route: "r0", Target: "t0", Payload: []byte("p")}))
		}
	}
	finish := func(w *qWorld, o *tOutcome) {
		o.rows = w.snap()
		for i := range o.rows {
			if l := o.rows[i].leaseID; l != "" && l != "L0" && l != "L1" {
				o.rows[i].leaseID = "generated"
			}
		}
	}
	// ---- the two operations concurrently ----
	var conc tOutcome
	sC, wC := newStore(tCloneDB(init))
	vrt.Go(func() { runB(sC, &conc) })
	runA(sC, &conc)
	vrt.Join()
	finish(wC, &conc)
	// ---- one after the other, both orders, on the same initial table ----
	var ab, ba tOutcome
	sAB, wAB := newStore(tCloneDB(init))
	runA(sAB, &ab)
	runB(sAB, &ab)
	finish(wAB, &ab)
	sBA, wBA := newStore(tCloneDB(init))
	runB(sBA, &ba)
	runA(sBA, &ba)
	finish(wBA, &ba)
	same := func(x, y *tOutcome) bool {
		ok := x.errA == y.errA && x.errB == y.errB && x.countB == y.countB && len(x.idsA) == len(y.idsA) && len(x.idsB) == len(y.idsB)
		if !ok {
			return false
		}
		for i := range x.idsA {
			ok = ok && x.idsA[i] == y.idsA[i] && x.attA[i] == y.attA[i]
		}
		for i := range x.idsB {
			ok = ok && x.idsB[i] == y.idsB[i] && x.attB[i] == y.attB[i]
		}
		for i := range x.rows {
			ok = ok && sameRow(x.rows[i], y.rows[i])
		}
		return ok
	}
	eqAB, eqBA := same(&conc, &ab), same(&conc, &ba)
	vrt.Assert("C03.sql.concurrent.outcome-equals-one-of-the-two-serial-orders", eqAB || eqBA)
	// and directly: no message is handed to both dequeues
	dup := false
	for _, a := range conc.idsA {
		for _, b := range conc.idsB {
			if a == b {
				dup = true
			}
		}
	}
	vrt.Assert("C03.sql.concurrent.no-message-is-handed-to-both-consumers", !dup)
	if len(conc.idsA) > 0 {
		vrt.Cover("sqlthreads.A-leased")
	}
}
