//go:build verif

package queue

import (
	"time"

	vrt "github.com/nuetzliches/hookaido/internal/verifrt"
)

type enqPre struct {
	active, activeDelivered, queued, retained int
}

func countPre(pre []mSnap) enqPre {
	var c enqPre
	for _, p := range pre {
		if !p.present {
			continue
		}
		switch p.state {
		case StateQueued:
			c.queued++
			c.active++
			c.activeDelivered++
		case StateLeased:
			c.active++
			c.activeDelivered++
		case StateDelivered:
			c.activeDelivered++
			c.retained++
		default:
			c.retained++
		}
	}
	return c
}

func mConfigureLimits(w *mWorld) (maxDepth int, dropOldest, retention bool, itemLimit int) {
	maxDepth = vrt.Choose("maxDepth", w.n+2) // 0 = unlimited
	dropOldest = vrt.Choose("policy", 2) == 1
	retention = vrt.Choose("deliveredRetention", 2) == 1
	itemLimit = vrt.Choose("pressureItemLimit", 3) // 0 = default floor (1000)
	w.s.maxDepth = maxDepth
	if dropOldest {
		w.s.dropPolicy = "drop_oldest"
	}
	if retention {
		w.s.deliveredRetentionMaxAge = time.Hour
	}
	w.s.memoryPressureItemLimit = itemLimit
	return
}

// needEvict: how many queued messages must go so that k new ones fit (0 when there is room).
func needEvict(c enqPre, maxDepth int, retention bool, k int) int {
	if maxDepth <= 0 {
		return 0
	}
	need := c.active + k - maxDepth
	if retention && c.activeDelivered+k-maxDepth > need {
		need = c.activeDelivered + k - maxDepth
	}
	if need < 0 {
		need = 0
	}
	return need
}

// checkEvictions asserts: exactly `want` pre-existing items are gone, all were queued, and they are
// the oldest queued ones in the backend's order (a prefix of the queued items in insertion order).
func checkEvictions(label string, pre, post []mSnap, want int) {
	gone := 0
	olderQueuedKept := false
	okPrefix := true
	okQueued := true
	for i := range pre {
		if !pre[i].present {
			continue
		}
		if post[i].present {
			vrt.Assert(label+".survivors-untouched", sameItem(pre[i], post[i]))
			if pre[i].state == StateQueued {
				olderQueuedKept = true
			}
			continue
		}
		gone++
		if pre[i].state != StateQueued {
			okQueued = false
		}
		if olderQueuedKept {
			okPrefix = false
		}
	}
	vrt.Assert(label+".evicts-only-queued-never-leased", okQueued)
	vrt.Assert(label+".evicts-oldest-first", okPrefix)
	vrt.Assert(label+".one-eviction-per-stored-message", gone == want)
}

// verif:harness props=C12,C02 tier=quick native=yes weight=35 tonly=C12
// verif:bounds N=2 pre-existing messages (thorough 3) in any state; max_depth in 0(unlimited)..N+1, reject|drop_oldest, delivered-retention on/off, memory-pressure item limit in {default,1,2}; new id from {existing ids, fresh id, empty (generated)}; precondition active<=max_depth (property's exclusion); pruning disabled here (see VerifC02Prune)
func VerifC12Enqueue() {
	n := 2
	if vrt.Thorough() {
		n = 3
	}
	w := mNew(n, mOpts{})
	maxDepth, dropOldest, retention, itemLimit := mConfigureLimits(w)
	pre := w.snap()
	c := countPre(pre)
	if maxDepth > 0 {
		vrt.Assume(c.active <= maxDepth)
		if retention {
			vrt.Assume(c.activeDelivered <= maxDepth)
		}
	}
	idMenu := []string{"m0", "m1", "new", ""}
	id := idMenu[vrt.Choose("id", len(idMenu))]
	env := Envelope{ID: id, Route: "rN", Target: "tN", Payload: []byte{vrt.Byte("newpayload")}, Headers: map[string]string{"X-H": string([]byte{vrt.Byte("newhdr")})}}
	givenRecv := vrt.Bool("recv-given")
	if givenRecv {
		env.ReceivedAt = vrt.Time("newrecv")
	}
	err := w.s.Enqueue(env)
	post := w.snap()
	exists := false
	for i := range pre {
		if pre[i].present && pre[i].id == id {
			exists = true
		}
	}
	need := needEvict(c, maxDepth, retention, 1)
	// recorded finding (see /verif/known_findings.json): memory Enqueue under drop_oldest evicts first and
	// may then refuse (duplicate id / memory pressure / not enough queued messages to evict)
	vrt.KnownFinding("C12-mem-enqueue-evicts-then-refuses", dropOldest && need > 0 && err != nil)
	if err != nil {
		vrt.Cover("enqueue.refused")
		for i := range pre {
			vrt.Assert("C12.enqueue.refused-changes-nothing", sameItem(pre[i], post[i]))
		}
		vrt.Assert("C12.enqueue.refused-stores-nothing", len(w.s.items) == c.active+c.retained-0 && (exists || w.s.items[id] == nil))
		vrt.Assert("C02.inv.enqueue-refused", w.inv())
		limit := itemLimit
		if limit == 0 {
			limit = 1000
			if maxDepth <= 0 {
				limit = 0
			}
		}
		pressure := limit > 0 && c.retained >= limit
		full := need > 0 && (!dropOldest || c.queued < need)
		vrt.Assert("C12.enqueue.refusal-has-a-reason", (err == ErrQueueFull && need > 0) || (err == ErrEnvelopeExists && exists) || (err == ErrMemoryPressure && pressure))
		_ = full
		return
	}
	vrt.Cover("enqueue.stored")
	// admitted
	vrt.Assert("C12.enqueue.admitted-only-with-room", need == 0 || dropOldest)
	// a duplicate id is admitted only when the message that carried it is the one drop_oldest evicted
	// (what SQLite's DELETE-then-INSERT transaction does as well); otherwise it must have been refused
	evictedSelf := false
	for i := range pre {
		if pre[i].present && pre[i].id == id && !post[i].present {
			evictedSelf = true
		}
	}
	_ = evictedSelf
	replaced := exists && dropOldest && need > 0
	vrt.Assert("C12.enqueue.not-duplicate", !exists || replaced)
	var stored *Envelope
	extra := 0
	if replaced {
		// the evicted oldest message carried the same id: the slot now holds the new message
		stored = w.s.items[id]
		extra = 1
		for i := range pre {
			if pre[i].id == id {
				post[i] = mSnap{}
			}
		}
	} else {
		for k, e := range w.s.items {
			isOld := false
			for _, o := range w.ids {
				if k == o {
					isOld = true
				}
			}
			if !isOld {
				extra++
				stored = e
			}
		}
	}
	vrt.Assert("C12.enqueue.exactly-one-new", extra == 1 && stored != nil)
	if stored == nil {
		return
	}
	s1 := stored.State == StateQueued && stored.Route == "rN" && stored.Target == "tN" && stored.LeaseID == "" && stored.Attempt == 0
	s2 := len(stored.Payload) == 1 && stored.Payload[0] == env.Payload[0] && stored.Headers["X-H"] == env.Headers["X-H"] && len(stored.Headers) == 1
	s3 := id == "" || stored.ID == id
	vrt.Assert("C02.enqueue.stored-as-given", s1 && s2 && s3)
	if givenRecv {
		vrt.Assert("C02.enqueue.timestamps", stored.ReceivedAt.Equal(env.ReceivedAt) && stored.NextRunAt.Equal(env.ReceivedAt))
	} else {
		vrt.Assert("C02.enqueue.timestamps", stored.ReceivedAt.Equal(w.now) && stored.NextRunAt.Equal(w.now))
	}
	checkEvictions("C12.enqueue", pre, post, need)
	if maxDepth > 0 {
		vrt.Assert("C12.enqueue.depth-respected", w.s.activeCountLocked() <= maxDepth)
	}
	vrt.Assert("C02.inv.enqueue", w.inv())
	vrt.Observe("err", err)
}

// verif:harness props=C12,C15 tier=quick native=yes weight=70 tonly=C12
// verif:bounds N=2 pre-existing messages (thorough 3); batch of 1..2 envelopes (thorough ..3) with ids from {existing, fresh a, fresh b, empty}, so duplicates inside the batch and against the queue occur; same limits space as VerifC12Enqueue
func VerifC12EnqueueBatch() {
	n, kmax := 2, 2
	if vrt.Thorough() {
		n, kmax = 3, 3
	}
	w := mNew(n, mOpts{})
	maxDepth, dropOldest, retention, _ := mConfigureLimits(w)
	pre := w.snap()
	c := countPre(pre)
	if maxDepth > 0 {
		vrt.Assume(c.active <= maxDepth)
		if retention {
			vrt.Assume(c.activeDelivered <= maxDepth)
		}
	}
	k := 1 + vrt.Choose("k", kmax)
	idMenu := []string{"m0", "a", "b", ""}
	batch := make([]Envelope, k)
	dup := false
	for j := range batch {
		id := idMenu[vrt.Choose("id", len(idMenu))]
		batch[j] = Envelope{ID: id, Route: "rN", Target: "tN", Payload: []byte{vrt.Byte("newpayload")}}
		if id == "m0" && pre[0].present {
			dup = true
		}
		for q := 0; q < j; q++ {
			if id != "" && batch[q].ID == id {
				dup = true
			}
		}
	}
	got, err := w.s.EnqueueBatch(batch)
	post := w.snap()
	need := needEvict(c, maxDepth, retention, k)
	vrt.KnownFinding("C12-mem-enqueue-evicts-then-refuses", dropOldest && need > 0 && err != nil)
	if err != nil {
		vrt.Cover("batch.refused")
		vrt.Assert("C12.batch.refused-count-zero", got == 0)
		for i := range pre {
			vrt.Assert("C12.batch.refused-changes-nothing", sameItem(pre[i], post[i]))
		}
		vrt.Assert("C12.batch.refused-stores-nothing", len(w.s.items) == c.active+c.retained)
		vrt.Assert("C02.inv.batch-refused", w.inv())
		return
	}
	vrt.Cover("batch.stored")
	vrt.Assert("C12.batch.all-stored", got == k && !dup)
	vrt.Assert("C12.batch.admitted-only-with-room", need == 0 || dropOldest)
	newCount := 0
	okShape := true
	for key, e := range w.s.items {
		isOld := false
		for _, o := range w.ids {
			if key == o {
				isOld = true
			}
		}
		if !isOld {
			newCount++
			if e.State != StateQueued || e.Route != "rN" || e.LeaseID != "" || len(e.Payload) != 1 {
				okShape = false
			}
		}
	}
	vrt.Assert("C12.batch.exactly-k-new", newCount == k && okShape)
	for j := range batch {
		if batch[j].ID != "" {
			e := w.s.items[batch[j].ID]
			vrt.Assert("C02.batch.payload-as-given", e != nil && e.Payload[0] == batch[j].Payload[0])
		}
	}
	checkEvictions("C12.batch", pre, post, need)
	if maxDepth > 0 {
		vrt.Assert("C12.batch.depth-respected", w.s.activeCountLocked() <= maxDepth)
	}
	vrt.Assert("C02.inv.batch", w.inv())
}

// verif:harness props=C02 tier=quick native=yes weight=20
// verif:bounds MemoryStore.Enqueue and EnqueueBatch(1..2) from ANY state of N=2 messages (thorough 3) — including states in which requeue/resume has lifted the active count above max_depth — with max_depth 0..N+1, reject|drop_oldest, delivered-retention on/off, memory-pressure item limit {default,1,2}, ids from {existing, fresh}: a call that reports an error has changed nothing
func VerifC02RefusedEnqueueChangesNothingFromAnyState() {
	n := 2
	if vrt.Thorough() {
		n = 3
	}
	w := mNew(n, mOpts{})
	mConfigureLimits(w)
	pre := w.snap()
	mk := func(tag string) Envelope {
		id := []string{"m0", "m1", "new1", "new2"}[vrt.Choose(tag, 4)]
		return Envelope{ID: id, Route: "rN", Target: "tN", Payload: []byte("q")}
	}
	var err error
	stored := 0
	if vrt.Bool("batch") {
		items := []Envelope{mk("id-1")}
		if vrt.Bool("two-items") {
			items = append(items, mk("id-2"))
		}
		stored, err = w.s.EnqueueBatch(items)
	} else {
		err = w.s.Enqueue(mk("id-1"))
	}
	if err == nil {
		vrt.Cover("anystate.stored")
		return
	}
	vrt.Cover("anystate.refused")
	post := w.snap()
	for i := range pre {
		vrt.Assert("C02.enqueue.a-refused-call-changes-nothing-from-any-state", sameItem(pre[i], post[i]))
	}
	vrt.Assert("C02.enqueue.a-refused-call-stores-nothing", stored == 0 && w.s.items["new1"] == nil && w.s.items["new2"] == nil)
	vrt.Assert("C02.inv.enqueue-refused-any-state", w.inv())
}
