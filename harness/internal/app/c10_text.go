//go:build verif

package app

import (
	"net/http"
	"net/url"
	"strings"

	"github.com/nuetzliches/hookaido/internal/config"
	vrt "github.com/nuetzliches/hookaido/internal/verifrt"
)

// verif:harness props=C10 tier=quick native=yes weight=90
// verif:bounds END TO END from configuration text with NAMED MATCHERS: @shared with 1..4 hosts (thorough 1..6) and an optional method list, @t1 and @t2 with one host each; two routes /r1 and /r2, each declaring its criteria as one of {@shared, @shared @tN, @tN, @tN @shared, inline match block with the same hosts, no match}; real Parse -> Compile -> newRuntimeState -> resolveIngress/allowedMethodsFor; request path /r1 or /r2, host from the 9 declared/undeclared names, method POST or GET
func VerifC10NamedMatchersFromText() {
	maxShared := 4
	if vrt.Thorough() {
		maxShared = 6
	}
	pool := []string{"a.example.com", "b.example.com", "c.example.com", "d.example.com", "e.example.com", "f.example.com"}
	k := 1 + vrt.Choose("shared-hosts", maxShared)
	shared := pool[:k]
	sharedGET := vrt.Choose("shared-methods-get-put", 2) == 1
	var b strings.Builder
	b.WriteString("pull_api {\n  auth token \"raw:t\"\n}\n@shared {\n")
	for _, h := range shared {
		b.WriteString("  host \"" + h + "\"\n")
	}
	if sharedGET {
		b.WriteString("  method GET\n  method PUT\n")
	}
	b.WriteString("}\n@t1 {\n  host \"t1.example.com\"\n}\n@t2 {\n  host \"t2.example.com\"\n}\n")
	type decl struct {
		hosts   []string
		methods []string
		any     bool
	}
	decls := make([]decl, 2)
	for i := 0; i < 2; i++ {
		tn, th := []string{"@t1", "@t2"}[i], []string{"t1.example.com", "t2.example.com"}[i]
		form := vrt.Choose("route-match-form", 6)
		d := decl{}
		line := ""
		switch form {
		case 0:
			line, d.hosts = "  match @shared\n", append([]string{}, shared...)
		case 1:
			line, d.hosts = "  match @shared "+tn+"\n", append(append([]string{}, shared...), th)
		case 2:
			line, d.hosts = "  match "+tn+"\n", []string{th}
		case 3:
			line, d.hosts = "  match "+tn+" @shared\n", append([]string{th}, shared...)
		case 4:
			line = "  match {\n"
			for _, h := range shared {
				line += "    host \"" + h + "\"\n"
			}
			line += "    host \"" + th + "\"\n  }\n"
			d.hosts = append(append([]string{}, shared...), th)
		default:
			d.any = true
		}
		if sharedGET && (form == 0 || form == 1 || form == 3) {
			d.methods = []string{"GET", "PUT"}
		}
		decls[i] = d
		name := []string{"r1", "r2"}[i]
		b.WriteString("\"/" + name + "\" {\n" + line + "  pull {\n    path \"/p" + name + "\"\n  }\n}\n")
	}
	cfg, err := config.Parse([]byte(b.String()))
	vrt.Assert("C10.text.parses", err == nil)
	if err != nil {
		return
	}
	compiled, res := config.Compile(cfg)
	vrt.Assert("C10.text.compiles", res.OK)
	if !res.OK {
		return
	}
	state := newRuntimeState(compiled)
	target := vrt.Choose("request-route", 2)
	reqPath := []string{"/r1", "/r2"}[target]
	hosts := append(append([]string{}, pool...), "t1.example.com", "t2.example.com", "zz.example.com")
	host := hosts[vrt.Choose("request-host", len(hosts))]
	method := []string{"POST", "GET"}[vrt.Choose("request-method", 2)]
	r := &http.Request{Method: method, URL: &url.URL{Path: reqPath}, Header: http.Header{}, RemoteAddr: "1.2.3.4:5", Host: host}
	got, ok := state.resolveIngress(r, reqPath)
	d := decls[target]
	hostOK := d.any
	for _, h := range d.hosts {
		if h == host {
			hostOK = true
		}
	}
	methodOK := method == "POST"
	if len(d.methods) > 0 {
		methodOK = method == "GET" || method == "PUT"
	}
	want := hostOK && methodOK
	vrt.Assert("C10.text.route-accepts-exactly-the-hosts-and-methods-it-declares", ok == want && (!ok || got == reqPath))
	if want {
		vrt.Cover("c10text.accepted")
	} else {
		vrt.Cover("c10text.refused")
	}
}
