//go:build verif

package ingress

import (
	"encoding/hex"
	"net/http"
	"time"

	vrt "github.com/nuetzliches/hookaido/internal/verifrt"
)

// hSigned builds a correctly signed request for (ts, nonce) under the secret "k0".
// (Concrete inputs: the engine computes real SHA-256/HMAC for them, so this harness replays natively.)
func hSigned(ts, nonce string) (*http.Request, string, []byte) {
	method, path, body := "POST", "/a", []byte("b")
	bh := vrt.SHA256(body)
	canon := ts + "\n" + method + "\n" + path + "\n" + hex.EncodeToString(bh[:])
	mac := vrt.HMACSHA256([]byte("k0"), []byte(canon))
	r := &http.Request{Method: method, Header: http.Header{"X-Signature": []string{hex.EncodeToString(mac[:])}, "X-Timestamp": []string{ts}, "X-Nonce": []string{nonce}}}
	return r, path, body
}

// hClock: every reading is an arbitrary instant not earlier than the previous one.
func hClock(a *HMACAuth) *[]time.Time {
	var readings []time.Time
	last := vrt.Time("t0")
	a.Now = func() time.Time {
		t := vrt.Time("clock")
		vrt.Assume(!t.Before(last))
		last = t
		readings = append(readings, t)
		return t
	}
	return &readings
}

// verif:harness props=C09 tier=quick native=yes weight=10
// verif:bounds one valid signed request (timestamp 1700000000 s, tolerance 5 min) and a byte-identical replay; 0..2 other valid requests with other nonces in between; EVERY clock reading (the code reads the clock more than once per request) is an arbitrary non-decreasing instant, including ts+tol to the nanosecond
func VerifC09ReplayRejected() {
	a := NewHMACAuth([][]byte{[]byte("k0")})
	readings := hClock(a)
	ts := "1700000000"
	exp := time.Unix(1700000000, 0).Add(a.Tolerance)
	r1, path, body := hSigned(ts, "n1")
	err1 := a.Verify(r1, path, body)
	between := vrt.Choose("others-between", 3)
	for i := 0; i < between; i++ {
		ro, p, b := hSigned(ts, []string{"o1", "o2"}[i])
		a.Verify(ro, p, b)
	}
	n1 := len(*readings)
	r2, _, _ := hSigned(ts, "n1")
	err2 := a.Verify(r2, path, body)
	rs := *readings
	// recorded findings (discriminators over the clock readings of the replayed request):
	//  - boundary: a reading of the replay equals ts+tol exactly (tolerance test passes at d == tol, the nonce entry is purged at now >= exp)
	//  - double read: the tolerance test and the nonce lookup of one request read the clock separately and straddle ts+tol
	atBoundary, straddle := false, false
	if len(rs) > n1 {
		first := rs[n1]
		lastR := rs[len(rs)-1]
		atBoundary = first.Equal(exp) || lastR.Equal(exp)
		straddle = !first.After(exp) && lastR.After(exp)
	}
	vrt.KnownFinding("C09-replay-at-exact-window-end", atBoundary)
	vrt.KnownFinding("C09-replay-double-clock-read", straddle)
	vrt.Assert("C09.replay.same-nonce-and-timestamp-accepted-at-most-once", !(err1 == nil && err2 == nil))
	if err1 == nil {
		vrt.Cover("replay.first-accepted")
	}
}

// verif:harness props=C09 tier=quick native=yes weight=10
// verif:bounds first request (nonce n1, timestamp 1700000000) accepted; second request with the SAME nonce under another validly signed timestamp (1700000060) arriving while the first request's window is still open; every clock reading arbitrary non-decreasing
func VerifC09SameNonceOtherTimestamp() {
	a := NewHMACAuth([][]byte{[]byte("k0")})
	readings := hClock(a)
	exp1 := time.Unix(1700000000, 0).Add(a.Tolerance)
	r1, path, body := hSigned("1700000000", "n1")
	err1 := a.Verify(r1, path, body)
	r2, _, _ := hSigned("1700000060", "n1")
	err2 := a.Verify(r2, path, body)
	rs := *readings
	lastR := rs[len(rs)-1]
	if err1 == nil && lastR.Before(exp1) {
		// the whole second request is processed strictly inside the first one's window
		vrt.Assert("C09.nonce.reuse-within-open-window-rejected", err2 != nil)
	}
}

// verif:harness props=C09 tier=quick native=yes weight=10
// verif:bounds nonce cache with 0..2 arbitrary other entries (arbitrary expiry) plus an entry (n, e); one seenOnce call for another or the same nonce at an arbitrary instant: inductive step for "an entry survives while now < e and blocks its nonce"
func VerifC09NonceCacheStep() {
	now := vrt.Time("now")
	c := newNonceCache(func() time.Time { return now })
	k := vrt.Choose("other-entries", 3)
	for i := 0; i < k; i++ {
		c.m[[]string{"x1", "x2"}[i]] = vrt.Time("exp-other")
	}
	e := vrt.Time("exp-n")
	c.m["n"] = e
	which := []string{"n", "x1", "fresh"}[vrt.Choose("presented", 3)]
	newExp := vrt.Time("new-exp")
	ok := c.seenOnce(which, newExp)
	if now.Before(e) {
		if which == "n" {
			vrt.Assert("C09.cache.live-entry-blocks-its-nonce", !ok)
		}
		got, present := c.m["n"]
		vrt.Assert("C09.cache.live-entry-survives-any-call", present && got.Equal(e))
	}
	if which == "fresh" {
		vrt.Assert("C09.cache.unseen-nonce-is-admitted-and-recorded", ok && c.m["fresh"].Equal(newExp))
	}
}

// verif:harness props=C09 tier=quick weight=15
// verif:bounds two CONCURRENT requests carrying the same nonce and signed timestamp (both valid), run as two interpreted threads interleaved at every mutex acquisition; one fixed clock inside the tolerance
func VerifC09ConcurrentDuplicates() {
	a := NewHMACAuth([][]byte{[]byte("k0")})
	now := time.Unix(1700000010, 0)
	a.Now = func() time.Time { return now }
	r1, path, body := hSigned("1700000000", "n1")
	r2, _, _ := hSigned("1700000000", "n1")
	var err2 error
	vrt.Go(func() { err2 = a.Verify(r2, path, body) })
	err1 := a.Verify(r1, path, body)
	vrt.Join()
	vrt.Assert("C09.concurrent.duplicates-accepted-at-most-once", !(err1 == nil && err2 == nil))
	vrt.Assert("C09.concurrent.one-of-them-is-accepted", err1 == nil || err2 == nil)
}

// verif:harness props=C09 tier=quick native=yes weight=30
// verif:bounds a nonce cache that already holds M = 10 000 other LIVE nonces (concrete, same far expiry) plus the entry (n, e) with e arbitrary; one more seenOnce call for a fresh nonce or for n itself at an arbitrary instant: the entry n survives while now < e and blocks its nonce ("no matter how many other requests happen in between", up to M)
func VerifC09NonceCacheUnderLoad() {
	now := vrt.Time("now")
	c := newNonceCache(func() time.Time { return now })
	far := time.Unix(4000000000, 0)
	vrt.Assume(now.Before(far))
	const m = 10000
	digits := "0123456789"
	for i := 0; i < m; i++ {
		k := "o" + string([]byte{digits[i/10000%10], digits[i/1000%10], digits[i/100%10], digits[i/10%10], digits[i%10]})
		c.m[k] = far
	}
	e := vrt.Time("exp-n")
	c.m["n"] = e
	which := []string{"n", "fresh"}[vrt.Choose("presented", 2)]
	ok := c.seenOnce(which, far)
	if now.Before(e) {
		vrt.Cover("load.entry-live")
		if which == "n" {
			vrt.Assert("C09.load.live-entry-blocks-its-nonce-whatever-the-cache-size", !ok)
		}
		got, present := c.m["n"]
		vrt.Assert("C09.load.live-entry-survives-whatever-the-cache-size", present && got.Equal(e))
	}
}
