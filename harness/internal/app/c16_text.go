//go:build verif

package app

import (
	"context"
	"net"
	"net/http"
	"strings"

	"github.com/nuetzliches/hookaido/internal/config"
	"github.com/nuetzliches/hookaido/internal/dispatcher"
	vrt "github.com/nuetzliches/hookaido/internal/verifrt"
)

type hResolver struct{}

// every name resolves to one public address, except names starting with "inner." (a private one)
func (hResolver) LookupIPAddr(ctx context.Context, host string) ([]net.IPAddr, error) {
	if strings.HasPrefix(host, "inner.") {
		return []net.IPAddr{{IP: net.IP{10, 9, 9, 9}}}, nil
	}
	return []net.IPAddr{{IP: net.IP{198, 51, 100, 5}}}, nil
}

type hEgressRule struct {
	text string
	// reference reading of the rule text
	host   string // exact host, or domain for sub (sub=true)
	sub    bool
	prefix []byte // IPv4 prefix bytes (cidr)
	bits   int
}

var hAllowMenu = [][]hEgressRule{
	nil,
	{{text: "api.example.com", host: "api.example.com"}},
	{{text: "*.example.com", host: "example.com", sub: true}},
	{{text: "10.0.0.0/8", prefix: []byte{10, 0, 0, 0}, bits: 8}},
	{{text: "api.example.com", host: "api.example.com"}, {text: "*.other.test", host: "other.test", sub: true}},
	{{text: "198.51.100.5", prefix: []byte{198, 51, 100, 5}, bits: 32}},
	{{text: "*.example.com", host: "example.com", sub: true}, {text: "example.com", host: "example.com"}},
}

var hDenyMenu = [][]hEgressRule{
	nil,
	{{text: "bad.example.com", host: "bad.example.com"}},
	{{text: "*.example.com", host: "example.com", sub: true}},
	{{text: "203.0.113.7", prefix: []byte{203, 0, 113, 7}, bits: 32}},
	{{text: "API.Example.COM.", host: "api.example.com"}},
	{{text: "example.com", host: "example.com"}, {text: "*.example.com", host: "example.com", sub: true}},
	{{text: "*.example.com", host: "example.com", sub: true}, {text: "example.com", host: "example.com"}},
	{{text: "10.0.0.0/8", prefix: []byte{10, 0, 0, 0}, bits: 8}, {text: "10.1.2.3", prefix: []byte{10, 1, 2, 3}, bits: 32}, {text: "bad.example.com", host: "bad.example.com"}, {text: "bad.example.com", host: "bad.example.com"}},
}

func hRuleMatches(r hEgressRule, host string, ip []byte) bool {
	if r.prefix != nil {
		if ip == nil {
			return false
		}
		for i := 0; i < r.bits; i++ {
			if (ip[i/8]>>(7-uint(i%8)))&1 != (r.prefix[i/8]>>(7-uint(i%8)))&1 {
				return false
			}
		}
		return true
	}
	if r.sub {
		return len(host) > len(r.host)+1 && strings.HasSuffix(host, "."+r.host)
	}
	return host == r.host
}

// verif:harness props=C16 tier=quick weight=90
// verif:bounds END TO END from configuration text: defaults.egress with https_only on/off, dns_rebind_protection on/off, an allow list from 7 menus and a deny list from 8 menus (exact host, *.domain, the same domain as exact host AND as *.domain in either order, IPv4 address, CIDR, overlapping CIDR + address, a rule written twice, mixed case with trailing dot), one deliver route; real Parse -> Compile -> the policy handed to dispatcher.NewHTTPDeliverer exactly as app.run builds it (mapEgressRules is real) -> real Deliver with a stub resolver (public address; names starting "inner." resolve to 10.9.9.9) and a havoc HTTP client; target URL from 10 spellings (https/http, apex, sub-domain, other domain, IP literals public/private, upper case, trailing dot)
func VerifC16EgressFromText() {
	httpsOnly := vrt.Choose("https-only", 2) == 1
	rebind := vrt.Choose("dns-rebind-protection", 2) == 1
	allow := hAllowMenu[vrt.Choose("allow", len(hAllowMenu))]
	deny := hDenyMenu[vrt.Choose("deny", len(hDenyMenu))]
	onoff := func(b bool) string {
		if b {
			return "on"
		}
		return "off"
	}
	var b strings.Builder
	b.WriteString("defaults {\n  egress {\n    https_only " + onoff(httpsOnly) + "\n    redirects off\n    dns_rebind_protection " + onoff(rebind) + "\n")
	for _, r := range allow {
		b.WriteString("    allow \"" + r.text + "\"\n")
	}
	for _, r := range deny {
		b.WriteString("    deny \"" + r.text + "\"\n")
	}
	b.WriteString("  }\n}\n\"/d\" {\n  deliver \"https://api.example.com/h\" {\n  }\n}\n")
	cfg, err := config.Parse([]byte(b.String()))
	vrt.Assert("C16.text.parses", err == nil)
	if err != nil {
		return
	}
	compiled, res := config.Compile(cfg)
	vrt.Assert("C16.text.compiles", res.OK)
	if !res.OK {
		return
	}
	// exactly what app.run hands to the dispatcher
	policy := dispatcher.EgressPolicy{
		HTTPSOnly:           compiled.Defaults.EgressPolicy.HTTPSOnly,
		Redirects:           compiled.Defaults.EgressPolicy.Redirects,
		DNSRebindProtection: compiled.Defaults.EgressPolicy.DNSRebindProtection,
		Allow:               mapEgressRules(compiled.Defaults.EgressPolicy.Allow),
		Deny:                mapEgressRules(compiled.Defaults.EgressPolicy.Deny),
	}
	d := dispatcher.NewHTTPDeliverer(&http.Client{}, policy)
	d.Resolver = hResolver{}
	targets := []struct {
		url, scheme, host string
		ip                []byte // address the host stands for (literal or resolved)
	}{
		{"https://api.example.com/h", "https", "api.example.com", []byte{198, 51, 100, 5}},
		{"http://api.example.com/h", "http", "api.example.com", []byte{198, 51, 100, 5}},
		{"https://bad.example.com/h", "https", "bad.example.com", []byte{198, 51, 100, 5}},
		{"https://example.com/h", "https", "example.com", []byte{198, 51, 100, 5}},
		{"https://x.other.test/h", "https", "x.other.test", []byte{198, 51, 100, 5}},
		{"https://inner.example.com/h", "https", "inner.example.com", []byte{10, 9, 9, 9}},
		{"https://203.0.113.7/h", "https", "203.0.113.7", []byte{203, 0, 113, 7}},
		{"https://10.1.2.3/h", "https", "10.1.2.3", []byte{10, 1, 2, 3}},
		{"HTTPS://API.EXAMPLE.COM/h", "https", "api.example.com", []byte{198, 51, 100, 5}},
		{"https://api.example.com./h", "https", "api.example.com", []byte{198, 51, 100, 5}},
	}
	t := targets[vrt.Choose("target-url", len(targets))]
	resu := d.Deliver(context.Background(), dispatcher.Delivery{ID: "m", URL: t.url, Body: []byte("b")})
	sent := len(vrt.HTTPRequests()) > 0
	// reference, from the rule TEXTS
	allowed := true
	if httpsOnly && t.scheme != "https" {
		allowed = false
	}
	if rebind && t.ip[0] == 10 {
		allowed = false
	}
	for _, r := range deny {
		if hRuleMatches(r, t.host, t.ip) {
			allowed = false
		}
	}
	if len(allow) > 0 {
		any := false
		for _, r := range allow {
			if hRuleMatches(r, t.host, t.ip) {
				any = true
			}
		}
		if !any {
			allowed = false
		}
	}
	if allowed {
		vrt.Cover("c16text.sent")
		vrt.Assert("C16.text.allowed-target-is-delivered-to", sent)
	} else {
		vrt.Cover("c16text.denied")
		vrt.Assert("C16.text.denied-target-gets-no-request-and-a-policy-error", !sent && resu.Err != nil)
	}
}
