//go:build verif

package config

import (
	vrt "github.com/nuetzliches/hookaido/internal/verifrt"
)

// verif:harness props=C06 tier=quick native=yes weight=40
// verif:bounds LINK between the configuration text and the domain the backoff/attempt-bound harnesses assume: a deliver block whose retry directive is generated from menus (max in {absent,0,1,3,-1,x}; base and cap in {absent,0s,1s,5s,2m,-1s,1x}; jitter in {absent,0,0.2,1,1.5,-0.1,NaN,x}) placed either on the route or in the defaults block, through the real Parse and Compile
func VerifC06CompiledRetryDomain() {
	maxM := []string{"", "0", "1", "3", "-1", "x"}
	durM := []string{"", "0s", "1s", "5s", "2m", "-1s", "1x"}
	jitM := []string{"", "0", "0.2", "1", "1.5", "-0.1", "NaN", "x"}
	gen := func(tag string) string {
		s := "retry exponential"
		if v := maxM[vrt.Choose(tag+"-max", len(maxM))]; v != "" {
			s += " max " + v
		}
		if v := durM[vrt.Choose(tag+"-base", len(durM))]; v != "" {
			s += " base " + v
		}
		if v := durM[vrt.Choose(tag+"-cap", len(durM))]; v != "" {
			s += " cap " + v
		}
		if v := jitM[vrt.Choose(tag+"-jitter", len(jitM))]; v != "" {
			s += " jitter " + v
		}
		return s
	}
	// the directive appears once: in the defaults block (inherited by the route) or on the route's own deliver block
	directive := gen("retry")
	src := ""
	if vrt.Choose("in-defaults-block", 2) == 1 {
		src += "defaults {\n  deliver {\n    " + directive + "\n  }\n}\n/a {\n  deliver \"https://t.example/h\" {\n  }\n}\n"
	} else {
		src += "/a {\n  deliver \"https://t.example/h\" {\n    " + directive + "\n  }\n}\n"
	}
	cfg, err := Parse([]byte(src))
	if err != nil {
		return
	}
	compiled, res := Compile(cfg)
	vrt.Observe("ok", res.OK)
	if !res.OK {
		vrt.Cover("retry.compile-refused")
		return
	}
	vrt.Cover("retry.accepted")
	vrt.Assert("C06.link.one-route-one-delivery", len(compiled.Routes) == 1 && len(compiled.Routes[0].Deliveries) == 1)
	if len(compiled.Routes) != 1 || len(compiled.Routes[0].Deliveries) != 1 {
		return
	}
	r := compiled.Routes[0].Deliveries[0].Retry
	vrt.Assert("C06.link.accepted-retry-has-positive-max", r.Max > 0)
	vrt.Assert("C06.link.accepted-retry-has-0-lt-base-le-cap", r.Base > 0 && r.Base <= r.Cap)
	vrt.Assert("C06.link.accepted-jitter-is-never-outside-0-1", !(r.Jitter < 0) && !(r.Jitter > 1))
	vrt.Assert("C06.link.type-is-exponential", r.Type == "exponential")
}

// verif:harness props=C06 tier=quick native=yes weight=25
// verif:bounds a fan-out route with two deliver targets (and a second route after it), each target with its own retry directive or none, optionally a retry directive in the defaults block; each directive from {none, `max 4`, `base 2s cap 2m`, `max 7 base 3s jitter 0.5`}; real Parse -> Compile: every target's retry settings are its own directive's, completed field by field from the defaults block (or the built-in defaults) — never from a neighbouring target or route
func VerifC06RetryIsPerTarget() {
	type rt struct {
		has                     bool
		max, base, cap, jitter string
	}
	menu := []rt{{}, {true, "4", "", "", ""}, {true, "", "2s", "2m", ""}, {true, "7", "3s", "", "0.5"}}
	draw := func(tag string) rt { return menu[vrt.Choose(tag+"-retry-directive", len(menu))] }
	text := func(r rt) string {
		if !r.has {
			return ""
		}
		s := "    retry exponential"
		if r.max != "" {
			s += " max " + r.max
		}
		if r.base != "" {
			s += " base " + r.base
		}
		if r.cap != "" {
			s += " cap " + r.cap
		}
		if r.jitter != "" {
			s += " jitter " + r.jitter
		}
		return s + "\n"
	}
	defs, t1, t2, t3 := draw("defaults"), draw("first-target"), draw("second-target"), draw("other-route")
	src := ""
	if defs.has {
		src += "defaults {\n  deliver {\n" + text(defs) + "  }\n}\n"
	}
	src += "/a {\n  deliver \"https://t1.example/h\" {\n" + text(t1) + "  }\n  deliver \"https://t2.example/h\" {\n" + text(t2) + "  }\n}\n"
	src += "/b {\n  deliver \"https://t3.example/h\" {\n" + text(t3) + "  }\n}\n"
	cfg, err := Parse([]byte(src))
	vrt.Assert("C06.pertarget.parses", err == nil)
	if err != nil {
		return
	}
	compiled, res := Compile(cfg)
	vrt.Assert("C06.pertarget.compiles", res.OK && len(compiled.Routes) == 2 && len(compiled.Routes[0].Deliveries) == 2 && len(compiled.Routes[1].Deliveries) == 1)
	if !res.OK || len(compiled.Routes) != 2 || len(compiled.Routes[0].Deliveries) != 2 || len(compiled.Routes[1].Deliveries) != 1 {
		return
	}
	// the reference: the same text with ONLY this target (so no neighbour exists to inherit from)
	alone := func(r rt) RetryConfig {
		s := ""
		if defs.has {
			s += "defaults {\n  deliver {\n" + text(defs) + "  }\n}\n"
		}
		s += "/z {\n  deliver \"https://z.example/h\" {\n" + text(r) + "  }\n}\n"
		c, e := Parse([]byte(s))
		if e != nil {
			return RetryConfig{}
		}
		k, rr := Compile(c)
		if !rr.OK || len(k.Routes) != 1 || len(k.Routes[0].Deliveries) != 1 {
			return RetryConfig{}
		}
		return k.Routes[0].Deliveries[0].Retry
	}
	same := func(a, b RetryConfig) bool {
		return a.Type == b.Type && a.Max == b.Max && a.Base == b.Base && a.Cap == b.Cap && a.Jitter == b.Jitter
	}
	vrt.Assert("C06.pertarget.first-target-has-its-own-settings", same(compiled.Routes[0].Deliveries[0].Retry, alone(t1)))
	vrt.Assert("C06.pertarget.second-target-does-not-inherit-from-the-first", same(compiled.Routes[0].Deliveries[1].Retry, alone(t2)))
	vrt.Assert("C06.pertarget.other-route-does-not-inherit-from-this-one", same(compiled.Routes[1].Deliveries[0].Retry, alone(t3)))
}
