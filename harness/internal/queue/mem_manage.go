//go:build verif

package queue

import (
	"strings"
	"time"

	vrt "github.com/nuetzliches/hookaido/internal/verifrt"
)

const (
	mgCancel = iota
	mgRequeue
	mgResume
	mgRequeueDead
	mgDeleteDead
)

// refManageAllowed: the source states each operator mutation is defined for (property C14).
func refManageAllowed(op int, st State) bool {
	switch op {
	case mgCancel:
		return st == StateQueued || st == StateLeased || st == StateDead
	case mgRequeue:
		return st == StateDead || st == StateCanceled
	case mgResume:
		return st == StateCanceled
	case mgRequeueDead, mgDeleteDead:
		return st == StateDead
	}
	return false
}

func refManageEffect(op int, p mSnap, now time.Time) mSnap {
	if op == mgDeleteDead {
		return mSnap{}
	}
	if op == mgCancel {
		p.state = StateCanceled
	} else {
		p.state = StateQueued
	}
	p.leaseID = ""
	p.leaseUntil = time.Time{}
	p.nextRunAt = now
	p.deadReason = ""
	return p
}

var mIDMenu = []string{"m0", "m1", "m2", " m0 ", "", "nope"}

// verif:harness props=C14,C02 tier=quick native=yes weight=25 tonly=C14
// verif:bounds N=2 messages (thorough 3) in any state; id list of 2 (thorough 3) entries drawn with repetition from {each id, a blank-padded id, empty, absent id}; cancel/requeue/resume by id, DLQ requeue, DLQ delete; follow-up ack with the voided lease id
func VerifC14ManageIDs() {
	n, k := 2, 2
	if vrt.Thorough() {
		n, k = 3, 3
	}
	w := mNew(n, mOpts{})
	pre := w.snap()
	ids := make([]string, k)
	for j := range ids {
		ids[j] = mIDMenu[vrt.Choose("id", len(mIDMenu))]
	}
	op := vrt.Choose("op", 5)
	count, matched := 0, 0
	var err error
	switch op {
	case mgCancel:
		var r MessageCancelResponse
		r, err = w.s.CancelMessages(MessageCancelRequest{IDs: ids})
		count, matched = r.Canceled, r.Matched
	case mgRequeue:
		var r MessageRequeueResponse
		r, err = w.s.RequeueMessages(MessageRequeueRequest{IDs: ids})
		count, matched = r.Requeued, r.Matched
	case mgResume:
		var r MessageResumeResponse
		r, err = w.s.ResumeMessages(MessageResumeRequest{IDs: ids})
		count, matched = r.Resumed, r.Matched
	case mgRequeueDead:
		var r DeadRequeueResponse
		r, err = w.s.RequeueDead(DeadRequeueRequest{IDs: ids})
		count, matched = r.Requeued, r.Requeued
	case mgDeleteDead:
		var r DeadDeleteResponse
		r, err = w.s.DeleteDead(DeadDeleteRequest{IDs: ids})
		count, matched = r.Deleted, r.Deleted
	}
	post := w.snap()
	vrt.Assert("C14.ids.noerr", err == nil)
	changed := 0
	for i := 0; i < n; i++ {
		named := false
		for _, raw := range ids {
			if strings.TrimSpace(raw) == w.ids[i] {
				named = true
			}
		}
		if named && refManageAllowed(op, pre[i].state) {
			changed++
			vrt.Assert("C14.ids.named-and-allowed-changes", sameItem(refManageEffect(op, pre[i], w.now), post[i]))
			if pre[i].state == StateLeased {
				_, still := w.s.leases[pre[i].leaseID]
				vrt.Assert("C14.ids.cancel-voids-lease", !still)
				before := w.snap()
				e := w.s.Ack(pre[i].leaseID)
				after := w.snap()
				same := true
				for q := range before {
					if !sameItem(before[q], after[q]) {
						same = false
					}
				}
				vrt.Assert("C14.ids.voided-lease-is-fenced", e == ErrLeaseNotFound && same)
			}
		} else {
			vrt.Assert("C14.ids.everything-else-untouched", sameItem(pre[i], post[i]))
		}
	}
	vrt.Assert("C14.ids.count-equals-changed", count == changed && matched == changed)
	vrt.Assert("C02.inv.manage-ids", w.inv())
	vrt.Observe("count", count)
}

func clampLimit(l int) int {
	if l <= 0 {
		return 100
	}
	if l > 1000 {
		return 1000
	}
	return l
}

// verif:harness props=C14 tier=quick native=yes weight=60
// verif:bounds N=2 messages, any states, symbolic route r0|r1 and target t0|t1, symbolic received_at; filter: no route / route / route+target criterion, state criterion from {none, queued, dead, canceled} (thorough: all six), limit from {0,1} (thorough {0,1,1001} and preview_only on/off); cancel/requeue/resume by filter
func VerifC14FilterCriteria() {
	manageFilterCore(true)
}

// verif:harness props=C14 tier=quick native=yes weight=30
// verif:bounds N=2 messages, any states, symbolic received_at incl. ties; filter: before cursor absent/arbitrary, limit from {0,1,1001} (thorough adds -1,2), preview_only on/off; newest-first selection with id tie-break
func VerifC14FilterOrder() {
	manageFilterCore(false)
}

func manageFilterCore(criteria bool) {
	n := 2 // (thorough widens the filter menus; three messages do not finish in reasonable time)
	w := mNew(n, mOpts{routes: criteria})
	pre := w.snap()
	op := vrt.Choose("op", 3) // mgCancel, mgRequeue, mgResume
	req := MessageManageFilterRequest{}
	hasBefore := false
	limitMenu := []int{0, 1, 1001}
	if criteria {
		switch vrt.Choose("f.route-target", 3) {
		case 1:
			req.Route = "r0"
		case 2:
			req.Route, req.Target = "r0", "t0"
		}
		stateMenu := []State{"", StateQueued, StateDead, StateCanceled}
		if vrt.Thorough() {
			stateMenu = []State{"", StateQueued, StateLeased, StateDelivered, StateDead, StateCanceled}
		}
		req.State = stateMenu[vrt.Choose("f.state", len(stateMenu))]
	} else {
		if vrt.Thorough() {
			limitMenu = []int{-1, 0, 1, 2, 1001}
		}
		hasBefore = vrt.Choose("f.before", 2) == 1
		if hasBefore {
			req.Before = vrt.Time("before")
		}
	}
	if criteria && !vrt.Thorough() {
		limitMenu = []int{0, 1}
	}
	req.Limit = limitMenu[vrt.Choose("f.limit", len(limitMenu))]
	if !criteria || vrt.Thorough() {
		req.PreviewOnly = vrt.Choose("f.preview", 2) == 1
	}
	count, matched := 0, 0
	var err error
	switch op {
	case mgCancel:
		var r MessageCancelResponse
		r, err = w.s.CancelMessagesByFilter(req)
		count, matched = r.Canceled, r.Matched
	case mgRequeue:
		var r MessageRequeueResponse
		r, err = w.s.RequeueMessagesByFilter(req)
		count, matched = r.Requeued, r.Matched
	case mgResume:
		var r MessageResumeResponse
		r, err = w.s.ResumeMessagesByFilter(req)
		count, matched = r.Resumed, r.Matched
	}
	post := w.snap()
	vrt.Assert("C14.filter.noerr", err == nil)
	limit := clampLimit(req.Limit)
	// reference selection: matching items ranked by (received_at desc, id desc); first `limit` of them
	match := make([]bool, n)
	for i := 0; i < n; i++ {
		m := refManageAllowed(op, pre[i].state)
		if req.State != "" && pre[i].state != req.State {
			m = false
		}
		if req.Route != "" && pre[i].route != req.Route {
			m = false
		}
		if req.Target != "" && pre[i].target != req.Target {
			m = false
		}
		if hasBefore && !pre[i].receivedAt.Before(req.Before) {
			m = false
		}
		match[i] = m
	}
	selected := 0
	for i := 0; i < n; i++ {
		rank := 0
		for j := 0; j < n; j++ {
			if j == i || !match[j] {
				continue
			}
			newer := pre[j].receivedAt.After(pre[i].receivedAt)
			tie := pre[j].receivedAt.Equal(pre[i].receivedAt)
			if newer || (tie && pre[j].id > pre[i].id) {
				rank++
			}
		}
		sel := match[i] && rank < limit
		if sel {
			selected++
		}
		if sel && !req.PreviewOnly {
			vrt.Assert("C14.filter.selected-changes", sameItem(refManageEffect(op, pre[i], w.now), post[i]))
		} else {
			vrt.Assert("C14.filter.unselected-untouched", sameItem(pre[i], post[i]))
		}
	}
	if req.PreviewOnly {
		vrt.Assert("C14.filter.preview-reports-what-a-run-would-match", count == 0 && matched == selected)
	} else {
		vrt.Assert("C14.filter.count-equals-changed", count == selected && matched == selected)
	}
	vrt.Assert("C02.inv.manage-filter", w.inv())
	vrt.Observe("matched", matched)
}

// verif:harness props=C02 tier=quick native=yes weight=40
// verif:bounds N=2 messages in any state with arbitrary timestamps; retention max_age, delivered max_age, dlq max_age each off or an arbitrary positive duration, dlq max_depth in {0,1} (thorough {0,1,2}), arbitrary positive prune interval, last prune zero or arbitrary; pruning triggered through Stats and Dequeue (thorough: also ListMessages, ListDead)
func VerifC02Prune() {
	n := 2 // (thorough widens the depth and trigger menus; N=3 does not finish in reasonable time)
	w := mNew(n, mOpts{})
	qAge, dAge, xAge := time.Duration(0), time.Duration(0), time.Duration(0)
	if vrt.Choose("retention", 2) == 1 {
		qAge = vrt.Duration("max_age")
		vrt.Assume(qAge > 0)
	}
	if vrt.Choose("delivered-retention", 2) == 1 {
		dAge = vrt.Duration("delivered_max_age")
		vrt.Assume(dAge > 0)
	}
	if vrt.Choose("dlq-retention", 2) == 1 {
		xAge = vrt.Duration("dlq_max_age")
		vrt.Assume(xAge > 0)
	}
	dlqDepths, triggers := 2, 2
	if vrt.Thorough() {
		dlqDepths, triggers = 3, 4
	}
	dlqDepth := vrt.Choose("dlq-max-depth", dlqDepths)
	w.s.retentionMaxAge, w.s.deliveredRetentionMaxAge, w.s.dlqRetentionMaxAge, w.s.dlqMaxDepth = qAge, dAge, xAge, dlqDepth
	w.s.pruneInterval = vrt.Duration("interval")
	vrt.Assume(w.s.pruneInterval > 0)
	if vrt.Choose("last-prune", 2) == 1 {
		w.s.lastPrune = vrt.Time("lastPrune")
		vrt.Assume(!w.s.lastPrune.After(w.now))
	}
	pre := w.snap()
	var err error
	trigger := []int{0, 3, 1, 2}[vrt.Choose("trigger", triggers)]
	switch trigger {
	case 0:
		_, err = w.s.Stats()
	case 1:
		_, err = w.s.ListMessages(MessageListRequest{Limit: 10})
	case 2:
		_, err = w.s.ListDead(DeadListRequest{Limit: 10})
	case 3:
		_, err = w.s.Dequeue(DequeueRequest{Route: "no-such-route", Batch: 1})
	}
	post := w.snap()
	vrt.Assert("C02.prune.noerr", err == nil)
	if trigger == 3 {
		// Dequeue first releases expired leases (a legal leased->queued edge); pruning is judged on that state
		for i := 0; i < n; i++ {
			if pre[i].state == StateLeased && !w.now.Before(pre[i].leaseUntil) {
				pre[i] = refRequeued(pre[i], w.now)
			}
		}
	}
	deadPre, deadPost := 0, 0
	for i := 0; i < n; i++ {
		if pre[i].state == StateDead {
			deadPre++
		}
		if post[i].present && post[i].state == StateDead {
			deadPost++
		}
	}
	for i := 0; i < n; i++ {
		if post[i].present {
			vrt.Assert("C02.prune.survivor-untouched", sameItem(pre[i], post[i]))
			continue
		}
		vrt.Cover("prune.removed-something")
		// removed: must be eligible under a configured rule
		cut := func(age time.Duration, ts time.Time) bool { return age > 0 && !ts.After(w.now.Add(-age)) }
		eligible := false
		switch pre[i].state {
		case StateQueued:
			eligible = cut(qAge, pre[i].receivedAt)
		case StateDelivered:
			eligible = cut(dAge, pre[i].nextRunAt)
		case StateDead:
			byAge := cut(xAge, pre[i].receivedAt)
			byDepth := false
			if dlqDepth > 0 && deadPre > dlqDepth {
				// oldest first: no surviving dead message is strictly older
				byDepth = true
				for j := 0; j < n; j++ {
					if j != i && post[j].present && post[j].state == StateDead && post[j].receivedAt.Before(pre[i].receivedAt) {
						byDepth = false
					}
				}
			}
			eligible = byAge || byDepth
		}
		vrt.Assert("C02.prune.removed-only-if-eligible", eligible)
		vrt.Assert("C02.prune.never-leased-or-canceled", pre[i].state != StateLeased && pre[i].state != StateCanceled)
	}
	if dlqDepth > 0 && xAge == 0 {
		// the depth rule never prunes below the configured depth
		want := deadPre
		if want > dlqDepth {
			want = dlqDepth
		}
		vrt.Assert("C02.prune.dlq-depth-keeps-newest", deadPost >= want)
	}
	vrt.Assert("C02.inv.prune", w.inv())
}
