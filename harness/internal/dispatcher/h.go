//go:build verif

package dispatcher

import (
	"time"
	"errors"
	"fmt"

	vrt "github.com/nuetzliches/hookaido/internal/verifrt"
)

func VerifShouldRetry() {
	code := vrt.Int("status")
	ek := vrt.Choose("err", 3)
	var err error
	switch ek {
	case 1:
		err = errors.New("boom")
	case 2:
		err = fmt.Errorf("%w: nope", ErrPolicyDenied)
	}
	res := Result{StatusCode: code, Err: err}
	wantSuccess := err == nil && code >= 200 && code <= 299
	wantRetry := (err != nil && ek != 2) || (err == nil && (code == 408 || code == 429 || code >= 500))
	vrt.Assert("C06.isSuccess", isSuccess(res) == wantSuccess)
	vrt.Assert("C06.shouldRetry", shouldRetry(res) == wantRetry)
}

// VerifRetryDelay: C06 backoff bounds in int-mode with the float rounding model.
func VerifRetryDelay() {
	vrt.IntMode()
	attempt := 1 + vrt.Choose("attempt", 8)
	base := vrt.Int64("base")
	capv := vrt.Int64("cap")
	vrt.Assume(base > 0 && base <= capv && capv < (1<<53))
	j := vrt.FloatIn("jitter", 0, 1)
	d := retryDelay(attempt, RetryConfig{Type: "exponential", Max: 8, Base: time.Duration(base), Cap: time.Duration(capv), Jitter: j})
	// ideal value m = min(base*2^(attempt-1), cap)
	m := base
	for i := 1; i < attempt; i++ {
		m = m * 2
	}
	if m > capv {
		m = capv
	}
	vrt.ExactBegin()
	mf := float64(m)
	const tau = 1.0 / (1 << 40)
	lo := mf*(1-j) - mf*tau - 1
	hi := mf*(1+j) + mf*tau + 1
	df := float64(d)
	okLo, okHi := df >= lo, df <= hi
	vrt.ExactEnd()
	vrt.Assert("C06.delay.lower", okLo)
	vrt.Assert("C06.delay.upper", okHi)
	vrt.Assert("C06.delay.nonneg", d >= 0)
}
