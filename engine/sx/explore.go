package sx

// Path explorer: depth-first exploration by re-execution with a decision prefix, incremental
// solving, assertion discharge, known-finding discrimination, witness collection.

import (
	"fmt"
	"hash/fnv"
	"sort"
	"strconv"
	"strings"
	"time"

	"golang.org/x/tools/go/ssa"

	"gosym/wq"
)

type abortPath struct{ reason string }

// InputRec is one nondet call in call order; Vars name the solver variables (one per byte for strings).
type InputRec struct {
	K    string
	L    string
	Vars []string
	V    int64 // for concrete choices
}

// ScriptRec is the JSON form consumed by the native twin (verifrt.Rec).
type ScriptRec struct {
	K string `json:"k"`
	L string `json:"l"`
	V int64  `json:"v"`
	B []int  `json:"b,omitempty"`
}

type AssertRec struct {
	Label string `json:"label"`
	OK    bool   `json:"ok"`
}

type ObsRec struct {
	Label string  `json:"label"`
	V     []int64 `json:"v"`
}

type Outcome struct {
	Asserts  []AssertRec `json:"asserts"`
	Observes []ObsRec    `json:"observes"`
	Covers   []string    `json:"covers,omitempty"`
	Failed   string      `json:"failed,omitempty"`
	Panic    string      `json:"panic,omitempty"`
	AssumeViolated bool  `json:"assume_violated,omitempty"`
}

// Violation is a counterexample to an assertion.
type Violation struct {
	Harness string            `json:"harness"`
	Label   string            `json:"label"`
	Script  []ScriptRec       `json:"script"`
	Chooses []int             `json:"chooses"`          // every engine-level choice on the path (harness + stub internal)
	Pinned  map[string]uint64 `json:"pinned,omitempty"` // every solver variable of the path (incl. stub/UF outputs)
	PinnedF map[string]float64 `json:"pinned_f,omitempty"` // real-valued variables (int/real mode), nearest float64
	Inputs  map[string]string `json:"inputs"`           // compact, human readable
	Events  []string          `json:"events,omitempty"`
	Known   string            `json:"known,omitempty"`
}

// Witness is a feasible completed path with a model and the predicted outcome.
type Witness struct {
	Script  []ScriptRec `json:"script"`
	Expect  Outcome     `json:"expect"`
	Inputs  map[string]string `json:"inputs"`
}

type AssertStat struct {
	Reached   int `json:"reached"`
	Proved    int `json:"proved"`
	Violated  int `json:"violated"`
	Known     int `json:"known"`
	Undecided int `json:"undecided"`
}

type obsTerm struct {
	label string
	terms []*Term
	conc  []int64 // used when terms == nil
}

type Explorer struct {
	Solver  *Solver
	Solver2 *Solver

	// configuration
	MaxSteps     int64
	MaxPaths     int
	Verbose      bool
	Thorough     bool
	QTimeoutMs   int
	ShardI       int
	ShardN       int
	ShardDepth   int
	KnownFor     map[string][]string // assertion label -> finding ids with status "known"
	WitnessK     int
	MaxViolPerLabel int
	Pin          *Pin
	Q            *wq.Queue // shared work queue (nil: explore alone)

	// per-path state
	prefix      []int
	pos         int
	trace       []int
	pc          []*Term
	seq         int
	Inputs      []string
	PanicStack  string
	Events      []string
	ufApps      []ufApp
	specDepth   int
	replaced    map[*ssa.Function]value
	inReplace   map[*ssa.Function]bool
	SQLModel    bool
	JSONModel   bool
	sqlRows     map[*value]tuple
	sqlCursors  map[*value]*sqlCursor
	pending     []value
	inStep      bool
	IntMode     bool
	ExactFloat  bool
	lastNow     *Term
	InputLog    []InputRec
	Steps       int64
	chooseLog   []int
	pathAsserts []AssertRec
	pathObs     []obsTerm
	pathCovers  []string
	known       map[string]*Term
	httpReqs    []*value
	httpRespHdr value // set by verifrt.HTTPResponseHeader: the Header of every stubbed response
	httpDoErr   value // set by verifrt.HTTPDoError: what the stubbed Do answers instead of a havoc result
	thrB        *thread
	jsonVals    []value
	mutexIDs    map[*value]int
	lockLog     []string
	cur         int
	connOwner   int // thread holding the single pooled DB connection (-1: free)
	joining     bool
	mainDone    bool
	lastHTTPStatus value
	pathViolated bool
	foreign     bool

	// results
	work        [][]int
	harness     string
	Paths       int
	Completed   int
	Decisions   int
	Aborted     map[string]int
	Violations  []Violation
	Asserts     map[string]*AssertStat
	Covers      map[string]int
	KnownHits   map[string]int
	Witnesses   []Witness
	IfConverted int
	FuncCalls   map[string]int
	StubHits    map[string]int
	Replaced    map[string]bool
	PathLimit   bool
	NontrivialPaths int
	Started     time.Time
	Deadline    time.Time
	TimedOut    bool
	DecideProfile map[string]int
}

// Pin fixes every nondet value (interpreter replay of a counterexample).
type Pin struct {
	Values  map[string]uint64
	FValues map[string]float64
	Chooses []int
	cpos    int
}

var X *Explorer

func NewExplorer(s, s2 *Solver) *Explorer {
	return &Explorer{Solver: s, Solver2: s2, Aborted: map[string]int{}, Asserts: map[string]*AssertStat{}, Covers: map[string]int{},
		KnownHits: map[string]int{}, FuncCalls: map[string]int{}, StubHits: map[string]int{}, Replaced: map[string]bool{},
		MaxSteps: 4000000, MaxPaths: 200000, QTimeoutMs: 10000, WitnessK: 8, MaxViolPerLabel: 3, ShardN: 1, ShardDepth: 6}
}

func (e *Explorer) stat(label string) *AssertStat {
	s := e.Asserts[label]
	if s == nil {
		s = &AssertStat{}
		e.Asserts[label] = s
	}
	return s
}

func (e *Explorer) noteDivisor(b *Term) {
	if b.Op == "const" {
		if b.Val == 0 {
			panic("runtime error: integer divide by zero")
		}
		return
	}
	zero := Eq(b, BVConst(0, b.Sort.Width))
	if e.decide(zero) {
		panic("runtime error: integer divide by zero")
	}
}

func (e *Explorer) addPC(ts ...*Term) {
	for _, t := range ts {
		if t.Op == "true" {
			continue
		}
		e.pc = append(e.pc, t)
		if !e.IntMode {
			e.Solver.Assert(t)
		}
	}
}

func (e *Explorer) feasible(extra *Term) bool {
	if extra.Op == "true" {
		return true
	}
	if extra.Op == "false" {
		return false
	}
	var r string
	if e.IntMode {
		r, _ = e.Solver2.CheckOneShot(append(append([]*Term{}, e.pc...), extra), false, 2*e.QTimeoutMs)
	} else {
		r, _ = e.Solver.Check(extra, false, e.QTimeoutMs)
	}
	if r == "sat" {
		return true
	}
	if r == "unsat" {
		return false
	}
	panic(abortPath{"solver undecided (feasibility): " + r})
}

// checkShard aborts the path when its decision prefix belongs to another shard.
func (e *Explorer) checkShard() {
	if e.ShardN <= 1 || len(e.trace) != e.ShardDepth {
		return
	}
	if e.shardOf(e.trace) != e.ShardI {
		e.foreign = true
		panic(abortPath{"other shard"})
	}
}

// pushWork queues an alternative prefix unless it provably belongs to another shard.
func (e *Explorer) pushWork(alt []int) {
	if e.ShardN > 1 && len(alt) == e.ShardDepth && e.shardOf(alt) != e.ShardI {
		return
	}
	e.work = append(e.work, alt)
}

func (e *Explorer) shardOf(tr []int) int {
	h := fnv.New32a()
	for _, d := range tr {
		h.Write([]byte{byte(d), byte(d >> 8)})
	}
	x := h.Sum32()
	// murmur3 finaliser: FNV's low bits depend only on the low bits of the (tiny) inputs
	x ^= x >> 16
	x *= 0x85ebca6b
	x ^= x >> 13
	x *= 0xc2b2ae35
	x ^= x >> 16
	return int(x % uint32(e.ShardN))
}

// decide returns the direction taken for a symbolic condition.
func (e *Explorer) decide(c *Term) bool {
	if c.Op == "true" {
		return true
	}
	if c.Op == "false" {
		return false
	}
	if e.Pin != nil {
		var sb strings.Builder
		NewPrinter().Ref(c, &sb)
		d := sb.String()
		if len(d) > 600 {
			d = d[len(d)-600:]
		}
		panic(abortPath{"pinned replay reached a symbolic branch: " + d})
	}
	e.Decisions++
	if e.pos < len(e.prefix) {
		d := e.prefix[e.pos]
		e.pos++
		e.trace = append(e.trace, d)
		if d == 1 {
			e.addPC(c)
		} else {
			e.addPC(Not(c))
		}
		return d == 1
	}
	e.pos++
	canT := e.feasible(c)
	canF := true
	if canT {
		// (the path condition itself is satisfiable by construction, so "not canT" implies canF)
		canF = e.feasible(Not(c))
	}
	switch {
	case canT && canF:
		alt := append(append([]int{}, e.trace...), 0)
		e.pushWork(alt)
		e.trace = append(e.trace, 1)
		e.addPC(c)
		e.checkShard()
		return true
	case canT:
		e.trace = append(e.trace, 1)
		e.addPC(c)
		e.checkShard()
		return true
	case canF:
		e.trace = append(e.trace, 0)
		e.addPC(Not(c))
		e.checkShard()
		return false
	}
	panic(abortPath{"infeasible path condition"})
}

// choose forks n ways without a solver query.
func (e *Explorer) choose(n int) int {
	if n <= 1 {
		return 0
	}
	if e.Pin != nil {
		if e.Pin.cpos >= len(e.Pin.Chooses) {
			panic(abortPath{"pinned replay: choice log exhausted"})
		}
		d := e.Pin.Chooses[e.Pin.cpos]
		e.Pin.cpos++
		return d
	}
	e.Decisions++ // nondeterministic choices (harness Choose, fault injection, thread scheduling) are branch points of the path tree too
	if e.pos < len(e.prefix) {
		d := e.prefix[e.pos]
		e.pos++
		e.trace = append(e.trace, d)
		e.chooseLog = append(e.chooseLog, d)
		if e.pos == len(e.prefix) {
			e.checkShard()
		}
		return d
	}
	e.pos++
	for i := n - 1; i >= 1; i-- {
		alt := append(append([]int{}, e.trace...), i)
		e.pushWork(alt)
	}
	e.trace = append(e.trace, 0)
	e.chooseLog = append(e.chooseLog, 0)
	e.checkShard()
	return 0
}

func (e *Explorer) fresh(label string, s Sort) *Term {
	e.seq++
	name := fmt.Sprintf("|%s#%d|", strings.ReplaceAll(label, "|", "_"), e.seq)
	e.Inputs = append(e.Inputs, name)
	return Var(name, s)
}

// pinOr returns the pinned constant for a variable during interpreter replay, else the variable.
func (e *Explorer) pinOr(t *Term) *Term {
	if e.Pin == nil || t.Op != "var" {
		return t
	}
	v := e.Pin.Values[t.Name]
	switch t.Sort.Kind {
	case 'B':
		return BoolConst(v != 0)
	case 'V':
		return BVConst(v, t.Sort.Width)
	case 'I':
		return IConst(int64(v))
	}
	return t
}

func (e *Explorer) assume(c value) {
	switch c := c.(type) {
	case bool:
		if !c {
			panic(abortPath{"assume false"})
		}
	case symv:
		if !e.feasible(c.t) {
			panic(abortPath{"assume infeasible"})
		}
		e.addPC(c.t)
	}
}

func (e *Explorer) knownDisj(label string) (*Term, []string) {
	var d *Term
	var ids []string
	for _, id := range e.KnownFor[label] {
		if t, ok := e.known[id]; ok {
			ids = append(ids, id)
			if d == nil {
				d = t
			} else {
				d = Or(d, t)
			}
		}
	}
	return d, ids
}

func (e *Explorer) inputsSummary(m map[string]uint64) map[string]string {
	out := map[string]string{}
	for idx, in := range e.InputLog {
		key := fmt.Sprintf("%02d:%s", idx, in.L)
		switch in.K {
		case "choose":
			out[key] = fmt.Sprint(in.V)
		case "string":
			b := make([]byte, len(in.Vars))
			for i, n := range in.Vars {
				b[i] = byte(m[n])
			}
			out[key] = fmt.Sprintf("%q", string(b))
		default:
			var x uint64
			if len(in.Vars) > 0 {
				x = m[in.Vars[0]]
			}
			out[key] = fmt.Sprint(int64(x))
		}
	}
	return out
}

func (e *Explorer) script(m map[string]uint64) []ScriptRec {
	out := make([]ScriptRec, 0, len(e.InputLog))
	for _, in := range e.InputLog {
		r := ScriptRec{K: in.K, L: in.L}
		switch in.K {
		case "choose":
			r.V = in.V
		case "string":
			r.B = []int{}
			for _, n := range in.Vars {
				r.B = append(r.B, int(m[n]))
			}
		default:
			if len(in.Vars) > 0 {
				r.V = int64(m[in.Vars[0]])
			}
		}
		out = append(out, r)
	}
	return out
}

func (e *Explorer) recordViolation(label string, m map[string]uint64, knownID string) {
	st := e.stat(label)
	if knownID != "" {
		st.Known++
		e.KnownHits[knownID]++
		if e.KnownHits[knownID] > 1 {
			return
		}
	} else {
		st.Violated++
		e.pathViolated = true
		if st.Violated > e.MaxViolPerLabel {
			return
		}
	}
	pinned := map[string]uint64{}
	for k, v := range m {
		pinned[k] = v
	}
	ev := e.Events
	if len(ev) > 60 {
		ev = ev[len(ev)-60:]
	}
	e.Violations = append(e.Violations, Violation{Harness: e.harness, Label: label, Script: e.script(m), Chooses: append([]int{}, e.chooseLog...),
		Pinned: pinned, Inputs: e.inputsSummary(m), Events: append([]string{}, ev...), Known: knownID})
}

// violated handles a satisfiable negation: decide whether known findings explain every failing input.
func (e *Explorer) violated(label string, neg *Term, m map[string]uint64) {
	d, ids := e.knownDisj(label)
	if d == nil {
		e.recordViolation(label, m, "")
		return
	}
	// is there a failing input none of the listed findings explains?
	q := Not(d)
	if neg != nil {
		q = And(neg, q)
	}
	r, m2 := e.Solver.Check(q, true, 3*e.QTimeoutMs)
	switch r {
	case "sat":
		e.recordViolation(label, m2, "")
	case "unsat":
		// attribute to the first finding whose discriminator is satisfiable together with the failure
		for _, id := range ids {
			q := e.known[id]
			if neg != nil {
				q = And(neg, q)
			}
			if r, m3 := e.Solver.Check(q, true, 3*e.QTimeoutMs); r == "sat" {
				e.recordViolation(label, m3, id)
			}
		}
	default:
		e.stat(label).Undecided++
	}
}

func (e *Explorer) assert(label string, c value) {
	st := e.stat(label)
	st.Reached++
	switch c := c.(type) {
	case bool:
		e.pathAsserts = append(e.pathAsserts, AssertRec{label, c})
		if !c {
			if e.Pin != nil {
				st.Violated++
				e.pathViolated = true
				panic(abortPath{"assert failed (pinned): " + label})
			}
			r, m := e.Solver.Check(nil, true, 3*e.QTimeoutMs)
			if r == "sat" {
				e.violated(label, nil, m)
			} else {
				st.Undecided++
			}
			panic(abortPath{"assert failed (concrete): " + label})
		}
		st.Proved++
	case symv:
		if e.IntMode {
			r, _ := e.Solver2.CheckOneShot(append(append([]*Term{}, e.pc...), Not(c.t)), true, 6*e.QTimeoutMs)
			switch r {
			case "unsat":
				st.Proved++
				e.pathAsserts = append(e.pathAsserts, AssertRec{label, true})
			case "sat":
				st.Violated++
				e.pathViolated = true
				if st.Violated <= e.MaxViolPerLabel {
					iv, fv := parseArithModel(e.Solver2.LastModel)
					inputs := map[string]string{}
					for _, in := range e.InputLog {
						for _, n := range in.Vars {
							if v, ok := iv[n]; ok {
								inputs[in.L] = fmt.Sprint(int64(v))
							} else if f, ok := fv[n]; ok {
								inputs[in.L] = fmt.Sprint(f)
							}
						}
						if in.K == "choose" {
							inputs[in.L] = fmt.Sprint(in.V)
						}
					}
					e.Violations = append(e.Violations, Violation{Harness: e.harness, Label: label, Script: nil, Chooses: append([]int{}, e.chooseLog...), Pinned: iv, PinnedF: fv, Inputs: inputs})
				}
			default:
				st.Undecided++
				e.Aborted[fmt.Sprintf("note: %s undecided (%s) with choices %v", label, firstWord(r), e.chooseLog)] += 0
			}
			e.addPC(c.t)
			return
		}
		r, m := e.Solver.Check(Not(c.t), true, 3*e.QTimeoutMs)
		switch r {
		case "unsat":
			st.Proved++
			e.pathAsserts = append(e.pathAsserts, AssertRec{label, true})
		case "sat":
			e.violated(label, Not(c.t), m)
			// continue under the assumption that it held, if possible
			if !e.feasible(c.t) {
				panic(abortPath{"assert always fails: " + label})
			}
		default:
			st.Undecided++
			panic(abortPath{"assert undecided: " + label + ": " + r})
		}
		e.addPC(c.t)
	}
}

func (e *Explorer) resetPath(p []int) {
	e.prefix, e.pos, e.trace, e.pc, e.seq = p, 0, nil, nil, 0
	e.Inputs = nil
	e.PanicStack = ""
	e.Events = nil
	e.ufApps = nil
	e.specDepth = 0
	e.replaced = nil
	e.inReplace = nil
	e.SQLModel = false
	e.connOwner = -1
	e.JSONModel = false
	e.sqlRows = nil
	e.sqlCursors = nil
	e.pending = nil
	e.inStep = false
	e.IntMode = false
	e.ExactFloat = false
	e.lastNow = nil
	e.InputLog = nil
	e.Steps = 0
	e.chooseLog = nil
	e.pathAsserts = nil
	e.pathObs = nil
	e.pathCovers = nil
	e.known = map[string]*Term{}
	e.httpReqs = nil
	e.httpDoErr = nil
	e.httpRespHdr = nil
	e.jsonVals = nil
	e.mutexIDs = nil
	e.lockLog = nil
	e.lastHTTPStatus = nil
	e.pathViolated = false
	e.foreign = false
}

// Run explores all paths of a niladic harness function.
func (e *Explorer) Run(name string, run func()) {
	e.harness = name
	e.Started = time.Now()
	e.work = [][]int{nil}
	qActive := false
	if e.Q != nil {
		e.work = nil
		qActive = true // New() counts every worker as active until its first Get
		defer func() {
			if qActive {
				e.Q.Leave(e.work)
			}
		}()
	}
	for {
		var p []int
		if len(e.work) > 0 {
			p = e.work[len(e.work)-1]
			e.work = e.work[:len(e.work)-1]
		} else {
			if e.Q == nil {
				break
			}
			var ok bool
			qActive = false
			if p, ok = e.Q.Get(); !ok {
				break
			}
			qActive = true
		}
		e.resetPath(p)
		base := e.Solver.Depth()
		e.Solver.Push()
		completed := false
		func() {
			defer func() {
				if r := recover(); r != nil {
					switch r := r.(type) {
					case abortPath:
						e.Aborted[r.reason]++
					case targetPanic:
						if e.Verbose && e.Aborted["panic: "+toString(r.v)] == 0 {
							fmt.Printf("TARGET PANIC: %v\n%s\n", toString(r.v), e.PanicStack)
						}
						e.Aborted["panic: "+toString(r.v)]++
					default:
						msg := fmt.Sprintf("interp: %v", r)
						if len(msg) > 300 {
							msg = msg[:300]
						}
						if e.Verbose && e.Aborted[msg] == 0 {
							fmt.Printf("INTERP PANIC: %v\n%s\n", r, e.PanicStack)
						}
						e.Aborted[msg]++
					}
				}
			}()
			defer e.killThreads()
			run()
			completed = true
		}()
		if completed && !e.foreign && (e.ShardN <= 1 || len(e.trace) >= e.ShardDepth || e.shardOf(e.trace) == e.ShardI) {
			e.Completed++
			for _, c := range e.pathCovers {
				e.Covers[c]++
			}
			if len(e.pathAsserts) > 0 {
				e.NontrivialPaths++
			}
			e.maybeWitness()
		}
		e.Solver.PopTo(base)
		e.Paths++
		if e.Verbose && e.Paths%500 == 0 {
			fmt.Printf("  ... %d paths, %d pending, %d queries\n", e.Paths, len(e.work), e.Solver.Queries)
		}
		total := e.Paths
		if e.Q != nil {
			total = int(e.Q.Paths.Add(1))
			// share the oldest (largest) pending subtree when other workers are idle
			for len(e.work) > 1 && e.Q.Hungry() {
				e.Q.Put(e.work[0])
				e.work = e.work[1:]
			}
		}
		if e.MaxPaths > 0 && total >= e.MaxPaths {
			e.PathLimit = true
			if e.Q != nil {
				e.Q.Stop.Store(true)
			}
			break
		}
		if !e.Deadline.IsZero() && time.Now().After(e.Deadline) {
			e.TimedOut = true
			if e.Q != nil {
				e.Q.Stop.Store(true)
			}
			break
		}
		if e.Q != nil && e.Q.Stop.Load() {
			break
		}
	}
}

// maybeWitness stores a model and the predicted outcome for selected completed paths.
func (e *Explorer) maybeWitness() {
	if e.IntMode || e.pathViolated || e.WitnessK <= 0 || e.Pin != nil {
		return
	}
	n := e.Completed
	// keep paths 1,2,4,8,... and then every power of two: spreads over the exploration
	if n&(n-1) != 0 {
		return
	}
	var terms []*Term
	for _, o := range e.pathObs {
		terms = append(terms, o.terms...)
	}
	r, m, vals := e.Solver.CheckValues(terms, e.QTimeoutMs)
	if r != "sat" {
		return
	}
	w := Witness{Script: e.script(m), Inputs: e.inputsSummary(m)}
	w.Expect.Asserts = append([]AssertRec{}, e.pathAsserts...)
	w.Expect.Covers = append([]string{}, e.pathCovers...)
	k := 0
	for _, o := range e.pathObs {
		rec := ObsRec{Label: o.label}
		if o.terms == nil {
			rec.V = o.conc
		} else {
			for range o.terms {
				rec.V = append(rec.V, vals[k])
				k++
			}
		}
		w.Expect.Observes = append(w.Expect.Observes, rec)
	}
	e.Witnesses = append(e.Witnesses, w)
	if len(e.Witnesses) > 4*e.WitnessK {
		// thin out: keep every other one
		var keep []Witness
		for i, x := range e.Witnesses {
			if i%2 == 0 {
				keep = append(keep, x)
			}
		}
		e.Witnesses = keep
	}
}

func (e *Explorer) intSort() Sort {
	if e.IntMode {
		return IntSort
	}
	return BV(64)
}

// TopFuncs lists the most-called interpreted functions.
func (e *Explorer) TopFuncs(n int) []string {
	type kv struct {
		k string
		v int
	}
	var all []kv
	for k, v := range e.FuncCalls {
		all = append(all, kv{k, v})
	}
	sort.Slice(all, func(i, j int) bool { return all[i].v > all[j].v || all[i].v == all[j].v && all[i].k < all[j].k })
	var out []string
	for i, x := range all {
		if i >= n {
			break
		}
		out = append(out, fmt.Sprintf("%s x%d", x.k, x.v))
	}
	return out
}

func firstWord(s string) string {
	if i := strings.IndexAny(s, " :("); i > 0 {
		return s[:i]
	}
	return s
}

// parseArithModel reads a (get-value ...) answer of the int/real mode: ints and rationals.
func parseArithModel(m string) (map[string]uint64, map[string]float64) {
	iv, fv := map[string]uint64{}, map[string]float64{}
	toks := tokenizeSexp(m)
	pos := 0
	var parse func() any
	parse = func() any {
		if pos >= len(toks) {
			return nil
		}
		t := toks[pos]
		pos++
		if t != "(" {
			return t
		}
		var list []any
		for pos < len(toks) && toks[pos] != ")" {
			list = append(list, parse())
		}
		pos++
		return list
	}
	var eval func(x any) (float64, bool, bool) // value, isReal, ok
	eval = func(x any) (float64, bool, bool) {
		switch v := x.(type) {
		case string:
			f, err := strconv.ParseFloat(v, 64)
			return f, strings.Contains(v, "."), err == nil
		case []any:
			if len(v) == 2 && v[0] == "-" {
				f, r, ok := eval(v[1])
				return -f, r, ok
			}
			if len(v) == 3 && v[0] == "/" {
				a, _, ok1 := eval(v[1])
				b, _, ok2 := eval(v[2])
				if ok1 && ok2 && b != 0 {
					return a / b, true, true
				}
			}
			if len(v) == 3 && v[0] == "-" {
				a, r1, ok1 := eval(v[1])
				b, r2, ok2 := eval(v[2])
				return a - b, r1 || r2, ok1 && ok2
			}
		}
		return 0, false, false
	}
	top, _ := parse().([]any)
	for _, e := range top {
		pair, ok := e.([]any)
		if !ok || len(pair) != 2 {
			continue
		}
		name, ok := pair[0].(string)
		if !ok {
			continue
		}
		if f, isReal, ok := eval(pair[1]); ok {
			if isReal {
				fv[name] = f
			} else {
				iv[name] = uint64(int64(f))
				if s, isStr := pair[1].(string); isStr {
					if n, err := strconv.ParseInt(s, 10, 64); err == nil {
						iv[name] = uint64(n)
					}
				} else if l, isL := pair[1].([]any); isL && len(l) == 2 && l[0] == "-" {
					if s, isStr := l[1].(string); isStr {
						if n, err := strconv.ParseInt(s, 10, 64); err == nil {
							iv[name] = uint64(-n)
						}
					}
				}
			}
		}
	}
	return iv, fv
}

func tokenizeSexp(s string) []string {
	var out []string
	for i := 0; i < len(s); {
		c := s[i]
		switch {
		case c == '(' || c == ')':
			out = append(out, string(c))
			i++
		case c == ' ' || c == '\n' || c == '\t' || c == '\r':
			i++
		case c == '|':
			j := strings.IndexByte(s[i+1:], '|')
			if j < 0 {
				return out
			}
			out = append(out, s[i:i+j+2])
			i += j + 2
		default:
			j := i
			for j < len(s) && !strings.ContainsRune("() \n\t\r", rune(s[j])) {
				j++
			}
			out = append(out, s[i:j])
			i = j
		}
	}
	return out
}
