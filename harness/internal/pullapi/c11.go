//go:build verif

package pullapi

import (
	"errors"
	"net/http"
	"net/url"
	"time"

	"github.com/nuetzliches/hookaido/internal/queue"
	vrt "github.com/nuetzliches/hookaido/internal/verifrt"
)

// refBearer: the Authorization value is "Bearer " followed by a configured token, optionally surrounded by blanks.
// (ASCII header values; a token never contains blanks.)
func refBearer(h string, tokens []string) bool {
	const prefix = "Bearer "
	if len(h) < len(prefix) || h[:len(prefix)] != prefix {
		return false
	}
	rest := h[len(prefix):]
	i, j := 0, len(rest)
	for i < j && isBlank(rest[i]) {
		i++
	}
	for j > i && isBlank(rest[j-1]) {
		j--
	}
	got := rest[i:j]
	if got == "" {
		return false
	}
	for _, t := range tokens {
		if got == t {
			return true
		}
	}
	return false
}

func isBlank(c byte) bool { return c == ' ' || (c >= '\t' && c <= '\r') }

// verif:harness props=C11 tier=quick native=yes weight=20
// verif:bounds two configured tokens "tk1" and "T2"; Authorization header absent or any ASCII string of 0..10 bytes (thorough 0..11): so every near miss (prefix, suffix, case variant, other scheme, blanks) is in the space
func VerifC11PullBearer() {
	max := 10
	if vrt.Thorough() {
		max = 11
	}
	auth := BearerTokenAuthorizer([][]byte{[]byte("tk1"), []byte("T2")})
	r := &http.Request{Header: http.Header{}}
	present := vrt.Bool("present")
	h := vrt.String("authorization", max)
	for i := 0; i < len(h); i++ {
		vrt.Assume(h[i] < 0x80)
	}
	if present {
		r.Header.Set("Authorization", h)
	}
	got := auth(r)
	vrt.Observe("authorized", got)
	vrt.Assert("C11.pull.bearer-token-must-match-exactly", got == (present && refBearer(h, []string{"tk1", "T2"})))
}

type hStore struct {
	queue.Store
	calls   []string
	failErr error
}

func (s *hStore) Ack(id string) error { s.calls = append(s.calls, "ack:"+id); return s.failErr }
func (s *hStore) Nack(id string, d time.Duration) error {
	s.calls = append(s.calls, "nack:"+id)
	return s.failErr
}
func (s *hStore) Extend(id string, d time.Duration) error {
	s.calls = append(s.calls, "extend:"+id)
	return s.failErr
}
func (s *hStore) MarkDead(id string, reason string) error {
	s.calls = append(s.calls, "dead:"+id)
	return s.failErr
}
func (s *hStore) Dequeue(req queue.DequeueRequest) (queue.DequeueResponse, error) {
	s.calls = append(s.calls, "dequeue")
	return queue.DequeueResponse{}, s.failErr
}

type hRW struct {
	status int
	hdr    http.Header
}

func (w *hRW) Header() http.Header {
	if w.hdr == nil {
		w.hdr = http.Header{}
	}
	return w.hdr
}
func (w *hRW) Write(b []byte) (int, error) {
	if w.status == 0 {
		w.status = 200
	}
	return len(b), nil
}
func (w *hRW) WriteHeader(code int) {
	if w.status == 0 {
		w.status = code
	}
}

func hStubDecode() {
	vrt.Replace(decodeJSONBodyStrict, func(w http.ResponseWriter, r *http.Request, dst any, allowEmpty bool) bool {
		if vrt.Choose("decode_ok", 2) == 0 {
			w.WriteHeader(400)
			return false
		}
		switch d := dst.(type) {
		case *leaseRequest:
			d.LeaseID = []string{"", "L1", " L1 "}[vrt.Choose("lease", 3)]
			d.ExtendBy = []string{"", "1s"}[vrt.Choose("extend_by", 2)]
			d.Delay = []string{"", "2s"}[vrt.Choose("delay", 2)]
			d.Dead = vrt.Choose("dead", 2) == 1
		case *dequeueRequest:
			d.Batch = vrt.Int("batch")
		}
		return true
	})
}

// verif:harness props=C11 tier=quick weight=15
// verif:bounds method from {POST, GET}; endpoint configured or not; operation from {dequeue, ack, nack, extend, unknown}; Authorize returns an arbitrary verdict; the JSON body decoder is replaced by a stub yielding an arbitrary small decoded request or a decode failure
func VerifC11PullAuthorizeFirst() {
	st := &hStore{}
	s := NewServer(st)
	authorized := vrt.Bool("authorized")
	asked := 0
	s.Authorize = func(*http.Request) bool { asked++; return authorized }
	s.ResolveRoute = func(endpoint string) (string, bool) { return "/r", endpoint == "/e" }
	hStubDecode()
	method := []string{"POST", "GET"}[vrt.Choose("method", 2)]
	op := []string{"dequeue", "ack", "nack", "extend", "other"}[vrt.Choose("op", 5)]
	ep := []string{"/e", "/zz"}[vrt.Choose("endpoint", 2)]
	w := &hRW{}
	r := &http.Request{Method: method, URL: &url.URL{Path: ep + "/" + op}, Header: http.Header{}, Body: http.NoBody}
	s.ServeHTTP(w, r)
	if len(st.calls) > 0 {
		vrt.Cover("pull.store-touched")
		vrt.Assert("C11.pull.queue-touched-only-after-authorize-said-yes", authorized && asked == 1 && method == "POST" && ep == "/e")
	}
	if !authorized && method == "POST" {
		vrt.Assert("C11.pull.unauthorized-is-401-and-touches-nothing", w.status == 401 && len(st.calls) == 0)
	}
}

// verif:harness props=C04,C11 tier=quick weight=15
// verif:bounds ack / nack / mark-dead / extend through the pull API operations with the store answering nil, ErrLeaseNotFound, ErrLeaseExpired or another error; each call optionally preceded by an identical call (duplicate); recent-lease-op cache enabled
func VerifC04PullConflictMapping() {
	st := &hStore{}
	s := NewServer(st)
	now := vrt.Time("now")
	s.now = func() time.Time { return now }
	errs := []error{nil, queue.ErrLeaseNotFound, queue.ErrLeaseExpired, errors.New("io")}
	op := vrt.Choose("op", 4)
	call := func() *OpError {
		switch op {
		case 0:
			return s.AckSingle("/r", "L1")
		case 1:
			return s.NackSingle("/r", "L1", false, "", time.Second)
		case 2:
			return s.NackSingle("/r", "L1", true, "why", 0)
		}
		return s.Extend("/r", "L1", time.Second)
	}
	// first call with an arbitrary store answer
	e1 := vrt.Choose("first-store-answer", 4)
	st.failErr = errs[e1]
	r1 := call()
	n1 := len(st.calls)
	switch e1 {
	case 0:
		vrt.Assert("C04.pull.accepted-is-reported-ok", r1 == nil && n1 == 1)
	case 1, 2:
		vrt.Assert("C04.pull.stale-lease-is-409", r1 != nil && r1.StatusCode == 409)
	default:
		vrt.Assert("C04.pull.other-store-error-is-500", r1 != nil && r1.StatusCode == 500)
	}
	// a duplicate of the same call: the store now says the lease is gone
	st.failErr = queue.ErrLeaseNotFound
	r2 := call()
	n2 := len(st.calls) - n1
	if r2 == nil {
		// the only success a stale call may get: the idempotent answer to a duplicate of an ack/nack that itself succeeded
		vrt.Assert("C04.pull.idempotent-ok-only-after-a-real-success", e1 == 0 && op != 3)
		vrt.Assert("C04.pull.idempotent-answer-has-no-effect", n2 == 0)
	} else {
		vrt.Assert("C04.pull.duplicate-otherwise-409", r2.StatusCode == 409)
	}
}
