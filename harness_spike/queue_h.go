//go:build verif

package queue

import (
	"strings"
	"time"

	vrt "github.com/nuetzliches/hookaido/internal/verifrt"
)

var hStates = []State{StateQueued, StateLeased, StateDelivered, StateDead, StateCanceled}

type hSnap struct {
	present    bool
	state      State
	leaseID    string
	leaseUntil time.Time
	nextRunAt  time.Time
	attempt    int
	route      string
}

func hBuild(n int, now time.Time) (*MemoryStore, []string, []string) {
	s := NewMemoryStore(WithNowFunc(func() time.Time { return now }))
	ids := []string{"m0", "m1", "m2"}[:n]
	leases := []string{"L0", "L1", "L2"}[:n]
	for i := 0; i < n; i++ {
		st := hStates[vrt.Choose("state", 5)]
		env := &Envelope{ID: ids[i], Route: "r", Target: "t", State: st,
			ReceivedAt: vrt.Time("recv"), NextRunAt: vrt.Time("next"), Attempt: vrt.Int("attempt")}
		if st == StateLeased {
			env.LeaseID = leases[i]
			env.LeaseUntil = vrt.Time("until")
			s.leases[env.LeaseID] = ids[i]
		}
		s.items[ids[i]] = env
		s.order = append(s.order, ids[i])
	}
	return s, ids, leases
}

func hSnapshot(s *MemoryStore, ids []string) []hSnap {
	out := make([]hSnap, len(ids))
	for i, id := range ids {
		env := s.items[id]
		if env == nil {
			continue
		}
		out[i] = hSnap{true, env.State, env.LeaseID, env.LeaseUntil, env.NextRunAt, env.Attempt, env.Route}
	}
	return out
}

func hSame(a, b hSnap) bool {
	return a.present == b.present && a.state == b.state && a.leaseID == b.leaseID &&
		a.leaseUntil.Equal(b.leaseUntil) && a.nextRunAt.Equal(b.nextRunAt) && a.attempt == b.attempt && a.route == b.route
}

// VerifAckFencing: C04 for MemoryStore.Ack, N=2, no delivered retention.
func VerifAckFencing() {
	now := vrt.Time("now")
	s, ids, _ := hBuild(2, now)
	pre := hSnapshot(s, ids)
	presented := []string{"L0", "L1", "zz", ""}[vrt.Choose("lease", 4)]
	err := s.Ack(presented)
	post := hSnapshot(s, ids)
	for i := range ids {
		current := pre[i].state == StateLeased && pre[i].leaseID == presented
		if current && now.Before(pre[i].leaseUntil) {
			vrt.Assert("C04.ack.effective", err == nil && !post[i].present)
		} else if current {
			// expired: only effect is requeue
			vrt.Assert("C04.ack.expired", err == ErrLeaseExpired && post[i].present && post[i].state == StateQueued && post[i].leaseID == "" && post[i].nextRunAt.Equal(now) && post[i].attempt == pre[i].attempt)
		} else {
			vrt.Assert("C04.ack.untouched", hSame(pre[i], post[i]))
		}
	}
	anyCurrent := false
	for i := range ids {
		if pre[i].state == StateLeased && pre[i].leaseID == presented {
			anyCurrent = true
		}
	}
	if !anyCurrent {
		vrt.Assert("C04.ack.conflict", err == ErrLeaseNotFound)
	}
}

// VerifEnqueueRefusedIsSideEffectFree: C02/C12 on MemoryStore.Enqueue under drop_oldest.
func VerifEnqueueRefused() {
	now := vrt.Time("now")
	s, ids, _ := hBuild(2, now)
	s.maxDepth = 1 + vrt.Choose("maxDepth", 3)
	s.dropPolicy = []string{"reject", "drop_oldest"}[vrt.Choose("policy", 2)]
	// precondition of C12: active count does not exceed maxDepth
	vrt.Assume(s.activeCountLocked() <= s.maxDepth)
	pre := hSnapshot(s, ids)
	newID := []string{"m0", "m1", "new"}[vrt.Choose("id", 3)]
	err := s.Enqueue(Envelope{ID: newID, Route: "r", Target: "t"})
	post := hSnapshot(s, ids)
	if err != nil {
		for i := range ids {
			vrt.Assert("C12.refused.unchanged", hSame(pre[i], post[i]))
		}
	} else {
		vrt.Assert("C12.stored", s.items[newID] != nil && s.items[newID].State == StateQueued)
		vrt.Assert("C12.depth", s.activeCountLocked() <= s.maxDepth)
	}
}

// VerifDequeueExact: C03/C05 on MemoryStore.Dequeue, N=3: returns exactly min(batch, ready),
// only queued+due items, fresh distinct leases, attempt+1.
func VerifDequeueExact() {
	now := vrt.Time("now")
	s, ids, _ := hBuild(3, now)
	pre := hSnapshot(s, ids)
	batch := 1 + vrt.Choose("batch", 3)
	ttl := vrt.Duration("ttl")
	vrt.Assume(ttl > 0)
	resp, err := s.Dequeue(DequeueRequest{Route: "r", Batch: batch, LeaseTTL: ttl})
	vrt.Assert("C05.noerr", err == nil)
	post := hSnapshot(s, ids)
	ready := 0
	for i := range ids {
		expired := pre[i].state == StateLeased && !now.Before(pre[i].leaseUntil)
		due := pre[i].state == StateQueued && !pre[i].nextRunAt.After(now)
		if expired || due {
			ready++
		}
	}
	want := ready
	if batch < want {
		want = batch
	}
	vrt.Assert("C05.exactly-min-batch-ready", len(resp.Items) == want)
	for _, it := range resp.Items {
		for i, id := range ids {
			if it.ID != id {
				continue
			}
			expired := pre[i].state == StateLeased && !now.Before(pre[i].leaseUntil)
			due := pre[i].state == StateQueued && !pre[i].nextRunAt.After(now)
			vrt.Assert("C03.only-ready", expired || due)
			vrt.Assert("C03.attempt+1", it.Attempt == pre[i].attempt+1 && post[i].attempt == pre[i].attempt+1)
			vrt.Assert("C03.leased", post[i].state == StateLeased && post[i].leaseID == it.LeaseID && it.LeaseID != "" && post[i].leaseUntil.Equal(now.Add(ttl)))
		}
	}
	for i := range resp.Items {
		for j := range resp.Items {
			if i != j {
				vrt.Assert("C03.distinct-leases", resp.Items[i].LeaseID != resp.Items[j].LeaseID && resp.Items[i].ID != resp.Items[j].ID)
			}
		}
	}
}

func hIndex(tr []string, from int, prefix string) int {
	for i := from; i < len(tr); i++ {
		if strings.HasPrefix(tr[i], prefix) {
			return i
		}
	}
	return -1
}

// VerifSQLiteEnqueueCommit: C01-O3 for enqueueWithLimit under every fault schedule of the DB.
func VerifSQLiteEnqueueCommit() {
	s := &SQLiteStore{db: vrt.StubDB(), nowFn: time.Now, maxDepth: 5, metrics: newSQLiteRuntimeMetrics(), notify: make(chan struct{})}
	s.dropPolicy = []string{"reject", "drop_oldest"}[vrt.Choose("policy", 2)]
	now := vrt.Time("now")
	err := s.enqueueWithLimit(Envelope{ID: "a", Route: "r", Target: "t", State: StateQueued, Payload: []byte{}, ReceivedAt: now, NextRunAt: now}, nil, nil)
	tr := vrt.Trace()
	begin := hIndex(tr, 0, "Exec:ok:BEGIN IMMEDIATE")
	if err == nil {
		ins := hIndex(tr, begin+1, "Exec:ok:INSERT INTO queue_items")
		com := hIndex(tr, ins+1, "Exec:ok:COMMIT")
		vrt.Assert("C01.nil-means-committed", begin >= 0 && ins > begin && com > ins)
		vrt.Assert("C01.no-rollback-on-success", hIndex(tr, 0, "Exec:ok:ROLLBACK") < 0 && hIndex(tr, 0, "Exec:err:ROLLBACK") < 0)
	}
	if begin >= 0 {
		// every opened transaction is closed by a COMMIT or ROLLBACK attempt
		closed := hIndex(tr, begin+1, "Exec:ok:COMMIT") >= 0 || hIndex(tr, begin+1, "Exec:ok:ROLLBACK") >= 0 || hIndex(tr, begin+1, "Exec:err:ROLLBACK") >= 0
		vrt.Assert("C01.tx-closed", closed)
		vrt.Assert("C01.conn-released", hIndex(tr, begin+1, "ConnClose") >= 0)
	}
}
