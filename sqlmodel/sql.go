// Package verifsql is a small relational model of the SQL subset used by hookaido's SQLiteStore.
// It is ordinary Go: executed natively for differential validation against the real SQLite,
// and executed symbolically by the engine (rows then carry symbolic values).
package verifsql

import (
	"database/sql"
	"errors"
	"strings"
)

// Val is an SQL value: NULL, integer, or text/blob.
type Val struct {
	Null  bool
	IsInt bool
	I     int64
	S     string
}

func Int(i int64) Val { return Val{IsInt: true, I: i} }
func Text(s string) Val { return Val{S: s} }

var NullVal = Val{Null: true}

// Table queue_items, columns in schema order.
var Columns = []string{"id", "route", "target", "state", "received_at", "attempt", "next_run_at", "payload",
	"headers_json", "trace_json", "schema_version", "lease_id", "lease_until", "dead_reason"}

type Row struct{ V []Val }

type DB struct {
	Rows     []*Row
	snapshot []*Row
	inTx     bool
}

// Current is the database behind the stubbed *sql.DB of the harness.
var Current *DB

func colIndex(name string) int {
	for i, c := range Columns {
		if c == name {
			return i
		}
	}
	return -1
}

func (r *Row) clone() *Row { return &Row{V: append([]Val(nil), r.V...)} }

// ---------------------------------------------------------------- lexer

type tok struct {
	k string // "id", "num", "str", "?", "p" (punct), "eof"
	s string
}

func lex(q string) []tok {
	var out []tok
	i := 0
	for i < len(q) {
		c := q[i]
		switch {
		case c == ' ' || c == '\n' || c == '\t' || c == '\r':
			i++
		case c == '?':
			out = append(out, tok{"?", "?"})
			i++
		case c == '\'':
			j := i + 1
			for j < len(q) && q[j] != '\'' {
				j++
			}
			out = append(out, tok{"str", q[i+1 : j]})
			i = j + 1
		case c >= '0' && c <= '9':
			j := i
			for j < len(q) && q[j] >= '0' && q[j] <= '9' {
				j++
			}
			out = append(out, tok{"num", q[i:j]})
			i = j
		case c == '_' || (c >= 'a' && c <= 'z') || (c >= 'A' && c <= 'Z'):
			j := i
			for j < len(q) && (q[j] == '_' || (q[j] >= 'a' && q[j] <= 'z') || (q[j] >= 'A' && q[j] <= 'Z') || (q[j] >= '0' && q[j] <= '9')) {
				j++
			}
			out = append(out, tok{"id", strings.ToLower(q[i:j])})
			i = j
		default:
			if i+1 < len(q) {
				two := q[i : i+2]
				if two == "<=" || two == ">=" || two == "<>" || two == "!=" || two == "||" {
					out = append(out, tok{"p", two})
					i += 2
					continue
				}
			}
			out = append(out, tok{"p", string(c)})
			i++
		}
	}
	return append(out, tok{"eof", ""})
}

// ---------------------------------------------------------------- expressions

type expr struct {
	op   string // "col", "param", "int", "str", "null", "and", "or", "not", cmp ops, "isnull", "notnull", "+", "-", "in"
	name string
	n    int64
	idx  int
	a, b *expr
	list []*expr
}

type parser struct {
	t      []tok
	i      int
	params int
	err    error
}

func (p *parser) peek() tok { return p.t[p.i] }
func (p *parser) next() tok { t := p.t[p.i]; p.i++; return t }
func (p *parser) kw(s string) bool {
	if p.peek().k == "id" && p.peek().s == s {
		p.i++
		return true
	}
	return false
}
func (p *parser) punct(s string) bool {
	if p.peek().k == "p" && p.peek().s == s {
		p.i++
		return true
	}
	return false
}
func (p *parser) fail(msg string) {
	if p.err == nil {
		p.err = errors.New("verifsql: " + msg + " near " + p.peek().s)
	}
}

func (p *parser) parseOr() *expr {
	e := p.parseAnd()
	for p.kw("or") {
		e = &expr{op: "or", a: e, b: p.parseAnd()}
	}
	return e
}
func (p *parser) parseAnd() *expr {
	e := p.parseNot()
	for p.kw("and") {
		e = &expr{op: "and", a: e, b: p.parseNot()}
	}
	return e
}
func (p *parser) parseNot() *expr {
	if p.kw("not") {
		return &expr{op: "not", a: p.parseNot()}
	}
	return p.parseCmp()
}
func (p *parser) parseCmp() *expr {
	e := p.parseAdd()
	for {
		switch {
		case p.kw("is"):
			if p.kw("not") {
				if !p.kw("null") {
					p.fail("expected NULL")
				}
				e = &expr{op: "notnull", a: e}
			} else {
				if !p.kw("null") {
					p.fail("expected NULL")
				}
				e = &expr{op: "isnull", a: e}
			}
		case p.kw("in"):
			if !p.punct("(") {
				p.fail("expected (")
			}
			in := &expr{op: "in", a: e}
			for {
				in.list = append(in.list, p.parseAdd())
				if !p.punct(",") {
					break
				}
			}
			if !p.punct(")") {
				p.fail("expected )")
			}
			e = in
		case p.peek().k == "p" && (p.peek().s == "=" || p.peek().s == "<" || p.peek().s == "<=" || p.peek().s == ">" || p.peek().s == ">=" || p.peek().s == "<>" || p.peek().s == "!="):
			op := p.next().s
			e = &expr{op: op, a: e, b: p.parseAdd()}
		default:
			return e
		}
	}
}
func (p *parser) parseAdd() *expr {
	e := p.parsePrimary()
	for p.peek().k == "p" && (p.peek().s == "+" || p.peek().s == "-") {
		op := p.next().s
		e = &expr{op: op, a: e, b: p.parsePrimary()}
	}
	return e
}
func (p *parser) parsePrimary() *expr {
	t := p.next()
	switch t.k {
	case "?":
		e := &expr{op: "param", idx: p.params}
		p.params++
		return e
	case "num":
		var n int64
		for _, c := range t.s {
			n = n*10 + int64(c-'0')
		}
		return &expr{op: "int", n: n}
	case "str":
		return &expr{op: "str", name: t.s}
	case "id":
		if t.s == "null" {
			return &expr{op: "null"}
		}
		if colIndex(t.s) < 0 {
			p.fail("unknown column " + t.s)
		}
		return &expr{op: "col", name: t.s, idx: colIndex(t.s)}
	case "p":
		if t.s == "(" {
			e := p.parseOr()
			if !p.punct(")") {
				p.fail("expected )")
			}
			return e
		}
	}
	p.fail("unexpected token")
	return &expr{op: "null"}
}

func truth(v Val) bool { return !v.Null && v.IsInt && v.I != 0 }
func boolVal(b bool) Val {
	if b {
		return Int(1)
	}
	return Int(0)
}

func cmp(op string, a, b Val) Val {
	if a.Null || b.Null {
		return NullVal
	}
	var lt, eq bool
	if a.IsInt && b.IsInt {
		lt, eq = a.I < b.I, a.I == b.I
	} else if !a.IsInt && !b.IsInt {
		lt, eq = a.S < b.S, a.S == b.S
	} else {
		// SQLite orders integers before text
		lt, eq = a.IsInt, false
	}
	switch op {
	case "=":
		return boolVal(eq)
	case "<>", "!=":
		return boolVal(!eq)
	case "<":
		return boolVal(lt)
	case "<=":
		return boolVal(lt || eq)
	case ">":
		return boolVal(!lt && !eq)
	case ">=":
		return boolVal(!lt)
	}
	return NullVal
}

func (e *expr) eval(r *Row, args []Val) Val {
	switch e.op {
	case "col":
		return r.V[e.idx]
	case "param":
		return args[e.idx]
	case "int":
		return Int(e.n)
	case "str":
		return Text(e.name)
	case "null":
		return NullVal
	case "and":
		a, b := e.a.eval(r, args), e.b.eval(r, args)
		if (!a.Null && !truth(a)) || (!b.Null && !truth(b)) {
			return Int(0)
		}
		if a.Null || b.Null {
			return NullVal
		}
		return Int(1)
	case "or":
		a, b := e.a.eval(r, args), e.b.eval(r, args)
		if truth(a) || truth(b) {
			return Int(1)
		}
		if a.Null || b.Null {
			return NullVal
		}
		return Int(0)
	case "not":
		a := e.a.eval(r, args)
		if a.Null {
			return NullVal
		}
		return boolVal(!truth(a))
	case "isnull":
		return boolVal(e.a.eval(r, args).Null)
	case "notnull":
		return boolVal(!e.a.eval(r, args).Null)
	case "in":
		a := e.a.eval(r, args)
		if a.Null {
			return NullVal
		}
		for _, x := range e.list {
			if truth(cmp("=", a, x.eval(r, args))) {
				return Int(1)
			}
		}
		return Int(0)
	case "+", "-":
		a, b := e.a.eval(r, args), e.b.eval(r, args)
		if a.Null || b.Null {
			return NullVal
		}
		if e.op == "+" {
			return Int(a.I + b.I)
		}
		return Int(a.I - b.I)
	default:
		return cmp(e.op, e.a.eval(r, args), e.b.eval(r, args))
	}
}

// ---------------------------------------------------------------- statements

func toVals(args []any) ([]Val, error) {
	out := make([]Val, len(args))
	for i, a := range args {
		switch x := a.(type) {
		case nil:
			out[i] = NullVal
		case string:
			out[i] = Text(x)
		case int:
			out[i] = Int(int64(x))
		case int64:
			out[i] = Int(x)
		case []byte:
			out[i] = Text(string(x))
		default:
			return nil, errors.New("verifsql: unsupported argument type")
		}
	}
	return out, nil
}

// Exec runs a data-modifying statement and returns the number of affected rows.
func Exec(query string, args []any) (int64, error) {
	db := Current
	vals, err := toVals(args)
	if err != nil {
		return 0, err
	}
	p := &parser{t: lex(query)}
	switch {
	case p.kw("begin"):
		db.snapshot = nil
		for _, r := range db.Rows {
			db.snapshot = append(db.snapshot, r.clone())
		}
		db.inTx = true
		return 0, nil
	case p.kw("commit"):
		db.inTx, db.snapshot = false, nil
		return 0, nil
	case p.kw("rollback"):
		if db.inTx {
			db.Rows, db.snapshot, db.inTx = db.snapshot, nil, false
		}
		return 0, nil
	case p.kw("update"):
		if !p.kw("queue_items") || !p.kw("set") {
			return 0, errors.New("verifsql: unsupported UPDATE")
		}
		type asg struct {
			col int
			e   *expr
		}
		var sets []asg
		for {
			c := p.next()
			if c.k != "id" || colIndex(c.s) < 0 || !p.punct("=") {
				return 0, errors.New("verifsql: bad SET")
			}
			sets = append(sets, asg{colIndex(c.s), p.parseAdd()})
			if !p.punct(",") {
				break
			}
		}
		var where *expr
		if p.kw("where") {
			where = p.parseOr()
		}
		p.punct(";")
		if p.err != nil || p.peek().k != "eof" {
			return 0, errors.New("verifsql: unsupported UPDATE tail")
		}
		n := int64(0)
		for _, r := range db.Rows {
			if where != nil && !truth(where.eval(r, vals)) {
				continue
			}
			nv := make([]Val, len(sets))
			for i, s := range sets {
				nv[i] = s.e.eval(r, vals) // all right-hand sides see the old row
			}
			for i, s := range sets {
				r.V[s.col] = nv[i]
			}
			n++
		}
		return n, nil
	case p.kw("delete"):
		if !p.kw("from") || !p.kw("queue_items") {
			return 0, errors.New("verifsql: unsupported DELETE")
		}
		var where *expr
		if p.kw("where") {
			where = p.parseOr()
		}
		p.punct(";")
		if p.err != nil || p.peek().k != "eof" {
			return 0, errors.New("verifsql: unsupported DELETE tail")
		}
		var keep []*Row
		n := int64(0)
		for _, r := range db.Rows {
			if where == nil || truth(where.eval(r, vals)) {
				n++
				continue
			}
			keep = append(keep, r)
		}
		db.Rows = keep
		return n, nil
	}
	return 0, errors.New("verifsql: unsupported statement")
}

// QueryRow runs "SELECT cols FROM queue_items WHERE ... [LIMIT 1]" and returns the first row's values.
func QueryRow(query string, args []any) ([]Val, bool, error) {
	db := Current
	vals, err := toVals(args)
	if err != nil {
		return nil, false, err
	}
	p := &parser{t: lex(query)}
	if !p.kw("select") {
		return nil, false, errors.New("verifsql: unsupported query")
	}
	var cols []int
	for {
		c := p.next()
		if c.k != "id" || colIndex(c.s) < 0 {
			return nil, false, errors.New("verifsql: bad column")
		}
		cols = append(cols, colIndex(c.s))
		if !p.punct(",") {
			break
		}
	}
	if !p.kw("from") || !p.kw("queue_items") {
		return nil, false, errors.New("verifsql: unsupported FROM")
	}
	var where *expr
	if p.kw("where") {
		where = p.parseOr()
	}
	if p.kw("limit") {
		p.next()
	}
	p.punct(";")
	if p.err != nil || p.peek().k != "eof" {
		return nil, false, errors.New("verifsql: unsupported SELECT tail")
	}
	for _, r := range db.Rows {
		if where == nil || truth(where.eval(r, vals)) {
			out := make([]Val, len(cols))
			for i, c := range cols {
				out[i] = r.V[c]
			}
			return out, true, nil
		}
	}
	return nil, false, nil
}

// Query runs "SELECT cols FROM queue_items [WHERE ...] [LIMIT n]" and returns every matching row in table order.
func Query(query string, args []any) ([][]Val, error) {
	db := Current
	vals, err := toVals(args)
	if err != nil {
		return nil, err
	}
	p := &parser{t: lex(query)}
	if !p.kw("select") {
		return nil, errors.New("verifsql: unsupported query")
	}
	var cols []int
	for {
		c := p.next()
		if c.k != "id" || colIndex(c.s) < 0 {
			return nil, errors.New("verifsql: bad column")
		}
		cols = append(cols, colIndex(c.s))
		if !p.punct(",") {
			break
		}
	}
	if !p.kw("from") || !p.kw("queue_items") {
		return nil, errors.New("verifsql: unsupported FROM")
	}
	var where *expr
	if p.kw("where") {
		where = p.parseOr()
	}
	limit := int64(-1)
	if p.kw("limit") {
		l := p.next()
		if l.k != "num" {
			return nil, errors.New("verifsql: unsupported LIMIT")
		}
		limit = 0
		for _, c := range l.s {
			limit = limit*10 + int64(c-'0')
		}
	}
	p.punct(";")
	if p.err != nil || p.peek().k != "eof" {
		return nil, errors.New("verifsql: unsupported SELECT tail")
	}
	var out [][]Val
	for _, r := range db.Rows {
		if limit >= 0 && int64(len(out)) >= limit {
			break
		}
		if where == nil || truth(where.eval(r, vals)) {
			row := make([]Val, len(cols))
			for i, c := range cols {
				row[i] = r.V[c]
			}
			out = append(out, row)
		}
	}
	return out, nil
}

// ScanInto assigns SQL values to database/sql scan destinations.
func ScanInto(dest []any, vals []Val) error {
	if len(dest) != len(vals) {
		return errors.New("verifsql: scan arity")
	}
	for i, d := range dest {
		v := vals[i]
		switch d := d.(type) {
		case *string:
			if v.Null {
				return errors.New("verifsql: NULL into *string")
			}
			*d = v.S
		case *int:
			*d = int(v.I)
		case *int64:
			*d = v.I
		case *sql.NullInt64:
			d.Int64, d.Valid = v.I, !v.Null
		case *sql.NullString:
			d.String, d.Valid = v.S, !v.Null
		default:
			return errors.New("verifsql: unsupported scan destination")
		}
	}
	return nil
}

// SelectArity returns the number of columns in the select list of a supported SELECT.
func SelectArity(query string) (int, error) {
	p := &parser{t: lex(query)}
	if !p.kw("select") {
		return 0, errors.New("verifsql: unsupported query")
	}
	n := 0
	for {
		c := p.next()
		if c.k != "id" {
			return 0, errors.New("verifsql: bad column")
		}
		n++
		if !p.punct(",") {
			break
		}
	}
	return n, nil
}
