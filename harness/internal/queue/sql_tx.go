//go:build verif

package queue

// Tier 1 (DESIGN.md §5): transaction discipline of the SQLite store with database/sql as havoc stubs —
// every Exec/Query/Scan/RowsAffected answers arbitrarily or fails; the harness inspects the ordered trace.

import (
	"strings"
	"time"

	vrt "github.com/nuetzliches/hookaido/internal/verifrt"
)

func trIndex(tr []string, from int, prefix string) int {
	for i := from; i < len(tr); i++ {
		if strings.HasPrefix(tr[i], prefix) {
			return i
		}
	}
	return -1
}

func trCount(tr []string, prefix string) int {
	n := 0
	for _, e := range tr {
		if strings.HasPrefix(e, prefix) {
			n++
		}
	}
	return n
}

// verif:harness props=C01 tier=quick weight=40
// verif:bounds SQLiteStore.Enqueue (max_depth 5, reject or drop_oldest), EnqueueBatch(2), Ack (conflict resolution path), AckBatch(2 ids), NackBatch, with EVERY database call (Conn, Exec incl. BEGIN/COMMIT/ROLLBACK, QueryRow/Scan, Query/Rows, RowsAffected) failing or answering arbitrarily: every fault schedule
func VerifC01SQLiteTxDiscipline() {
	s := &SQLiteStore{db: vrt.StubDB(), nowFn: time.Now, maxDepth: 5, metrics: newSQLiteRuntimeMetrics(), notify: make(chan struct{})}
	if vrt.Choose("policy", 2) == 1 {
		s.dropPolicy = "drop_oldest"
	}
	vrt.Replace(isSQLiteConstraintError, func(err error) bool { return err != nil && strings.Contains(err.Error(), "constraint") })
	now := time.Unix(1700000000, 0)
	env := func(id string) Envelope {
		return Envelope{ID: id, Route: "r", Target: "t", State: StateQueued, Payload: []byte{}, ReceivedAt: now, NextRunAt: now}
	}
	op := vrt.Choose("op", 5)
	var err error
	succeeded := 0
	switch op {
	case 0:
		err = s.Enqueue(env("a"))
	case 1:
		var n int
		n, err = s.EnqueueBatch([]Envelope{env("a"), env("b")})
		succeeded = n
	case 2:
		err = s.Ack("L0")
	case 3:
		var r LeaseBatchResult
		r, err = s.AckBatch([]string{"L0", "L1"})
		succeeded = r.Succeeded
	case 4:
		var r LeaseBatchResult
		r, err = s.NackBatch([]string{"L0"}, time.Second)
		succeeded = r.Succeeded
	}
	tr := vrt.Trace()
	begins := trCount(tr, "Exec:ok:BEGIN IMMEDIATE")
	commitsOK := trCount(tr, "Exec:ok:COMMIT")
	closes := commitsOK + trCount(tr, "Exec:err:COMMIT") + trCount(tr, "Exec:ok:ROLLBACK") + trCount(tr, "Exec:err:ROLLBACK")
	// every transaction that was opened is closed by a COMMIT or ROLLBACK attempt before the call returns
	vrt.Assert("C01.tx.no-transaction-left-open-on-the-pooled-connection", begins <= 1 && (begins == 0 || closes >= 1))
	if trIndex(tr, 0, "Conn:ok") >= 0 {
		vrt.Assert("C01.tx.connection-released", trIndex(tr, 0, "ConnClose") >= 0)
	}
	if begins == 1 {
		b := trIndex(tr, 0, "Exec:ok:BEGIN IMMEDIATE")
		c := trIndex(tr, b+1, "Exec:ok:COMMIT")
		if err == nil && (op <= 1 || succeeded > 0) {
			// acknowledged => the mutating statements were committed, nothing was rolled back
			vrt.Assert("C01.tx.success-means-committed", c > b && trIndex(tr, b+1, "Exec:ok:ROLLBACK") < 0 && trIndex(tr, b+1, "Exec:err:ROLLBACK") < 0)
			vrt.Assert("C01.tx.no-failed-statement-inside-a-committed-transaction", trIndex(tr, b+1, "Exec:err:") < 0 || trIndex(tr, b+1, "Exec:err:") > c)
		}
		if err != nil && err != ErrLeaseExpired {
			// a call that reports an error has not committed anything
			vrt.Assert("C02.tx.error-means-nothing-committed", c < 0)
		}
	}
	if op == 1 && err == nil {
		vrt.Assert("C01.tx.batch-all-or-nothing-count", succeeded == 2)
	}
}

// verif:harness props=C01,C03,C05 tier=quick weight=30
// verif:bounds SQLiteStore.init + migrate (what NewSQLiteStore runs on every start) with EVERY database call failing or answering arbitrarily: the journal_mode pragma answers wal / WAL / delete, the stored schema version is absent or any value 0..7 (the binary knows 6), every PRAGMA / DDL / BEGIN / COMMIT may fail
func VerifC01SQLiteOpen() {
	s := &SQLiteStore{db: vrt.StubDB(), nowFn: time.Now, metrics: newSQLiteRuntimeMetrics(), notify: make(chan struct{})}
	err := s.init()
	tr := vrt.Trace()
	begins := trCount(tr, "Exec:ok:BEGIN IMMEDIATE")
	closes := trCount(tr, "Exec:ok:COMMIT") + trCount(tr, "Exec:err:COMMIT") + trCount(tr, "Exec:ok:ROLLBACK") + trCount(tr, "Exec:err:ROLLBACK")
	vrt.Assert("C01.open.no-transaction-left-open", begins <= 1 && (begins == 0 || closes >= 1))
	if trIndex(tr, 0, "Conn:ok") >= 0 {
		vrt.Assert("C01.open.connection-released", trIndex(tr, 0, "ConnClose") >= 0)
	}
	ddl := func(from int) int {
		n := 0
		for i := from; i < len(tr); i++ {
			if strings.HasPrefix(tr[i], "Exec:ok:CREATE") || strings.HasPrefix(tr[i], "Exec:ok:ALTER") || strings.HasPrefix(tr[i], "Exec:ok:DROP") || strings.HasPrefix(tr[i], "Exec:ok:INSERT OR REPLACE INTO schema_migrations") {
				n++
			}
		}
		return n
	}
	b := trIndex(tr, 0, "Exec:ok:BEGIN IMMEDIATE")
	// opening the database (a restart, or a second process such as `hookaido mcp serve`) is not a queue operation:
	// it never rewrites or deletes message rows, so live leases survive it
	touched := false
	for _, e := range tr {
		for _, p := range []string{"Exec:ok:UPDATE queue_items", "Exec:err:UPDATE queue_items", "Exec:ok:DELETE FROM queue_items", "Exec:err:DELETE FROM queue_items"} {
			touched = touched || strings.HasPrefix(e, p)
		}
	}
	vrt.Assert("C03.open.reopening-the-database-touches-no-message-row", !touched)
	if err != nil {
		vrt.Cover("open.refused")
		// a store that refuses to open has changed nothing durably
		vrt.Assert("C01.open.error-means-nothing-committed", trIndex(tr, 0, "Exec:ok:COMMIT") < 0)
		return
	}
	vrt.Cover("open.ok")
	// durability settings are in force before any table is touched
	okWal := trIndex(tr, 0, "ScanString:wal") >= 0 || trIndex(tr, 0, "ScanString:WAL") >= 0
	vrt.Assert("C01.open.success-means-journal-mode-wal-confirmed", okWal && trIndex(tr, 0, "ScanString:delete") < 0)
	sy := trIndex(tr, 0, "Exec:ok:PRAGMA synchronous=FULL")
	vrt.Assert("C01.open.success-means-synchronous-full-before-the-first-transaction", sy >= 0 && b > sy)
	c := trIndex(tr, b+1, "Exec:ok:COMMIT")
	vrt.Assert("C01.open.schema-changes-inside-one-committed-transaction", b >= 0 && c > b && ddl(0) == ddl(b+1) && ddl(c+1) == 0)
	vrt.Assert("C01.open.no-failed-statement-and-no-rollback-inside-the-committed-transaction", trIndex(tr, b+1, "Exec:err:") < 0 && trIndex(tr, b+1, "Exec:ok:ROLLBACK") < 0)
	// the stored version: absent / older => every missing migration ran, in order, and the version row was written; newer => refused
	vrt.Assert("C01.open.version-was-read", trIndex(tr, b+1, "QueryRow:SELECT version FROM schema_migrations") > b)
	ran := 0
	for i := b + 1; i < c; i++ {
		if strings.HasPrefix(tr[i], "Exec:ok:") && !strings.HasPrefix(tr[i], "Exec:ok:CREATE TABLE IF NOT EXISTS schema_migrations") && !strings.HasPrefix(tr[i], "Exec:ok:INSERT OR REPLACE INTO schema_migrations") {
			ran++
		}
	}
	wrote := trIndex(tr, b+1, "Exec:ok:INSERT OR REPLACE INTO schema_migrations") > b
	vrt.Observe("migrations-run", ran)
	vrt.Assert("C01.open.migrations-run-implies-version-row-written", ran == 0 || wrote)
	vrt.Assert("C01.open.at-most-the-known-migrations", ran <= schemaVersion)
}
