//go:build verif

package queue

// SQLiteStore.Dequeue / Enqueue over the interpreted SQL model: the candidate CTE, ORDER BY/LIMIT,
// UPDATE ... RETURNING, the expired-lease sweep and its throttle, the depth check/drop/insert transaction.

import (
	"time"

	vrt "github.com/nuetzliches/hookaido/internal/verifrt"
	vsql "github.com/nuetzliches/hookaido/internal/verifsql"
)

// verif:harness props=C05,C03,C01 tier=quick weight=120 tonly=C05
// verif:bounds SQLiteStore.Dequeue over the SQL model: N=2 rows (thorough 3) on routes r0/r1 in any state with arbitrary timestamps; route filter none/r0/r1; batch 1..2; arbitrary positive lease TTL; the expired-lease sweep either due (last sweep at an arbitrary instant at least the sweep interval ago, or never) or throttled (a nanosecond ago); one call; the store object is fresh apart from the sweep stamp, i.e. this is also the first dequeue after a restart on a table left behind by a killed process (C01: leased-at-crash messages are offered again)
func VerifC05SQLDequeue() {
	n, maxBatch := 2, 2
	if vrt.Thorough() {
		n, maxBatch = 3, 2
	}
	w, _ := qNew(n, false, true)
	now := w.now
	vrt.Assume(now.UnixNano() > int64(time.Hour)) // (the store treats a zero last-sweep stamp as "long ago"; the clock is far from the epoch)
	sweepDue := vrt.Bool("sweep-due")
	if sweepDue {
		// the last sweep ran at ANY instant at least one sweep interval ago (0 = never, e.g. right after a restart
		// with leases of the previous process still in the table)
		last := vrt.Int64("last-sweep")
		vrt.Assume(last >= 0 && last <= now.UnixNano()-int64(defaultSQLiteLeaseSweepInterval))
		w.s.lastLeaseSweepNanos = last
	} else {
		w.s.lastLeaseSweepNanos = now.UnixNano() - 1 // a sweep ran a nanosecond ago
	}
	pre := w.snap()
	filter := []string{"", "r0", "r1"}[vrt.Choose("filter", 3)]
	batch := 1 + vrt.Choose("batch", maxBatch)
	ttl := vrt.Duration("ttl")
	vrt.Assume(ttl > 0 && ttl < 1000*time.Hour)
	resp, err := w.s.Dequeue(DequeueRequest{Route: filter, Batch: batch, LeaseTTL: ttl})
	post := w.snap()
	vrt.Assert("C05.sql.dequeue.noerr", err == nil)
	if err != nil {
		return
	}
	until := now.Add(ttl)
	// what the table must look like after the sweep and before the candidates are leased
	mid := append([]mSnap{}, pre...)
	ready := 0
	for i := range mid {
		expired := mid[i].state == StateLeased && !now.Before(mid[i].leaseUntil)
		if expired && sweepDue {
			mid[i] = refRequeued(mid[i], now)
		}
		isReady := mid[i].state == StateQueued && !now.Before(mid[i].nextRunAt) && (filter == "" || mid[i].route == filter)
		if isReady {
			ready++
		}
	}
	wantN := batch
	if ready < wantN {
		wantN = ready
	}
	vrt.Assert("C05.sql.dequeue.returns-exactly-min-batch-ready", len(resp.Items) == wantN)
	returned := make([]bool, n)
	for k, it := range resp.Items {
		idx := -1
		for i := range mid {
			if mid[i].id == it.ID {
				idx = i
			}
		}
		vrt.Assert("C03.sql.dequeue.returned-item-exists", idx >= 0)
		if idx < 0 {
			continue
		}
		vrt.Assert("C03.sql.dequeue.no-message-returned-twice-in-a-batch", !returned[idx])
		returned[idx] = true
		m := mid[idx]
		okReady := m.state == StateQueued && !now.Before(m.nextRunAt) && (filter == "" || m.route == filter)
		vrt.Assert("C03.sql.dequeue.only-ready-messages-of-the-route", okReady)
		// never a live lease, never a settled message
		live := pre[idx].state == StateLeased && now.Before(pre[idx].leaseUntil)
		settled := pre[idx].state == StateDelivered || pre[idx].state == StateDead || pre[idx].state == StateCanceled
		vrt.Assert("C03.sql.dequeue.never-a-live-lease-or-settled-message", !live && !settled)
		fresh := it.LeaseID != ""
		for i := range pre {
			if pre[i].leaseID == it.LeaseID {
				fresh = false
			}
		}
		for k2 := 0; k2 < k; k2++ {
			if resp.Items[k2].LeaseID == it.LeaseID {
				fresh = false
			}
		}
		vrt.Assert("C03.sql.dequeue.fresh-lease-id", fresh)
		okItem := it.State == StateLeased && it.Attempt == pre[idx].attempt+1 && it.LeaseUntil.Equal(until) && it.Route == m.route && it.Target == m.target && it.ReceivedAt.Equal(m.receivedAt) && string(it.Payload) == "p"
		vrt.Assert("C03.sql.dequeue.item-fields-and-attempt-plus-one", okItem)
		want := m
		want.state, want.leaseID, want.leaseUntil, want.nextRunAt, want.attempt = StateLeased, it.LeaseID, until, until, pre[idx].attempt+1
		vrt.Assert("C03.sql.dequeue.table-row-holds-the-lease-handed-out", sameRow(want, post[idx]))
	}
	for i := range mid {
		if returned[i] {
			continue
		}
		// everything not handed out: only the sweep may have touched it — on EVERY route when the sweep is due
		vrt.Assert("C05.sql.dequeue.rest-is-untouched-except-swept-expired-leases", sameRow(mid[i], post[i]))
		// earliest first: nothing ready and strictly earlier than a returned item is left behind
		isReady := mid[i].state == StateQueued && !now.Before(mid[i].nextRunAt) && (filter == "" || mid[i].route == filter)
		if isReady {
			for j := range mid {
				if returned[j] {
					earlier := mid[i].nextRunAt.Before(mid[j].nextRunAt) || (mid[i].nextRunAt.Equal(mid[j].nextRunAt) && mid[i].receivedAt.Before(mid[j].receivedAt))
					vrt.Assert("C05.sql.dequeue.earliest-ready-first", !earlier)
				}
			}
		}
	}
	if sweepDue {
		vrt.Cover("sqldequeue.swept")
		vrt.Assert("C05.sql.dequeue.sweep-stamp-advanced", w.s.lastLeaseSweepNanos == now.UnixNano())
	} else {
		vrt.Cover("sqldequeue.throttled")
	}
	if len(resp.Items) > 0 {
		vrt.Cover("sqldequeue.leased-something")
	}
	vrt.Assert("C02.sql.inv.dequeue", qInv(w))
}

// verif:harness props=C12 tier=quick weight=120
// verif:bounds SQLiteStore.Enqueue / EnqueueBatch(2) over the SQL model: N=2 rows (thorough 3) in any state; max_depth 0 (off), 1..N+1; drop policy reject / drop_oldest; new ids from {fresh, fresh2, id of row 0}; the queueLikelyFull fast path armed or not
func VerifC12SQLEnqueue() {
	n := 2
	if vrt.Thorough() {
		n = 3
	}
	w, _ := qNew(n, false)
	vrt.Replace(isSQLiteConstraintError, func(err error) bool { return err == vsql.ErrConstraint })
	maxDepth := vrt.Choose("max-depth", n+2)
	w.s.maxDepth = maxDepth
	dropOldest := vrt.Bool("drop-oldest")
	w.s.dropPolicy = "reject"
	if dropOldest {
		w.s.dropPolicy = "drop_oldest"
	}
	pre := w.snap()
	active, queued := 0, 0
	for _, p := range pre {
		if p.state == StateQueued || p.state == StateLeased {
			active++
		}
		if p.state == StateQueued {
			queued++
		}
	}
	if vrt.Bool("likely-full-armed") {
		// the hint is only ever set after the store observed a full queue; it may be stale
		w.s.queueLikelyFull.Store(true)
	}
	idMenu := []string{"n1", "n2", "m0"}
	k := 1 + vrt.Choose("items", 2)
	ids := make([]string, k)
	for j := range ids {
		ids[j] = idMenu[vrt.Choose("new-id", len(idMenu))]
	}
	var err error
	stored := 0
	if k == 1 && vrt.Bool("single-call") {
		err = w.s.Enqueue(Envelope{ID: ids[0], Route: "rN", Target: "t0", Payload: []byte("q")})
		if err == nil {
			stored = 1
		}
	} else {
		envs := make([]Envelope, k)
		for j := range envs {
			envs[j] = Envelope{ID: ids[j], Route: "rN", Target: "t0", Payload: []byte("q")}
		}
		stored, err = w.s.EnqueueBatch(envs)
	}
	post := w.snap()
	// the new messages are recognisable by their route "rN" (a new message may reuse the id of a message that was evicted for it)
	newRows := 0
	rc, stc := -1, -1
	for c, name := range vsql.Columns {
		if name == "route" {
			rc = c
		}
		if name == "state" {
			stc = c
		}
	}
	for _, r := range w.db.Rows {
		if r.V[rc].S == "rN" && r.V[stc].S == string(StateQueued) {
			newRows++
		}
	}
	evicted, touched := 0, false
	for i := range pre {
		if !post[i].present || post[i].route == "rN" {
			evicted++
			// only the oldest QUEUED message may be evicted, never a leased or settled one
			okVictim := pre[i].state == StateQueued
			for j := range pre {
				if j != i && pre[j].state == StateQueued && post[j].present && post[j].route != "rN" && pre[j].receivedAt.Before(pre[i].receivedAt) {
					okVictim = false
				}
			}
			vrt.Assert("C12.sql.enqueue.evicts-only-the-oldest-queued", okVictim && dropOldest)
		} else if !sameRow(pre[i], post[i]) {
			touched = true
		}
	}
	vrt.Assert("C12.sql.enqueue.existing-rows-never-modified", !touched)
	if err != nil {
		vrt.Cover("sqlenqueue.refused")
		vrt.Assert("C12.sql.enqueue.refused-changes-nothing", evicted == 0 && newRows == 0 && stored == 0)
		return
	}
	vrt.Cover("sqlenqueue.admitted")
	vrt.Assert("C12.sql.enqueue.admitted-stores-every-item", stored == k && newRows == k)
	if maxDepth > 0 {
		if active <= maxDepth { // (histories in which the active count already exceeds max_depth are outside the property)
			vrt.Assert("C12.sql.enqueue.one-eviction-per-stored-message-at-most", evicted <= k)
			vrt.Assert("C12.sql.enqueue.never-above-max-depth", active-evicted+k <= maxDepth)
			if !dropOldest {
				vrt.Assert("C12.sql.enqueue.reject-never-evicts", evicted == 0)
			} else if active+k <= maxDepth {
				vrt.Assert("C12.sql.enqueue.no-eviction-while-there-is-room", evicted == 0)
			}
		}
	} else {
		vrt.Assert("C12.sql.enqueue.unlimited-never-evicts", evicted == 0)
	}
	vrt.Assert("C02.sql.inv.enqueue", qInv(w))
}

// verif:harness props=C03,C05 tier=quick weight=60
// verif:bounds SQLiteStore over the SQL model, N=2 rows in any state with arbitrary timestamps (leased rows as the store writes them: next_run_at = lease_until); step 1: extend / nack / nothing with a lease id from {current ids, unknown} and an arbitrary amount; the clock then advances by an arbitrary amount; step 2: Dequeue of batch N (sweep due) with arbitrary TTL; the messages handed out are exactly those that the CONTRACT (reference effect of step 1 on the pre-state) makes ready at that instant
func VerifC03SQLTwoStep() {
	n := 2
	w, _ := qNew(n, false)
	vrt.Assume(w.now.UnixNano() > int64(time.Hour))
	pre := w.snap()
	ghost := append([]mSnap{}, pre...)
	op := []int{opExtend, opNack, -1}[vrt.Choose("first-step", 3)]
	d := vrt.Duration("d")
	vrt.Assume(d > -1000*time.Hour && d < 1000*time.Hour)
	if op >= 0 {
		presented := []string{"L0", "L1", "zz"}[vrt.Choose("lease", 3)]
		var err error
		if op == opExtend {
			err = w.s.Extend(presented, d)
		} else {
			err = w.s.Nack(presented, d)
		}
		for i := 0; i < n; i++ {
			if pre[i].state != StateLeased || pre[i].leaseID != presented {
				continue
			}
			switch {
			case op == opExtend && d <= 0:
			case w.now.Before(pre[i].leaseUntil):
				ghost[i] = refLeaseEffect(op, pre[i], w.now, d, "", false)
				vrt.Assert("C03.sql.twostep.live-lease-op-accepted", err == nil)
			default:
				ghost[i] = refRequeued(pre[i], w.now)
			}
		}
	}
	adv := vrt.Duration("clock-advance")
	vrt.Assume(adv >= 0 && adv < 1000*time.Hour)
	w.now = w.now.Add(adv)
	w.s.lastLeaseSweepNanos = 0
	ttl := vrt.Duration("ttl")
	vrt.Assume(ttl > 0 && ttl < 1000*time.Hour)
	res, err := w.s.Dequeue(DequeueRequest{Batch: n, LeaseTTL: ttl})
	vrt.Assert("C05.sql.twostep.dequeue-ok", err == nil)
	ready := 0
	for i := 0; i < n; i++ {
		g := ghost[i]
		isReady := (g.state == StateQueued && !w.now.Before(g.nextRunAt)) || (g.state == StateLeased && !w.now.Before(g.leaseUntil))
		if isReady {
			ready++
		}
		got := false
		for _, it := range res.Items {
			if it.ID == g.id {
				got = true
			}
		}
		vrt.Assert("C03.sql.twostep.unexpired-lease-or-not-yet-due-message-is-not-handed-out", !got || isReady)
		vrt.Assert("C05.sql.twostep.every-ready-message-is-handed-out", got || !isReady)
	}
	vrt.Assert("C05.sql.twostep.exactly-the-ready-ones", len(res.Items) == ready)
}
