// Copyright 2013 The Go Authors. All rights reserved.
// Use of this source code is governed by a BSD-style
// license that can be found in the LICENSE file.

// Package ssa/interp defines an interpreter for the SSA
// representation of Go programs.
//
// This interpreter is provided as an adjunct for testing the SSA
// construction algorithm.  Its purpose is to provide a minimal
// metacircular implementation of the dynamic semantics of each SSA
// instruction.  It is not, and will never be, a production-quality Go
// interpreter.
//
// The following is a partial list of Go features that are currently
// unsupported or incomplete in the interpreter.
//
// * Unsafe operations, including all uses of unsafe.Pointer, are
// impossible to support given the "boxed" value representation we
// have chosen.
//
// * The reflect package is only partially implemented.
//
// * The "testing" package is no longer supported because it
// depends on low-level details that change too often.
//
// * "sync/atomic" operations are not atomic due to the "boxed" value
// representation: it is not possible to read, modify and write an
// interface value atomically. As a consequence, Mutexes are currently
// broken.
//
// * recover is only partially implemented.  Also, the interpreter
// makes no attempt to distinguish target panics from interpreter
// crashes.
//
// * the sizes of the int, uint and uintptr types in the target
// program are assumed to be the same as those of the interpreter
// itself.
//
// * all values occupy space, even those of types defined by the spec
// to have zero size, e.g. struct{}.  This can cause asymptotic
// performance degradation.
//
// * os.Exit is implemented using panic, causing deferred functions to
// run.
package sx

import (
	"fmt"
	"strings"
	"go/token"
	"go/types"
	"log"
	"os"
	"reflect"
	"runtime"
	"slices"
	"sync/atomic"
	_ "unsafe"

	"golang.org/x/tools/go/ssa"
	
)

type continuation int

const (
	kNext continuation = iota
	kReturn
	kJump
)

// Mode is a bitmask of options affecting the interpreter.
type Mode uint

const (
	DisableRecover Mode = 1 << iota // Disable recover() in target programs; show interpreter crash instead.
	EnableTracing                   // Print a trace of all instructions as they are interpreted.
)

type methodSet map[string]*ssa.Function

// State shared between all interpreted goroutines.
type interpreter struct {
	inited             map[*ssa.Package]bool
	onceDone           map[*value]bool
	syncMaps           map[*value]*omap
	pools              map[*value]*[]value
	built              map[*ssa.Package]bool
	interned           []internEntry
	idSeq              int
	osArgs             []value                // the value of os.Args
	prog               *ssa.Program           // the SSA program
	globals            map[*ssa.Global]*value // addresses of global variables (immutable)
	mode               Mode                   // interpreter options
	reflectPackage     *ssa.Package           // the fake reflect package
	errorMethods       methodSet              // the method set of reflect.error, which implements the error interface.
	rtypeMethods       methodSet              // the method set of rtype, which implements the reflect.Type interface.
	runtimeErrorString types.Type             // the runtime.errorString type (iff "runtime" is present)
	sizes              types.Sizes            // the effective type-sizing function
	goroutines         int32                  // atomically updated
}

type deferred struct {
	fn    value
	args  []value
	instr *ssa.Defer
	tail  *deferred
}

type frame struct {
	i                *interpreter
	caller           *frame
	fn               *ssa.Function
	block, prevBlock *ssa.BasicBlock
	env              map[ssa.Value]value // dynamic values of SSA variables
	locals           []value
	defers           *deferred
	result           value
	panicking        bool
	panic            any
	phitemps         []value // temporaries for parallel phi assignment
	skipPhis         bool
}

func (fr *frame) get(key ssa.Value) value {
	switch key := key.(type) {
	case nil:
		// Hack; simplifies handling of optional attributes
		// such as ssa.Slice.{Low,High}.
		return nil
	case *ssa.Function, *ssa.Builtin:
		return key
	case *ssa.Const:
		return constValue(key)
	case *ssa.Global:
		return fr.i.globalAddr(key)
	}
	if r, ok := fr.env[key]; ok {
		return r
	}
	panic(fmt.Sprintf("get: no value for %T: %v", key, key.Name()))
}

// runDefer runs a deferred call d.
// It always returns normally, but may set or clear fr.panic.
func (fr *frame) runDefer(d *deferred) {
	if fr.i.mode&EnableTracing != 0 {
		fmt.Fprintf(os.Stderr, "%s: invoking deferred function call\n",
			fr.i.prog.Fset.Position(d.instr.Pos()))
	}
	var ok bool
	defer func() {
		if !ok {
			// Deferred call created a new state of panic.
			fr.panicking = true
			fr.panic = recover()
		}
	}()
	call(fr.i, fr, d.instr.Pos(), d.fn, d.args)
	ok = true
}

// runDefers executes fr's deferred function calls in LIFO order.
//
// On entry, fr.panicking indicates a state of panic; if
// true, fr.panic contains the panic value.
//
// On completion, if a deferred call started a panic, or if no
// deferred call recovered from a previous state of panic, then
// runDefers itself panics after the last deferred call has run.
//
// If there was no initial state of panic, or it was recovered from,
// runDefers returns normally.
func (fr *frame) runDefers() {
	for d := fr.defers; d != nil; d = d.tail {
		fr.runDefer(d)
	}
	fr.defers = nil
	if fr.panicking {
		panic(fr.panic) // new panic, or still panicking
	}
}

// lookupMethod returns the method set for type typ, which may be one
// of the interpreter's fake types.
func lookupMethod(i *interpreter, typ types.Type, meth *types.Func) *ssa.Function {
	switch typ {
	case rtypeType:
		return i.rtypeMethods[meth.Id()]
	case errorType:
		return i.errorMethods[meth.Id()]
	}
	return i.prog.LookupMethod(typ, meth.Pkg(), meth.Name())
}

// visitInstr interprets a single ssa.Instruction within the activation
// record frame.  It returns a continuation value indicating where to
// read the next instruction from.
func visitInstr(fr *frame, instr ssa.Instruction) continuation {
	switch instr := instr.(type) {
	case *ssa.DebugRef:
		// no-op

	case *ssa.UnOp:
		fr.env[instr] = unop(instr, fr.get(instr.X))

	case *ssa.BinOp:
		fr.env[instr] = binop(instr.Op, instr.X.Type(), fr.get(instr.X), fr.get(instr.Y))

	case *ssa.Call:
		fn, args := prepareCall(fr, &instr.Call)
		fr.env[instr] = call(fr.i, fr, instr.Pos(), fn, args)

	case *ssa.ChangeInterface:
		fr.env[instr] = fr.get(instr.X)

	case *ssa.ChangeType:
		fr.env[instr] = fr.get(instr.X) // (can't fail)

	case *ssa.Convert:
		fr.env[instr] = conv(instr.Type(), instr.X.Type(), fr.get(instr.X))

	case *ssa.SliceToArrayPointer:
		fr.env[instr] = sliceToArrayPointer(instr.Type(), instr.X.Type(), fr.get(instr.X))

	case *ssa.MakeInterface:
		fr.env[instr] = iface{t: instr.X.Type(), v: fr.get(instr.X)}

	case *ssa.Extract:
		fr.env[instr] = fr.get(instr.Tuple).(tuple)[instr.Index]

	case *ssa.Slice:
		fr.env[instr] = slice(fr.get(instr.X), fr.get(instr.Low), fr.get(instr.High), fr.get(instr.Max))

	case *ssa.Return:
		switch len(instr.Results) {
		case 0:
		case 1:
			fr.result = fr.get(instr.Results[0])
		default:
			var res []value
			for _, r := range instr.Results {
				res = append(res, fr.get(r))
			}
			fr.result = tuple(res)
		}
		fr.block = nil
		return kReturn

	case *ssa.RunDefers:
		fr.runDefers()

	case *ssa.Panic:
		panic(targetPanic{fr.get(instr.X)})

	case *ssa.Send:
		fr.get(instr.Chan).(chan value) <- fr.get(instr.X)

	case *ssa.Store:
		if sp, ok := fr.get(instr.Addr).(*symptr); ok {
			sp.store(fr.get(instr.Val))
		} else {
			store(mustDeref(instr.Addr.Type()), fr.get(instr.Addr).(*value), fr.get(instr.Val))
		}

	case *ssa.If:
		succ := 1
		var taken bool
		switch c := fr.get(instr.Cond).(type) {
		case bool:
			taken = c
		case symv:
			if X.specDepth > 0 {
				panic("nested branch during speculation")
			}
			if tryIfConvert(fr, c) {
				return kJump
			}
			if X.DecideProfile != nil {
				X.DecideProfile[fr.fn.String()]++
			}
			taken = X.decide(c.t)
		}
		if taken {
			succ = 0
		}
		fr.prevBlock, fr.block = fr.block, fr.block.Succs[succ]
		return kJump

	case *ssa.Jump:
		fr.prevBlock, fr.block = fr.block, fr.block.Succs[0]
		return kJump

	case *ssa.Defer:
		fn, args := prepareCall(fr, &instr.Call)
		defers := &fr.defers
		if into := fr.get(instr.DeferStack); into != nil {
			defers = into.(**deferred)
		}
		*defers = &deferred{
			fn:    fn,
			args:  args,
			instr: instr,
			tail:  *defers,
		}

	case *ssa.Go:
		fn, args := prepareCall(fr, &instr.Call)
		// `go f(...)` where the harness replaced f (vrt.Replace): the stub runs right here, synchronously
		// (a recording stub for worker loops; the interpreter state is not shared between real goroutines)
		if sf, ok := fn.(*ssa.Function); ok && X != nil && X.replaced != nil {
			if _, isRepl := X.replaced[sf]; isRepl {
				call(fr.i, fr, instr.Pos(), fn, args)
				break
			}
		}
		atomic.AddInt32(&fr.i.goroutines, 1)
		go func() {
			call(fr.i, nil, instr.Pos(), fn, args)
			atomic.AddInt32(&fr.i.goroutines, -1)
		}()

	case *ssa.MakeChan:
		fr.env[instr] = make(chan value, asInt64(fr.get(instr.Size)))

	case *ssa.Alloc:
		var addr *value
		if instr.Heap {
			// new
			addr = new(value)
			fr.env[instr] = addr
		} else {
			// local
			addr = fr.env[instr].(*value)
		}
		*addr = zero(mustDeref(instr.Type()))

	case *ssa.MakeSlice:
		slice := make([]value, asInt64(fr.get(instr.Cap)))
		tElt := instr.Type().Underlying().(*types.Slice).Elem()
		for i := range slice {
			slice[i] = zero(tElt)
		}
		fr.env[instr] = slice[:asInt64(fr.get(instr.Len))]

	case *ssa.MakeMap:
		var reserve int64
		if instr.Reserve != nil {
			reserve = asInt64(fr.get(instr.Reserve))
		}
		if !fitsInt(reserve, fr.i.sizes) {
			panic(fmt.Sprintf("ssa.MakeMap.Reserve value %d does not fit in int", reserve))
		}
		fr.env[instr] = newOmap(instr.Type().Underlying().(*types.Map).Key())

	case *ssa.Range:
		fr.env[instr] = rangeIter(fr.get(instr.X))

	case *ssa.Next:
		fr.env[instr] = fr.get(instr.Iter).(iter).next()

	case *ssa.FieldAddr:
		fr.env[instr] = &(*fr.get(instr.X).(*value)).(structure)[instr.Field]

	case *ssa.Field:
		fr.env[instr] = fr.get(instr.X).(structure)[instr.Field]

	case *ssa.IndexAddr:
		x := fr.get(instr.X)
		idx := fr.get(instr.Index)
		switch x := x.(type) {
		case []value:
			if si, ok := idx.(symv); ok {
				fr.env[instr] = symIndexAddr(x, si)
			} else {
				fr.env[instr] = &x[checkIdx(asInt64(idx), len(x))]
			}
		case *value: // *array
			a := (*x).(array)
			if si, ok := idx.(symv); ok {
				fr.env[instr] = symIndexAddr([]value(a), si)
			} else {
				fr.env[instr] = &a[checkIdx(asInt64(idx), len(a))]
			}
		default:
			panic(fmt.Sprintf("unexpected x type in IndexAddr: %T", x))
		}

	case *ssa.Index:
		x := fr.get(instr.X)
		idx := fr.get(instr.Index)

		switch x := x.(type) {
		case array:
			fr.env[instr] = x[asInt64(idx)]
		case string:
			if si, ok := idx.(symv); ok {
				b, _ := strBytes(x)
				fr.env[instr] = symSelect(b, si, types.Uint8)
			} else {
				fr.env[instr] = x[concIndex(idx, len(x))]
			}
		case symstr:
			if si, ok := idx.(symv); ok {
				fr.env[instr] = symSelect(x.b, si, types.Uint8)
			} else {
				fr.env[instr] = x.b[concIndex(idx, len(x.b))]
			}
		default:
			panic(fmt.Sprintf("unexpected x type in Index: %T", x))
		}

	case *ssa.Lookup:
		fr.env[instr] = lookup(instr, fr.get(instr.X), fr.get(instr.Index))

	case *ssa.MapUpdate:
		m := fr.get(instr.Map)
		key := fr.get(instr.Key)
		v := fr.get(instr.Value)
		m.(*omap).insert(key, v)

	case *ssa.TypeAssert:
		fr.env[instr] = typeAssert(instr, fr.get(instr.X).(iface))

	case *ssa.MakeClosure:
		var bindings []value
		for _, binding := range instr.Bindings {
			bindings = append(bindings, fr.get(binding))
		}
		fr.env[instr] = &closure{instr.Fn.(*ssa.Function), bindings}

	case *ssa.Phi:
		log.Fatal("unreachable") // phis are processed at block entry

	case *ssa.Select:
		var cases []reflect.SelectCase
		if !instr.Blocking {
			cases = append(cases, reflect.SelectCase{
				Dir: reflect.SelectDefault,
			})
		}
		for _, state := range instr.States {
			var dir reflect.SelectDir
			if state.Dir == types.RecvOnly {
				dir = reflect.SelectRecv
			} else {
				dir = reflect.SelectSend
			}
			var send reflect.Value
			if state.Send != nil {
				send = reflect.ValueOf(fr.get(state.Send))
			}
			cases = append(cases, reflect.SelectCase{
				Dir:  dir,
				Chan: reflect.ValueOf(fr.get(state.Chan)),
				Send: send,
			})
		}
		chosen, recv, recvOk := reflect.Select(cases)
		if !instr.Blocking {
			chosen-- // default case should have index -1.
		}
		r := tuple{chosen, recvOk}
		for i, st := range instr.States {
			if st.Dir == types.RecvOnly {
				var v value
				if i == chosen && recvOk {
					// No need to copy since send makes an unaliased copy.
					v = recv.Interface().(value)
				} else {
					v = zero(st.Chan.Type().Underlying().(*types.Chan).Elem())
				}
				r = append(r, v)
			}
		}
		fr.env[instr] = r

	default:
		panic(fmt.Sprintf("unexpected instruction: %T", instr))
	}

	// if val, ok := instr.(ssa.Value); ok {
	// 	fmt.Println(toString(fr.env[val])) // debugging
	// }

	return kNext
}

// prepareCall determines the function value and argument values for a
// function call in a Call, Go or Defer instruction, performing
// interface method lookup if needed.
func prepareCall(fr *frame, call *ssa.CallCommon) (fn value, args []value) {
	v := fr.get(call.Value)
	if call.Method == nil {
		// Function call.
		fn = v
	} else {
		// Interface method invocation.
		recv := v.(iface)
		if recv.t == nil {
			panic("method invoked on nil interface")
		}
		if f := lookupMethod(fr.i, recv.t, call.Method); f == nil {
			// Unreachable in well-typed programs.
			panic(fmt.Sprintf("method set for dynamic type %v does not contain %s", recv.t, call.Method))
		} else {
			fn = f
		}
		args = append(args, recv.v)
	}
	for _, arg := range call.Args {
		args = append(args, fr.get(arg))
	}
	return
}

// call interprets a call to a function (function, builtin or closure)
// fn with arguments args, returning its result.
// callpos is the position of the callsite.
func call(i *interpreter, caller *frame, callpos token.Pos, fn value, args []value) value {
	switch fn := fn.(type) {
	case *ssa.Function:
		if fn == nil {
			panic("call of nil function") // nil of func type
		}
		return callSSA(i, caller, callpos, fn, args, nil)
	case *closure:
		return callSSA(i, caller, callpos, fn.Fn, args, fn.Env)
	case *ssa.Builtin:
		return callBuiltin(caller, fn, args)
	}
	panic(fmt.Sprintf("cannot call %T", fn))
}

func loc(fset *token.FileSet, pos token.Pos) string {
	if pos == token.NoPos {
		return ""
	}
	return " at " + fset.Position(pos).String()
}

// callSSA interprets a call to function fn with arguments args,
// and lexical environment env, returning its result.
// callpos is the position of the callsite.
func callSSA(i *interpreter, caller *frame, callpos token.Pos, fn *ssa.Function, args []value, env []value) value {
	if i.mode&EnableTracing != 0 {
		fset := fn.Prog.Fset
		// TODO(adonovan): fix: loc() lies for external functions.
		fmt.Fprintf(os.Stderr, "Entering %s%s.\n", fn, loc(fset, fn.Pos()))
		suffix := ""
		if caller != nil {
			suffix = ", resuming " + caller.fn.String() + loc(fset, callpos)
		}
		defer fmt.Fprintf(os.Stderr, "Leaving %s%s.\n", fn, suffix)
	}
	fr := &frame{
		i:      i,
		caller: caller, // for panic/recover
		fn:     fn,
	}
	if X != nil && X.replaced != nil {
		if repl, ok := X.replaced[fn]; ok && !X.inReplace[fn] {
			X.inReplace[fn] = true
			defer func() { X.inReplace[fn] = false }()
			X.Events = append(X.Events, "replaced:"+fn.String())
			X.Replaced[fn.String()] = true
			return call(i, caller, callpos, repl, args)
		}
	}
	if fn.Synthetic == "package initializer" && caller != nil {
		return nil // dependency inits run lazily
	}
	if fn.Parent() == nil {
		name := fn.String()
		if ext := symExternals[name]; ext != nil {
			if X != nil && !strings.HasPrefix(name, rtPkg) {
				X.StubHits[name]++
			}
			return ext(fr, args)
		}
		for pre, ext := range symExternalPrefixes {
			if strings.HasPrefix(name, pre) {
				if X != nil {
					X.StubHits[pre+"...]"]++
				}
				return ext(fr, args)
			}
		}
		if ext := externals[name]; ext != nil {
			if i.mode&EnableTracing != 0 {
				fmt.Fprintln(os.Stderr, "\t(external)")
			}
			return ext(fr, args)
		}
		// Packages are built lazily and the program is shared by several interpreter copies:
		// Build() is idempotent and blocks until a concurrent build of that package is complete.
		if fn.Pkg != nil && !i.built[fn.Pkg] {
			fn.Pkg.Build()
			i.built[fn.Pkg] = true
		}
		if fn.Blocks == nil {
			panic("no code for function: " + name)
		}
	}

	if X != nil {
		X.FuncCalls[fn.String()]++
	}
	// generic function body?
	if fn.TypeParams().Len() > 0 && len(fn.TypeArgs()) == 0 {
		panic("interp requires ssa.BuilderMode to include InstantiateGenerics to execute generics")
	}

	fr.env = make(map[ssa.Value]value)
	fr.block = fn.Blocks[0]
	fr.locals = make([]value, len(fn.Locals))
	for i, l := range fn.Locals {
		fr.locals[i] = zero(mustDeref(l.Type()))
		fr.env[l] = &fr.locals[i]
	}
	for i, p := range fn.Params {
		fr.env[p] = args[i]
	}
	for i, fv := range fn.FreeVars {
		fr.env[fv] = env[i]
	}
	for fr.block != nil {
		runFrame(fr)
	}
	// Destroy the locals to avoid accidental use after return.
	for i := range fn.Locals {
		fr.locals[i] = bad{}
	}
	return fr.result
}

// runFrame executes SSA instructions starting at fr.block and
// continuing until a return, a panic, or a recovered panic.
//
// After a panic, runFrame panics.
//
// After a normal return, fr.result contains the result of the call
// and fr.block is nil.
//
// A recovered panic in a function without named return parameters
// (NRPs) becomes a normal return of the zero value of the function's
// result type.
//
// After a recovered panic in a function with NRPs, fr.result is
// undefined and fr.block contains the block at which to resume
// control.
func runFrame(fr *frame) {
	defer func() {
		if fr.block == nil {
			return // normal return
		}
		if fr.i.mode&DisableRecover != 0 {
			return // let interpreter crash
		}
		fr.panicking = true
		fr.panic = recover()
		if _, killed := fr.panic.(killThread); killed {
			panic(fr.panic) // parked second thread being unwound at the end of a path: run no interpreted defers
		}
		if X != nil && X.PanicStack == "" {
			var sb strings.Builder
			for f := fr; f != nil; f = f.caller {
				pos := ""
				if f.block != nil {
					pos = fmt.Sprintf(" block %d", f.block.Index)
				}
				fmt.Fprintf(&sb, "    in %s%s\n", f.fn, pos)
			}
			X.PanicStack = fmt.Sprintf("%v\n%s", fr.panic, sb.String())
		}
		if fr.i.mode&EnableTracing != 0 {
			fmt.Fprintf(os.Stderr, "Panicking: %T %v.\n", fr.panic, fr.panic)
		}
		fr.runDefers()
		fr.block = fr.fn.Recover
	}()

	for {
		if fr.i.mode&EnableTracing != 0 {
			fmt.Fprintf(os.Stderr, ".%s:\n", fr.block)
		}

		nonPhis := executePhis(fr)
		for _, instr := range nonPhis {
			if fr.i.mode&EnableTracing != 0 {
				if v, ok := instr.(ssa.Value); ok {
					fmt.Fprintln(os.Stderr, "\t", v.Name(), "=", instr)
				} else {
					fmt.Fprintln(os.Stderr, "\t", instr)
				}
			}
			if X != nil {
				X.Steps++
				if X.MaxSteps > 0 && X.Steps > X.MaxSteps {
					panic(abortPath{"step limit"})
				}
			}
			if visitInstr(fr, instr) == kReturn {
				return
			}
			// Inv: kNext (continue) or kJump (last instr)
		}
	}
}

// executePhis executes the phi-nodes at the start of the current
// block and returns the non-phi instructions.
func executePhis(fr *frame) []ssa.Instruction {
	firstNonPhi := -1
	for i, instr := range fr.block.Instrs {
		if _, ok := instr.(*ssa.Phi); !ok {
			firstNonPhi = i
			break
		}
	}
	// Inv: 0 <= firstNonPhi; every block contains a non-phi.

	nonPhis := fr.block.Instrs[firstNonPhi:]
	if fr.skipPhis {
		fr.skipPhis = false
		return nonPhis
	}
	if firstNonPhi > 0 {
		phis := fr.block.Instrs[:firstNonPhi]
		// Execute parallel assignment of phis.
		//
		// See "the swap problem" in Briggs et al's "Practical Improvements
		// to the Construction and Destruction of SSA Form" for discussion.
		predIndex := slices.Index(fr.block.Preds, fr.prevBlock)
		fr.phitemps = fr.phitemps[:0]
		for _, phi := range phis {
			phi := phi.(*ssa.Phi)
			if fr.i.mode&EnableTracing != 0 {
				fmt.Fprintln(os.Stderr, "\t", phi.Name(), "=", phi)
			}
			fr.phitemps = append(fr.phitemps, fr.get(phi.Edges[predIndex]))
		}
		for i, phi := range phis {
			fr.env[phi.(*ssa.Phi)] = fr.phitemps[i]
		}
	}
	return nonPhis
}

// doRecover implements the recover() built-in.
func doRecover(caller *frame) value {
	// recover() must be exactly one level beneath the deferred
	// function (two levels beneath the panicking function) to
	// have any effect.  Thus we ignore both "defer recover()" and
	// "defer f() -> g() -> recover()".
	if caller.i.mode&DisableRecover == 0 &&
		caller != nil && !caller.panicking &&
		caller.caller != nil && caller.caller.panicking {
		caller.caller.panicking = false
		p := caller.caller.panic
		caller.caller.panic = nil

		// TODO(adonovan): support runtime.Goexit.
		switch p := p.(type) {
		case targetPanic:
			// The target program explicitly called panic().
			return p.v
		case runtime.Error:
			// The interpreter encountered a runtime error.
			return iface{caller.i.runtimeErrorString, p.Error()}
		case string:
			// The interpreter explicitly called panic().
			return iface{caller.i.runtimeErrorString, p}
		default:
			panic(fmt.Sprintf("unexpected panic type %T in target call to recover()", p))
		}
	}
	return iface{}
}

// Interpret interprets the Go program whose main package is mainpkg.
// mode specifies various interpreter options.  filename and args are
// the initial values of os.Args for the target program.  sizes is the
// effective type-sizing function for this program.
//
// Interpret returns the exit code of the program: 2 for panic (like
// gc does), or the argument to os.Exit for normal termination.
//
// The SSA program must include the "runtime" package.
//
// Type parameterized functions must have been built with
// InstantiateGenerics in the ssa.BuilderMode to be interpreted.
func Interpret(mainpkg *ssa.Package, mode Mode, sizes types.Sizes, filename string, args []string) (exitCode int) {
	i := &interpreter{
		prog:       mainpkg.Prog,
		globals:    make(map[*ssa.Global]*value),
		mode:       mode,
		sizes:      sizes,
		goroutines: 1,
	}
	runtimePkg := i.prog.ImportedPackage("runtime")
	if runtimePkg != nil {
		i.runtimeErrorString = runtimePkg.Type("errorString").Object().Type()
	}

	initReflect(i)

	i.osArgs = append(i.osArgs, filename)
	for _, arg := range args {
		i.osArgs = append(i.osArgs, arg)
	}

	for _, pkg := range i.prog.AllPackages() {
		// Initialize global storage.
		for _, m := range pkg.Members {
			switch v := m.(type) {
			case *ssa.Global:
				cell := zero(mustDeref(v.Type()))
				i.globals[v] = &cell
			}
		}
	}

	// Top-level error handler.
	exitCode = 2
	defer func() {
		if exitCode != 2 || i.mode&DisableRecover != 0 {
			return
		}
		switch p := recover().(type) {
		case exitPanic:
			exitCode = int(p)
			return
		case targetPanic:
			fmt.Fprintln(os.Stderr, "panic:", toString(p.v))
		case runtime.Error:
			fmt.Fprintln(os.Stderr, "panic:", p.Error())
		case string:
			fmt.Fprintln(os.Stderr, "panic:", p)
		default:
			fmt.Fprintf(os.Stderr, "panic: unexpected type: %T: %v\n", p, p)
		}

		// TODO(adonovan): dump panicking interpreter goroutine?
		// buf := make([]byte, 0x10000)
		// runtime.Stack(buf, false)
		// fmt.Fprintln(os.Stderr, string(buf))
		// (Or dump panicking target goroutine?)
	}()

	// Run!
	call(i, nil, token.NoPos, mainpkg.Func("init"), nil)
	if mainFn := mainpkg.Func("main"); mainFn != nil {
		call(i, nil, token.NoPos, mainFn, nil)
		exitCode = 0
	} else {
		fmt.Fprintln(os.Stderr, "No main function.")
		exitCode = 1
	}
	return
}
