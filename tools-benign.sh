#!/bin/bash
# usage: tools-benign.sh  — applies each behaviour-preserving patch under /verif/benign to a scratch worktree and runs the
# quick checks of the properties whose harnesses touch the changed packages; every verdict must be PASS (or KNOWN-FINDING).
declare -A MAP
MAP[internal/queue]="C03 C04 C05 C12 C14 C02 C13"
MAP[internal/ingress]="C01 C08 C09 C07 C10"
MAP[internal/app]="C10 C11 C12 C18 C15"
MAP[internal/pullapi]="C04 C11"
MAP[internal/dispatcher]="C06 C16 C17"
MAP[internal/config]="C06 C11 C19"
MAP[internal/mcp]="C20 C14"
MAP[internal/admin]="C14 C15 C01"
MAP[internal/secrets]="C08"
MAP[internal/workerapi]="C11"
for f in ${1:-/verif/benign/*.diff}; do
  props=""
  for d in $(grep '^+++ b/' $f | sed 's|+++ b/||' | xargs -n1 dirname | sort -u); do props="$props ${MAP[$d]}"; done
  props=$(echo $props | tr ' ' '\n' | sort -u | tr '\n' ' ')
  out=$(LINES_MAX=3 /verif/tools-mutant.sh $f $props 2>&1 | egrep "^PASS|^VIOLATION|^INCONCLUSIVE|does not apply" | cut -c1-200)
  bad=$(echo "$out" | egrep -v "^PASS" | head -5)
  if [ -z "$bad" ]; then echo "$(basename $f): quiet on [$props]"; else echo "$(basename $f): ALARM on [$props]"; echo "$bad"; fi
done
