package main

import (
	"encoding/json"
	"os"
)

// Finding is one entry of /verif/known_findings.json. The discriminator is not here: it is a
// vrt.KnownFinding(id, predicate) call in the harness, evaluated symbolically.
type Finding struct {
	ID        string   `json:"id"`
	Property  string   `json:"property"`
	Also      []string `json:"also_properties,omitempty"`
	Harnesses []string `json:"harnesses,omitempty"` // empty: any harness
	Labels    []string `json:"labels"`              // assertion labels it may explain
	What      string   `json:"what"`
	Status    string   `json:"status"` // known | fixed
	Commit    string   `json:"commit,omitempty"`
}

type Known struct {
	Findings []Finding `json:"findings"`
}

func loadKnown(path string) *Known {
	k := &Known{}
	b, err := os.ReadFile(path)
	if err != nil {
		return k
	}
	if err := json.Unmarshal(b, k); err != nil {
		panic("known findings file does not parse: " + err.Error())
	}
	return k
}

func (k *Known) labelMap(harness string) map[string][]string {
	out := map[string][]string{}
	for _, f := range k.Findings {
		if f.Status != "known" {
			continue
		}
		if len(f.Harnesses) > 0 {
			ok := false
			for _, h := range f.Harnesses {
				if h == harness {
					ok = true
				}
			}
			if !ok {
				continue
			}
		}
		for _, l := range f.Labels {
			out[l] = append(out[l], f.ID)
		}
	}
	return out
}

func (k *Known) byID(id string) *Finding {
	for i := range k.Findings {
		if k.Findings[i].ID == id {
			return &k.Findings[i]
		}
	}
	return nil
}
