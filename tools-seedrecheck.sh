#!/bin/bash
# usage: tools-seedrecheck.sh <seed id, e.g. C14-4> "<props to check>" "<what was added>"
# Re-runs the quick checks against a seed that was missed when it was written and records the new verdict in its
# meta.json (the first verdict is kept under "first_verdict").
id="$1"; checks="$2"; added="$3"
d=/verif/seeded/$id
det=$(LINES_MAX=40 /verif/tools-mutant.sh "$d/patch.diff" $checks 2>&1)
python3 - "$d" "$checks" "$added" <<PY
import json,sys
d,checks,added=sys.argv[1:4]
m=json.load(open(d+'/meta.json'))
det='''$det'''
verdicts={}
for line in det.splitlines():
    for tag in ('PASS','INCONCLUSIVE','VIOLATION'):
        if line.startswith(tag+' property='):
            pid=line.split('property=')[1].split()[0]
            if verdicts.get(pid)!='VIOLATION':
                verdicts[pid]=tag
hits=sorted({l.split('harness=')[1].split()[0]+':'+l.split('assertion=')[1].split()[0] for l in det.splitlines() if 'harness=' in l and 'assertion=' in l})
if 'first_verdict' not in m:
    m['first_verdict']={"check_verdicts":m.get('check_verdicts'),"detected":m.get('detected')}
m['checks_run']=checks.split(); m['check_verdicts']=verdicts; m['detected']=any(v=='VIOLATION' for v in verdicts.values()); m['violated_assertions']=hits[:12]
m['strengthening']=added
json.dump(m,open(d+'/meta.json','w'),indent=1)
print(d.split('/')[-1],'detected' if m['detected'] else 'MISSED',verdicts,hits[:2])
PY
