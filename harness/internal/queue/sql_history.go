//go:build verif

package queue

import (
	"time"

	vrt "github.com/nuetzliches/hookaido/internal/verifrt"
	vsql "github.com/nuetzliches/hookaido/internal/verifsql"
)

type hgMsg struct {
	id      string
	state   State
	lease   string
	until   time.Time
	next    time.Time
	attempt int
}

type hgLease struct {
	id  string
	msg int
}

// verif:harness props=C03,C04,C05 tier=quick weight=500 tonly=C03
// verif:bounds history of K=2 (thorough 3: 19 656 paths, ~11 min) operations on a SQLiteStore over the SQL model, starting from two messages enqueued through the real Enqueue (the second scheduled an arbitrary time ahead); before every operation the clock advances by an arbitrary amount (0..1h); operations: dequeue batch 1 / batch 2 with arbitrary TTL (the expired-lease sweep due on every dequeue), ack, nack with arbitrary delay, dead-letter, extend by an arbitrary amount, each with any lease id handed out so far or an unknown one; a ghost copy of the contract is compared with the table after every step
func VerifC03SQLHistory() {
	steps := 2
	if vrt.Thorough() {
		steps = 3
	}
	vrt.SQLModel()
	db := &vsql.DB{}
	vsql.Current = db
	now := time.Unix(1700000000, 0)
	s := &SQLiteStore{db: vrt.StubDB(), nowFn: func() time.Time { return now }, metrics: newSQLiteRuntimeMetrics(), notify: make(chan struct{}), dropPolicy: "reject"}
	ahead := vrt.Duration("second-message-scheduled-ahead")
	vrt.Assume(ahead >= 0 && ahead <= time.Hour)
	g := []hgMsg{
		{id: "a", state: StateQueued, next: now},
		{id: "b", state: StateQueued, next: now.Add(ahead)},
	}
	okA := s.Enqueue(Envelope{ID: "a", Route: "/r", Target: "pull", Payload: []byte("pa")}) == nil
	okB := s.Enqueue(Envelope{ID: "b", Route: "/r", Target: "pull", Payload: []byte("pb"), NextRunAt: now.Add(ahead)}) == nil
	vrt.Assert("C05.sqlhistory.setup", okA && okB && len(db.Rows) == 2)
	var leases []hgLease
	for step := 0; step < steps; step++ {
		adv := vrt.Duration("clock-advance")
		vrt.Assume(adv >= 0 && adv <= time.Hour)
		now = now.Add(adv)
		op := vrt.Choose("op", 6)
		if op <= 1 {
			batch := op + 1
			ttl := vrt.Duration("ttl")
			vrt.Assume(ttl > 0 && ttl <= time.Hour)
			s.lastLeaseSweepNanos = 0 // the sweep is due (its 10 ms throttle: VerifC05SQLDequeue)
			res, err := s.Dequeue(DequeueRequest{Route: "/r", Target: "pull", Batch: batch, LeaseTTL: ttl})
			vrt.Assert("C05.sqlhistory.dequeue-ok", err == nil)
			ready := 0
			for i := range g {
				if g[i].state == StateLeased && !now.Before(g[i].until) {
					g[i].state, g[i].lease, g[i].next = StateQueued, "", now
				}
				if g[i].state == StateQueued && !now.Before(g[i].next) {
					ready++
				}
			}
			want := batch
			if ready < want {
				want = ready
			}
			vrt.Assert("C05.sqlhistory.dequeue-returns-exactly-min-batch-ready", len(res.Items) == want)
			for k, it := range res.Items {
				idx := -1
				for i := range g {
					if g[i].id == it.ID {
						idx = i
					}
				}
				vrt.Assert("C03.sqlhistory.returned-message-exists", idx >= 0)
				if idx < 0 {
					continue
				}
				m := &g[idx]
				vrt.Assert("C03.sqlhistory.only-ready-messages-are-handed-out", m.state == StateQueued && !now.Before(m.next))
				fresh := it.LeaseID != ""
				for _, l := range leases {
					if l.id == it.LeaseID {
						fresh = false
					}
				}
				for k2 := 0; k2 < k; k2++ {
					if res.Items[k2].LeaseID == it.LeaseID || res.Items[k2].ID == it.ID {
						fresh = false
					}
				}
				vrt.Assert("C03.sqlhistory.fresh-lease-id-and-no-message-twice", fresh)
				vrt.Assert("C03.sqlhistory.attempt-incremented-by-one", it.Attempt == m.attempt+1)
				vrt.Assert("C03.sqlhistory.lease-runs-until-now-plus-ttl", it.LeaseUntil.Equal(now.Add(ttl)))
				vrt.Assert("C07.sqlhistory.payload-as-enqueued", string(it.Payload) == "p"+it.ID)
				m.state, m.lease, m.until, m.attempt = StateLeased, it.LeaseID, now.Add(ttl), m.attempt+1
				leases = append(leases, hgLease{id: it.LeaseID, msg: idx})
				vrt.Cover("sqlhistory.leased")
			}
		} else {
			pick := vrt.Choose("presented-lease", 3)
			presented := "unknown-lease"
			li := -1
			if pick < len(leases) {
				li = pick
				presented = leases[pick].id
			}
			d := vrt.Duration("d")
			vrt.Assume(d >= -time.Hour && d <= time.Hour)
			var err error
			switch op {
			case 2:
				err = s.Ack(presented)
			case 3:
				err = s.Nack(presented, d)
			case 4:
				err = s.MarkDead(presented, "why")
			case 5:
				err = s.Extend(presented, d)
			}
			var m *hgMsg
			if li >= 0 {
				m = &g[leases[li].msg]
				if m.state != StateLeased || m.lease != presented {
					m = nil
				}
			}
			switch {
			case op == 5 && d <= 0:
				vrt.Assert("C04.sqlhistory.nonpositive-extend-is-a-noop", err == nil)
			case m != nil && now.Before(m.until):
				vrt.Cover("sqlhistory.live-lease-op")
				vrt.Assert("C04.sqlhistory.current-unexpired-lease-is-accepted", err == nil)
				switch op {
				case 2:
					m.state, m.lease = StateDelivered, ""
				case 3:
					dd := d
					if dd < 0 {
						dd = 0
					}
					m.state, m.lease, m.next = StateQueued, "", now.Add(dd)
				case 4:
					m.state, m.lease = StateDead, ""
				case 5:
					m.until = m.until.Add(d)
				}
			case m != nil:
				vrt.Cover("sqlhistory.expired-lease-op")
				vrt.Assert("C04.sqlhistory.expired-lease-is-a-conflict", err == ErrLeaseExpired)
				m.state, m.lease, m.next = StateQueued, "", now
			default:
				vrt.Cover("sqlhistory.stale-conflict")
				vrt.Assert("C04.sqlhistory.stale-lease-is-a-conflict", err == ErrLeaseNotFound)
			}
		}
		// the table agrees with the contract after every step
		for i := range g {
			var got State
			gotLease := ""
			for _, r := range db.Rows {
				if qCol(r, "id").S == g[i].id {
					got = State(qCol(r, "state").S)
					if l := qCol(r, "lease_id"); !l.Null {
						gotLease = l.S
					}
				}
			}
			want := g[i].state
			if want == StateDelivered {
				want = ""
			}
			vrt.Assert("C04.sqlhistory.state-follows-the-contract-after-every-step", got == want && gotLease == g[i].lease)
		}
	}
}
