package sx

// SMT term DAG with light constant folding, and an SMT-LIB2 printer.

import (
	"fmt"
	"sort"
	"strings"
)

type Sort struct {
	Kind  byte // 'B' bool, 'V' bitvec, 'R' real, 'I' int
	Width int
}

var BoolSort = Sort{Kind: 'B'}

func BV(w int) Sort { return Sort{Kind: 'V', Width: w} }

func (s Sort) String() string {
	switch s.Kind {
	case 'B':
		return "Bool"
	case 'V':
		return fmt.Sprintf("(_ BitVec %d)", s.Width)
	case 'R':
		return "Real"
	case 'I':
		return "Int"
	}
	return "?"
}

type Term struct {
	Op   string // "var", "const", "true", "false", or SMT op
	Args []*Term
	Sort Sort
	Val  uint64 // for const BV (masked)
	Name string // for var
	Ext  [2]int // extract hi,lo / extend amount in Ext[0]
	Table []uint64
	id   int
}

var termCounter int

func newTerm(op string, s Sort, args ...*Term) *Term {
	termCounter++
	return &Term{Op: op, Args: args, Sort: s, id: termCounter}
}

var (
	TrueT  = &Term{Op: "true", Sort: BoolSort, id: -1}
	FalseT = &Term{Op: "false", Sort: BoolSort, id: -2}
)

func mask(w int) uint64 {
	if w >= 64 {
		return ^uint64(0)
	}
	return (uint64(1) << uint(w)) - 1
}

func BVConst(v uint64, w int) *Term {
	t := newTerm("const", BV(w))
	t.Val = v & mask(w)
	return t
}

func BoolConst(b bool) *Term {
	if b {
		return TrueT
	}
	return FalseT
}

func Var(name string, s Sort) *Term {
	t := newTerm("var", s)
	t.Name = name
	return t
}

func (t *Term) IsConst() bool { return t.Op == "const" || t.Op == "true" || t.Op == "false" }

func signExt(v uint64, w int) int64 {
	if w >= 64 {
		return int64(v)
	}
	if v&(1<<uint(w-1)) != 0 {
		return int64(v | ^mask(w))
	}
	return int64(v)
}

func Not(a *Term) *Term {
	switch a.Op {
	case "true":
		return FalseT
	case "false":
		return TrueT
	case "not":
		return a.Args[0]
	}
	return newTerm("not", BoolSort, a)
}

func And(a, b *Term) *Term {
	if a.Op == "false" || b.Op == "false" {
		return FalseT
	}
	if a.Op == "true" {
		return b
	}
	if b.Op == "true" {
		return a
	}
	return newTerm("and", BoolSort, a, b)
}

func Or(a, b *Term) *Term {
	if a.Op == "true" || b.Op == "true" {
		return TrueT
	}
	if a.Op == "false" {
		return b
	}
	if b.Op == "false" {
		return a
	}
	return newTerm("or", BoolSort, a, b)
}

func Ite(c, a, b *Term) *Term {
	if c.Op == "true" {
		return a
	}
	if c.Op == "false" {
		return b
	}
	if a == b {
		return a
	}
	return newTerm("ite", a.Sort, c, a, b)
}

func Eq(a, b *Term) *Term {
	if a == b {
		return TrueT
	}
	if a.IsConst() && b.IsConst() && a.Op != "rconst" && b.Op != "rconst" {
		if a.Sort.Kind == 'B' {
			return BoolConst(a.Op == b.Op)
		}
		return BoolConst(a.Val == b.Val)
	}
	return newTerm("=", BoolSort, a, b)
}

// BVBin builds a bit-vector binary operation with constant folding.
func BVBin(op string, a, b *Term) *Term {
	w := a.Sort.Width
	if a.Op == "const" && b.Op == "const" {
		x, y := a.Val, b.Val
		sx, sy := signExt(x, w), signExt(y, w)
		switch op {
		case "bvadd":
			return BVConst(x+y, w)
		case "bvsub":
			return BVConst(x-y, w)
		case "bvmul":
			return BVConst(x*y, w)
		case "bvand":
			return BVConst(x&y, w)
		case "bvor":
			return BVConst(x|y, w)
		case "bvxor":
			return BVConst(x^y, w)
		case "bvshl":
			if y >= uint64(w) {
				return BVConst(0, w)
			}
			return BVConst(x<<y, w)
		case "bvlshr":
			if y >= uint64(w) {
				return BVConst(0, w)
			}
			return BVConst(x>>y, w)
		case "bvashr":
			if y >= uint64(w) {
				y = uint64(w - 1)
			}
			return BVConst(uint64(sx>>y), w)
		case "bvudiv":
			if y != 0 {
				return BVConst(x/y, w)
			}
		case "bvurem":
			if y != 0 {
				return BVConst(x%y, w)
			}
		case "bvsdiv":
			if sy != 0 {
				return BVConst(uint64(sx/sy), w)
			}
		case "bvsrem":
			if sy != 0 {
				return BVConst(uint64(sx%sy), w)
			}
		}
	}
	return newTerm(op, BV(w), a, b)
}

// BVCmp builds a comparison (bvult, bvule, bvslt, bvsle ...).
func BVCmp(op string, a, b *Term) *Term {
	w := a.Sort.Width
	if a.Op == "const" && b.Op == "const" {
		x, y := a.Val, b.Val
		sx, sy := signExt(x, w), signExt(y, w)
		switch op {
		case "bvult":
			return BoolConst(x < y)
		case "bvule":
			return BoolConst(x <= y)
		case "bvugt":
			return BoolConst(x > y)
		case "bvuge":
			return BoolConst(x >= y)
		case "bvslt":
			return BoolConst(sx < sy)
		case "bvsle":
			return BoolConst(sx <= sy)
		case "bvsgt":
			return BoolConst(sx > sy)
		case "bvsge":
			return BoolConst(sx >= sy)
		}
	}
	return newTerm(op, BoolSort, a, b)
}

func BVNeg(a *Term) *Term {
	if a.Op == "const" {
		return BVConst(-a.Val, a.Sort.Width)
	}
	return newTerm("bvneg", a.Sort, a)
}

func BVNot(a *Term) *Term {
	if a.Op == "const" {
		return BVConst(^a.Val, a.Sort.Width)
	}
	return newTerm("bvnot", a.Sort, a)
}

// Resize converts a to width w, sign- or zero-extending, or truncating.
func Resize(a *Term, w int, signed bool) *Term {
	aw := a.Sort.Width
	if aw == w {
		return a
	}
	if a.Op == "const" {
		if w < aw {
			return BVConst(a.Val, w)
		}
		if signed {
			return BVConst(uint64(signExt(a.Val, aw)), w)
		}
		return BVConst(a.Val, w)
	}
	if w < aw {
		t := newTerm("extract", BV(w), a)
		t.Ext = [2]int{w - 1, 0}
		return t
	}
	op := "zero_extend"
	if signed {
		op = "sign_extend"
	}
	t := newTerm(op, BV(w), a)
	t.Ext = [2]int{w - aw, 0}
	return t
}

// ---------------------------------------------------------------------
// printing (scoped: definitions and declarations made after Push are dropped at Pop)

type Printer struct {
	defined map[*Term]string
	vars    map[string]Sort
	tables  map[string]string
	log     []func() // undo log
	marks   []int
	counter int
}

func NewPrinter() *Printer {
	return &Printer{defined: map[*Term]string{}, vars: map[string]Sort{}, tables: map[string]string{}}
}

func (p *Printer) Push() { p.marks = append(p.marks, len(p.log)) }
func (p *Printer) Pop() {
	m := p.marks[len(p.marks)-1]
	p.marks = p.marks[:len(p.marks)-1]
	for i := len(p.log) - 1; i >= m; i-- {
		p.log[i]()
	}
	p.log = p.log[:m]
}

// Ref returns a reference to t, appending needed declarations/definitions to out.
func (p *Printer) Ref(t *Term, out *strings.Builder) string {
	switch t.Op {
	case "true", "false":
		return t.Op
	case "rconst":
		return t.Name
	case "const":
		if t.Sort.Kind == 'I' {
			v := int64(t.Val)
			if v < 0 {
				return fmt.Sprintf("(- %d)", uint64(-v))
			}
			return fmt.Sprintf("%d", v)
		}
		w := t.Sort.Width
		if w%4 == 0 {
			return fmt.Sprintf("#x%0*x", w/4, t.Val)
		}
		return fmt.Sprintf("#b%0*b", w, t.Val)
	case "var":
		if _, ok := p.vars[t.Name]; !ok {
			name := t.Name
			p.vars[name] = t.Sort
			p.log = append(p.log, func() { delete(p.vars, name) })
			fmt.Fprintf(out, "(declare-const %s %s)\n", name, t.Sort)
		}
		return t.Name
	}
	if n, ok := p.defined[t]; ok {
		return n
	}
	args := make([]string, len(t.Args))
	for i, a := range t.Args {
		args[i] = p.Ref(a, out)
	}
	var expr string
	switch t.Op {
	case "extract":
		expr = fmt.Sprintf("((_ extract %d %d) %s)", t.Ext[0], t.Ext[1], args[0])
	case "zero_extend", "sign_extend":
		expr = fmt.Sprintf("((_ %s %d) %s)", t.Op, t.Ext[0], args[0])
	case "tbl":
		fn := p.tableFn(t, out)
		expr = "(" + fn + " " + args[0] + ")"
	default:
		expr = "(" + t.Op + " " + strings.Join(args, " ") + ")"
	}
	p.counter++
	name := fmt.Sprintf("t!%d", p.counter)
	p.defined[t] = name
	p.log = append(p.log, func() { delete(p.defined, t) })
	fmt.Fprintf(out, "(define-fun %s () %s %s)\n", name, t.Sort, expr)
	return name
}

// tableFn emits (once per scope) a function for a constant lookup table.
func (p *Printer) tableFn(t *Term, out *strings.Builder) string {
	key := t.Name
	if n, ok := p.tables[key]; ok {
		return n
	}
	p.counter++
	name := fmt.Sprintf("tbl!%d", p.counter)
	p.tables[key] = name
	p.log = append(p.log, func() { delete(p.tables, key) })
	iw := t.Args[0].Sort.Width
	ew := t.Sort.Width
	var build func(lo, hi int) string
	build = func(lo, hi int) string {
		if hi-lo == 1 {
			v := t.Table[lo]
			if ew%4 == 0 {
				return fmt.Sprintf("#x%0*x", ew/4, v)
			}
			return fmt.Sprintf("#b%0*b", ew, v)
		}
		mid := (lo + hi) / 2
		var m string
		if iw%4 == 0 {
			m = fmt.Sprintf("#x%0*x", iw/4, mid)
		} else {
			m = fmt.Sprintf("#b%0*b", iw, mid)
		}
		return "(ite (bvult i " + m + ") " + build(lo, mid) + " " + build(mid, hi) + ")"
	}
	fmt.Fprintf(out, "(define-fun %s ((i (_ BitVec %d))) (_ BitVec %d) %s)\n", name, iw, ew, build(0, len(t.Table)))
	return name
}

// TableLookup builds a lookup of a constant table at a symbolic index.
func TableLookup(table []uint64, ew int, idx *Term) *Term {
	if idx.Op == "const" {
		return BVConst(table[idx.Val], ew)
	}
	t := newTerm("tbl", BV(ew), idx)
	t.Table = table
	var sb strings.Builder
	for _, v := range table {
		fmt.Fprintf(&sb, "%x,", v)
	}
	t.Name = fmt.Sprintf("%d:%d:%s", idx.Sort.Width, ew, sb.String())
	return t
}

var _ = sort.Strings
