//go:build verif

package queue

import (
	"time"

	vrt "github.com/nuetzliches/hookaido/internal/verifrt"
	vsql "github.com/nuetzliches/hookaido/internal/verifsql"
)

type hRowSnap struct {
	present    bool
	state      string
	leaseNull  bool
	leaseID    string
	untilNull  bool
	leaseUntil int64
	nextRunAt  int64
	attempt    int64
}

func hBuildTable(n int) (*vsql.DB, []string) {
	db := &vsql.DB{}
	ids := []string{"m0", "m1", "m2"}[:n]
	leases := []string{"L0", "L1", "L2"}[:n]
	for i := 0; i < n; i++ {
		st := hStates[vrt.Choose("state", 5)]
		row := &vsql.Row{V: make([]vsql.Val, len(vsql.Columns))}
		set := func(col string, v vsql.Val) {
			for k, c := range vsql.Columns {
				if c == col {
					row.V[k] = v
				}
			}
		}
		set("id", vsql.Text(ids[i]))
		set("route", vsql.Text("r"))
		set("target", vsql.Text("t"))
		set("state", vsql.Text(string(st)))
		set("received_at", vsql.Int(vrt.Int64("recv")))
		set("attempt", vsql.Int(vrt.Int64("attempt")))
		set("next_run_at", vsql.Int(vrt.Int64("next")))
		set("payload", vsql.Text(""))
		set("headers_json", vsql.NullVal)
		set("trace_json", vsql.NullVal)
		set("schema_version", vsql.Int(1))
		set("dead_reason", vsql.NullVal)
		if st == StateLeased {
			set("lease_id", vsql.Text(leases[i]))
			set("lease_until", vsql.Int(vrt.Int64("until")))
		} else {
			set("lease_id", vsql.NullVal)
			set("lease_until", vsql.NullVal)
		}
		db.Rows = append(db.Rows, row)
	}
	return db, ids
}

func hCol(r *vsql.Row, col string) vsql.Val {
	for k, c := range vsql.Columns {
		if c == col {
			return r.V[k]
		}
	}
	return vsql.NullVal
}

func hTableSnap(db *vsql.DB, ids []string) []hRowSnap {
	out := make([]hRowSnap, len(ids))
	for i, id := range ids {
		for _, r := range db.Rows {
			if hCol(r, "id").S == id {
				out[i] = hRowSnap{true, hCol(r, "state").S, hCol(r, "lease_id").Null, hCol(r, "lease_id").S,
					hCol(r, "lease_until").Null, hCol(r, "lease_until").I, hCol(r, "next_run_at").I, hCol(r, "attempt").I}
			}
		}
	}
	return out
}

func hRowSame(a, b hRowSnap) bool {
	return a.present == b.present && a.state == b.state && a.leaseNull == b.leaseNull && a.leaseID == b.leaseID &&
		a.untilNull == b.untilNull && (a.untilNull || a.leaseUntil == b.leaseUntil) && a.nextRunAt == b.nextRunAt && a.attempt == b.attempt
}

// VerifSQLiteAckFencing: C04 for (*SQLiteStore).Ack over the SQL model, N=2.
func VerifSQLiteAckFencing() {
	vrt.SQLModel()
	now := vrt.Time("now")
	db, ids := hBuildTable(2)
	vsql.Current = db
	s := &SQLiteStore{db: vrt.StubDB(), nowFn: func() time.Time { return now }, metrics: newSQLiteRuntimeMetrics(), notify: make(chan struct{})}
	pre := hTableSnap(db, ids)
	presented := []string{"L0", "L1", "zz", ""}[vrt.Choose("lease", 4)]
	err := s.Ack(presented)
	post := hTableSnap(db, ids)
	nowNs := now.UnixNano()
	anyCurrent := false
	for i := range ids {
		current := pre[i].state == "leased" && !pre[i].leaseNull && pre[i].leaseID == presented
		if current {
			anyCurrent = true
		}
		if current && nowNs < pre[i].leaseUntil {
			vrt.Assert("C04.sql.ack.effective", err == nil && !post[i].present)
		} else if current {
			vrt.Assert("C04.sql.ack.expired", err == ErrLeaseExpired && post[i].present && post[i].state == "queued" && post[i].leaseNull && post[i].untilNull && post[i].attempt == pre[i].attempt)
		} else {
			vrt.Assert("C04.sql.ack.untouched", hRowSame(pre[i], post[i]))
		}
	}
	if !anyCurrent {
		vrt.Assert("C04.sql.ack.conflict", err == ErrLeaseNotFound)
	}
}
