//go:build verif

package admin

import (
	"encoding/base64"
	"net/http"
	"net/url"

	"github.com/nuetzliches/hookaido/internal/queue"
	vrt "github.com/nuetzliches/hookaido/internal/verifrt"
)

// item kinds of the endpoint-scoped path (0 = fine)
const (
	skOK = iota
	skNoID
	skSameIDAsFirst
	skRouteHint // selector hints are forbidden on the scoped path
	skApplicationHint
	skBadTarget // names a target the endpoint does not have
	skPayloadTooLarge
	skBadHeader
	skBadBase64
	skExistsInQueue
	skNumKinds
)

func hScopedItem(kind, n int) messagesPublishItem {
	it := messagesPublishItem{ID: []string{"a", "b", "c"}[n], PayloadB64: base64.StdEncoding.EncodeToString([]byte("x")), Headers: map[string]string{"X-K": "v"}}
	switch kind {
	case skNoID:
		it.ID = " "
	case skSameIDAsFirst:
		it.ID = "a"
	case skRouteHint:
		it.Route = "/ok"
	case skApplicationHint:
		it.Application, it.EndpointName = "app", "ep"
	case skBadTarget:
		it.Target = "elsewhere"
	case skPayloadTooLarge:
		it.PayloadB64 = base64.StdEncoding.EncodeToString([]byte("xyz")) // max_body 2 on the endpoint's route
	case skBadHeader:
		it.Headers = map[string]string{"Bad Name": "v"}
	case skBadBase64:
		it.PayloadB64 = "@@@"
	case skExistsInQueue:
		it.ID = "dup"
	}
	return it
}

// verif:harness props=C15 tier=quick weight=60
// verif:bounds the ENDPOINT-SCOPED publish handler (application "app", endpoint "ep" -> route /ok with the single target "pull", max_body 2) with a batch of 1..3 decoded items (only the JSON decoding is replaced; the real item parser runs), each item independently: fine, blank id, same id as the first, route hint, application/endpoint hint, unknown target, payload over max_body, invalid header name, invalid base64, id already in the queue; scoped publishing enabled or disabled; endpoint known or unknown; audit reason present or absent; recording store with batch support
func VerifC15ScopedPublishAllOrNothing() {
	st := &hPubStore{}
	s := NewServer(st)
	s.TargetsForRoute = func(route string) []string {
		if route == "/ok" {
			return []string{"pull"}
		}
		return nil
	}
	s.PublishEnabledForRoute = func(string) bool { return true }
	s.PublishManagedEnabledForRoute = func(string) bool { return true }
	s.LimitsForRoute = func(string) (int64, int) { return 2, 0 }
	s.ResolveManaged = func(app, ep string) (string, []string, bool) {
		if app == "app" && ep == "ep" {
			return "/ok", []string{"pull"}, true
		}
		return "", nil, false
	}
	enabled := vrt.Choose("scoped-publish-enabled", 2) == 1
	s.PublishScopedManagedEnabled = enabled
	known := vrt.Choose("endpoint-known", 2) == 1
	n := 1 + vrt.Choose("items", 3)
	kinds := make([]int, n)
	items := make([]messagesPublishItem, n)
	for i := range items {
		kinds[i] = vrt.Choose("item-kind", skNumKinds)
		items[i] = hScopedItem(kinds[i], i)
	}
	vrt.Replace(decodeJSONBodyStrict, func(r *http.Request, dst any) error {
		dst.(*messagesPublishRequest).Items = items
		return nil
	})
	hasReason := vrt.Choose("audit-reason", 2) == 1
	r := &http.Request{Method: "POST", URL: &url.URL{Path: "/applications/app/endpoints/ep/messages/publish"}, Header: http.Header{}, Body: http.NoBody}
	if hasReason {
		r.Header.Set("X-Hookaido-Audit-Reason", "ticket-1")
	}
	w := &hRW{}
	ep := "ep"
	if !known {
		ep = "nope"
	}
	s.handleApplicationEndpointPublish(w, r, "app", ep)
	stored := len(st.batches) + len(st.singles)
	if !enabled || !known || !hasReason {
		vrt.Cover("scoped.refused-before-the-items")
		vrt.Assert("C15.scoped.disabled-unknown-or-unaudited-is-refused-with-nothing-stored", stored == 0 && w.status >= 400)
		return
	}
	bad := false
	for i, k := range kinds {
		if k != skOK && k != skSameIDAsFirst { // ("same id as the first" is only wrong for a later item: the id comparison below)
			bad = true
		}
		for j := 0; j < i; j++ {
			if items[j].ID == items[i].ID {
				bad = true
			}
		}
	}
	if bad {
		vrt.Cover("scoped.rejected")
		vrt.Assert("C15.scoped.any-bad-item-means-nothing-is-enqueued", stored == 0 && w.status >= 400)
		recs := vrt.JSONEncoded()
		named := false
		if len(recs) == 1 {
			if resp, ok := recs[0].(publishErrorResponse); ok && resp.ItemIndex != nil {
				// the named item is offending itself (the order in which the stages look at the items is the handler's)
				i := *resp.ItemIndex
				if i >= 0 && i < n {
					named = kinds[i] != skOK && kinds[i] != skSameIDAsFirst
					for j := 0; j < i; j++ {
						if items[j].ID == items[i].ID {
							named = true
						}
					}
				}
			}
		}
		vrt.Assert("C15.scoped.error-names-an-offending-item", named)
		return
	}
	vrt.Cover("scoped.accepted")
	okBatch := len(st.batches) == 1 && len(st.singles) == 0 && len(st.batches[0]) == n && (w.status == 200 || w.status == 0)
	vrt.Assert("C15.scoped.all-items-enqueued-in-one-batch", okBatch)
	if !okBatch {
		return
	}
	for i, env := range st.batches[0] {
		okEnv := env.State == queue.StateQueued && env.Route == "/ok" && env.Target == "pull" && string(env.Payload) == "x" && env.Headers["X-K"] == "v" && env.LeaseID == "" && env.Attempt == 0 && env.ID == items[i].ID
		vrt.Assert("C15.scoped.message-shape-like-ingress-and-order-kept", okEnv)
	}
}
