//go:build verif

package dispatcher

import (
	"context"
	"log/slog"
	"time"

	"github.com/nuetzliches/hookaido/internal/queue"
	vrt "github.com/nuetzliches/hookaido/internal/verifrt"
)

// a store that hands out one full micro-batch (as many items as the worker asks for) and then stops the dispatcher;
// every lease starts at harness time 0
type hLeaseStore struct {
	queue.Store
	d       *PushDispatcher
	targets []TargetConfig
	elapsed *time.Duration
	reqs    []queue.DequeueRequest
	settled []time.Duration // harness time at which each lease was settled (ack/nack/dead)
	stopped bool
}

func (s *hLeaseStore) Dequeue(req queue.DequeueRequest) (queue.DequeueResponse, error) {
	s.reqs = append(s.reqs, req)
	if len(s.reqs) > 1 {
		if !s.stopped {
			s.stopped = true
			close(s.d.stopCh)
		}
		return queue.DequeueResponse{}, nil
	}
	var items []queue.Envelope
	for i := 0; i < req.Batch; i++ {
		items = append(items, queue.Envelope{ID: []string{"m0", "m1", "m2", "m3", "m4"}[i], Route: req.Route, Target: s.targets[i%len(s.targets)].URL, LeaseID: []string{"L0", "L1", "L2", "L3", "L4"}[i], Attempt: 1, Payload: []byte("p")})
	}
	return queue.DequeueResponse{Items: items}, nil
}
func (s *hLeaseStore) settle() error                             { s.settled = append(s.settled, *s.elapsed); return nil }
func (s *hLeaseStore) Ack(string) error                          { return s.settle() }
func (s *hLeaseStore) Nack(string, time.Duration) error          { return s.settle() }
func (s *hLeaseStore) MarkDead(string, string) error             { return s.settle() }
func (s *hLeaseStore) RecordAttempt(queue.DeliveryAttempt) error { return nil }

type hSlowDeliverer struct {
	elapsed  *time.Duration
	timeouts map[string]time.Duration
	starts   []time.Duration
}

// every delivery takes an arbitrary time up to its target's timeout
func (d *hSlowDeliverer) Deliver(ctx context.Context, del Delivery) Result {
	d.starts = append(d.starts, *d.elapsed)
	took := vrt.Duration("delivery-took")
	vrt.Assume(took >= 0 && took <= d.timeouts[del.URL])
	*d.elapsed += took
	return Result{StatusCode: 200}
}

// verif:harness props=C03 tier=quick weight=60
// verif:bounds the real PushDispatcher.Start and one real worker loop (runRoute, run in place): one route with 1 or 2 targets whose timeouts are arbitrary (0 = default 10s, else up to 10 min), concurrency 1..5, lease slack default or arbitrary positive; the store hands out one FULL micro-batch (as many messages as the worker asks for, all leased at the same instant with the TTL the worker asked for); every delivery takes an arbitrary time up to its target's timeout; then the dispatcher is stopped
func VerifC03DispatcherBatchNeverOutlivesItsLeases() {
	vrt.IntMode() // durations as mathematical integers (all values here are far below 2^63: no wrap-around is possible)
	nt := 1 + vrt.Choose("targets", 2)
	urls := []string{"https://a.example/h", "https://b.example/h"}
	var targets []TargetConfig
	timeouts := map[string]time.Duration{}
	for i := 0; i < nt; i++ {
		to := vrt.Duration("target-timeout")
		vrt.Assume(to >= 0 && to <= 10*time.Minute)
		targets = append(targets, TargetConfig{URL: urls[i], Timeout: to, Retry: RetryConfig{Type: "exponential", Max: 3, Base: time.Second, Cap: time.Minute}})
		eff := to
		if eff == 0 {
			eff = 10 * time.Second
		}
		timeouts[urls[i]] = eff
	}
	conc := 1 + vrt.Choose("concurrency", 5)
	var elapsed time.Duration
	st := &hLeaseStore{targets: targets, elapsed: &elapsed}
	dl := &hSlowDeliverer{elapsed: &elapsed, timeouts: timeouts}
	d := &PushDispatcher{Store: st, Deliverer: dl, Routes: []RouteConfig{{Route: "/r", Targets: targets, Concurrency: conc}}, MaxWait: time.Second}
	if vrt.Choose("custom-lease-slack", 2) == 1 {
		d.LeaseSlack = vrt.Duration("lease-slack")
		vrt.Assume(d.LeaseSlack > 0 && d.LeaseSlack <= time.Hour)
	}
	st.d = d
	workers := 0
	vrt.Replace((*PushDispatcher).runRoute, func(pd *PushDispatcher, logger *slog.Logger, route string, byURL map[string]TargetConfig, maxWait, leaseTTL time.Duration, batch int) {
		workers++
		if workers > 1 {
			pd.wg.Done() // (one worker loop is run; the others would behave the same on their own micro-batches)
			return
		}
		pd.runRoute(logger, route, byURL, maxWait, leaseTTL, batch)
	})
	d.Start()
	vrt.Assert("C03.dispatcher.started-one-worker-per-concurrency-slot", workers == conc)
	vrt.Assert("C03.dispatcher.worker-asked-once-and-stopped", len(st.reqs) >= 1)
	if len(st.reqs) == 0 {
		return
	}
	ttl := st.reqs[0].LeaseTTL
	n := st.reqs[0].Batch
	vrt.Assert("C03.dispatcher.every-leased-message-was-delivered-and-settled", len(dl.starts) == n && len(st.settled) == n)
	for _, at := range dl.starts {
		vrt.Assert("C03.dispatcher.no-delivery-starts-after-its-lease-expired", at < ttl)
	}
	for _, at := range st.settled {
		vrt.Assert("C03.dispatcher.every-lease-is-settled-before-it-expires", at < ttl)
	}
	if n > 1 {
		vrt.Cover("dispatcher.micro-batch")
	}
}

// a real MemoryStore whose second Dequeue stops the dispatcher (the worker loop then leaves)
type hStopStore struct {
	*queue.MemoryStore
	d     *PushDispatcher
	calls int
}

func (s *hStopStore) Dequeue(req queue.DequeueRequest) (queue.DequeueResponse, error) {
	s.calls++
	if s.calls > 1 {
		s.d.stopOnce.Do(func() { close(s.d.stopCh) })
		return queue.DequeueResponse{}, nil
	}
	return s.MemoryStore.Dequeue(req)
}

type hStopDeliverer struct {
	d        *PushDispatcher
	stopAt   int // the stop signal arrives while delivery number stopAt (0-based) is in flight; -1: never during the batch
	n        int
	statuses []int
	ids      []string
}

func (dl *hStopDeliverer) Deliver(ctx context.Context, del Delivery) Result {
	if dl.n == dl.stopAt {
		dl.d.stopOnce.Do(func() { close(dl.d.stopCh) })
	}
	code := []int{200, 503, 400}[vrt.Choose("delivery-status", 3)]
	dl.statuses = append(dl.statuses, code)
	dl.n++
	return Result{StatusCode: code}
}

// verif:harness props=C05,C06 tier=quick native=yes weight=40
// verif:bounds one real worker loop (runRoute, run in place) on a REAL MemoryStore holding as many ready messages as the micro-batch asks for (1..4), one target (batched lease mutations) or two (immediate mutations); every delivery answers 200 / 503 / 400; the stop signal (Drain) arrives while delivery k of the micro-batch is in flight, for every k, or not during the batch at all
func VerifC05DispatcherStopLeavesNothingUnsettled() {
	now := time.Unix(1700000000, 0)
	ms := queue.NewMemoryStore(queue.WithNowFunc(func() time.Time { return now }))
	batch := 1 + vrt.Choose("micro-batch", 4)
	nt := 1 + vrt.Choose("targets", 2)
	urls := []string{"https://a.example/h", "https://b.example/h"}
	byURL := map[string]TargetConfig{}
	for i := 0; i < nt; i++ {
		byURL[urls[i]] = TargetConfig{URL: urls[i], Retry: RetryConfig{Type: "exponential", Max: 3, Base: time.Second, Cap: time.Minute}}
	}
	ids := []string{"m0", "m1", "m2", "m3"}[:batch]
	for i, id := range ids {
		ok := ms.Enqueue(queue.Envelope{ID: id, Route: "/r", Target: urls[i%nt], Payload: []byte("p")}) == nil
		vrt.Assume(ok)
	}
	d := &PushDispatcher{Deliverer: nil}
	d.stopCh = make(chan struct{})
	st := &hStopStore{MemoryStore: ms, d: d}
	dl := &hStopDeliverer{d: d, stopAt: vrt.Choose("stop-arrives-during-delivery", batch+1) - 1}
	d.Store, d.Deliverer = st, dl
	d.wg.Add(1)
	d.runRoute(nil, "/r", byURL, 0, time.Minute, batch)
	// what was delivered, in dequeue order
	res, err := ms.ListMessages(queue.MessageListRequest{Limit: 10, Order: "asc"})
	vrt.Assert("C05.stop.listing-ok", err == nil)
	state := map[string]queue.Envelope{}
	for _, it := range res.Items {
		state[it.ID] = it
	}
	delivered := len(dl.statuses)
	vrt.Assert("C05.stop.no-delivery-is-started-after-the-stop-was-seen", dl.stopAt < 0 || delivered == dl.stopAt+1)
	settledOrRequeued := 0
	for _, id := range ids {
		env, present := state[id]
		if !present {
			settledOrRequeued++ // acked (no delivered retention)
			continue
		}
		if env.State != queue.StateLeased {
			settledOrRequeued++
		}
	}
	// untouched leases go back at once; every delivered message is settled according to its result — nothing stays leased
	// (repaired defect: the pending batched actions of a single-target micro-batch were dropped when the stop arrived mid-batch)
	vrt.KnownFinding("C06-stop-drops-pending-batched-lease-actions", nt == 1 && dl.stopAt >= 0 && dl.stopAt < batch-1)
	vrt.Assert("C05.stop.no-message-is-left-leased-when-the-worker-leaves", settledOrRequeued == batch)
	if settledOrRequeued != batch {
		return
	}
	order := []string{}
	for _, id := range ids {
		if _, present := state[id]; !present || state[id].State != queue.StateQueued || !state[id].NextRunAt.Equal(now) || state[id].Attempt != 1 {
			continue
		}
		order = append(order, id)
	}
	vrt.Assert("C05.stop.untouched-messages-are-ready-again-immediately", len(order) >= batch-delivered)
	acked, retried, dead := 0, 0, 0
	for _, id := range ids {
		env, present := state[id]
		switch {
		case !present:
			acked++
		case env.State == queue.StateDead:
			dead++
		case env.State == queue.StateQueued && env.NextRunAt.After(now):
			retried++
		}
	}
	w200, w503, w400 := 0, 0, 0
	for _, c := range dl.statuses {
		switch c {
		case 200:
			w200++
		case 503:
			w503++
		default:
			w400++
		}
	}
	vrt.Assert("C06.stop.every-delivered-message-is-settled-by-its-result", acked == w200 && retried == w503 && dead == w400)
}
