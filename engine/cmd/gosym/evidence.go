package main

import (
	"encoding/json"
	"fmt"
	"os"
	"path/filepath"
	"sort"
	"strings"
)

func writeEvidence(prop, tier string, seed int, wall float64, byFn map[string]*merged, order []string, violations, validated int, goVersion string, loadS float64, lines []string) error {
	states, trans, evals, nontriv, obl, dis, queries, sat, unsat, unknown := 0, 0, 0, 0, 0, 0, 0, 0, 0, 0
	solverS := 0.0
	var samples []any
	var harnessInfo []any
	funcs := map[string]int{}
	stubs := map[string]int{}
	replaced := map[string]bool{}
	unsupported := map[string]int{}
	var bounds []string
	knownHits := map[string]int{}
	for _, fn := range order {
		m := byFn[fn]
		states += m.Completed
		trans += m.Decisions
		evals += m.Paths
		nontriv += m.Nontrivial
		queries += m.Queries
		sat += m.Sat
		unsat += m.Unsat
		unknown += m.Unknown
		solverS += m.SolverS
		labels := map[string]any{}
		for l, a := range m.Asserts {
			obl += a.Reached
			dis += a.Proved
			labels[l] = a
		}
		for k, v := range m.Funcs {
			funcs[k] += v
		}
		for k, v := range m.Stubs {
			stubs[k] += v
		}
		for k := range m.Replaced {
			replaced[k] = true
		}
		for k, v := range m.Aborted {
			if !abortIsBenign(k, m.H) || strings.Contains(k, "unsupported") {
				unsupported[fn+": "+k] += v
			}
		}
		for k, v := range m.KnownHits {
			knownHits[k] += v
		}
		if m.H.Bounds != "" {
			bounds = append(bounds, fn+": "+m.H.Bounds)
		}
		hi := map[string]any{
			"harness": fn, "package": m.H.Pkg, "native_twin": m.H.Native, "paths": m.Paths, "completed_paths": m.Completed,
			"symbolic_decisions": m.Decisions, "queries": m.Queries, "solver_s": round2(m.SolverS), "wall_s": round2(m.WallS),
			"assertions": labels, "covers": m.Covers, "aborted": m.Aborted, "native_agreed": m.NativeOK, "native_disagreed": m.NativeBad,
			"bounds": m.H.Bounds, "problems": uniq(m.Problems), "shards": len(m.Shards), "skipped_does_not_compile": m.Skipped,
		}
		harnessInfo = append(harnessInfo, hi)
		// samples: a few witness paths written out
		for i, w := range m.Witnesses {
			if i >= 2 {
				break
			}
			samples = append(samples, map[string]any{"harness": fn, "kind": "witness path: solver model of a completed path; every assertion listed was discharged (unsat) for all values on that path",
				"inputs": w.Inputs, "assertions_on_path": w.Expect.Asserts})
		}
		if len(m.Witnesses) == 0 && m.Completed > 0 {
			var ls []string
			for l := range m.Asserts {
				ls = append(ls, l)
			}
			sort.Strings(ls)
			samples = append(samples, map[string]any{"harness": fn, "kind": "obligation set (no witness model stored for this harness)", "assertions": ls})
		}
	}
	var topFuncs []string
	{
		type kv struct {
			k string
			v int
		}
		var all []kv
		for k, v := range funcs {
			all = append(all, kv{k, v})
		}
		sort.Slice(all, func(i, j int) bool { return all[i].v > all[j].v || all[i].v == all[j].v && all[i].k < all[j].k })
		for i, x := range all {
			if i >= 80 {
				break
			}
			topFuncs = append(topFuncs, fmt.Sprintf("%s (%d calls)", x.k, x.v))
		}
	}
	var repl []string
	for k := range replaced {
		repl = append(repl, k)
	}
	sort.Strings(repl)
	if len(samples) == 0 {
		samples = append(samples, map[string]any{"note": "no path completed"})
	}
	ev := map[string]any{
		"property_id": prop,
		"tier":        tier,
		"seed":        seed,
		"level":       "model_checking",
		"wall_s":      round2(wall),
		"violations":  violations,
		"coverage": map[string]any{
			"states":                        states,
			"transitions":                   trans,
			"traces_validated_against_impl": validated,
			"samples":                       samples,
			"evaluations":                   evals,
			"distinct_nontrivial":           nontriv,
			"transitions_rule":              "transitions = branch decisions taken along the explored paths: symbolic branches decided by the solver plus nondeterministic choice points (harness Choose, injected faults, thread scheduling)",
			"rule":                          "a case is one feasible path of a harness through the real SSA (distinct decision sequence at symbolic branches); non-trivial = completed and reached at least one assertion; every assertion on it is discharged for ALL values of the symbolic inputs on that path by an unsat answer",
			"obligations":                   obl,
			"discharged":                    dis,
			"exhaustive":                    false,
			"functions_encoded":             topFuncs,
			"bounds":                        bounds,
			"queries":                       map[string]int{"total": queries, "sat": sat, "unsat": unsat, "unknown": unknown},
			"solver_s":                      round2(solverS),
			"solver":                        "z3 5.1.0 (z3-new -in, incremental; one-shot for int/real mode)",
			"stubs_and_intrinsics_fired":    stubs,
			"replaced_from_harness":         repl,
			"outside_encodable_fragment":    unsupported,
			"known_finding_hits":            knownHits,
			"harnesses":                     harnessInfo,
			"std_sources":                   goVersion,
			"load_and_ssa_build_s":          round2(loadS),
			"report":                        lines,
			"explanation":                   "bounded symbolic execution of the real Go SSA (repo + std) regenerated from /repo's working tree on this run; see DESIGN.md",
		},
		"assumptions": []string{
			"bounded: holds for every input within the stated per-harness bounds; nothing is claimed outside them",
			"environment models of DESIGN.md §4 (time as unix-ns bit-vector, sync as sequential, crypto as uninterpreted functions with functional consistency, havoc stubs for I/O)",
			"map iteration in insertion order; integer sizes of linux/amd64; no unsafe/reflect/cgo executed",
		},
	}
	b, err := json.MarshalIndent(ev, "", " ")
	if err != nil {
		return err
	}
	dir := filepath.Join(outRoot, "evidence")
	os.MkdirAll(dir, 0o755)
	return os.WriteFile(filepath.Join(dir, prop+".json"), b, 0o644)
}

func round2(f float64) float64 { return float64(int(f*100+0.5)) / 100 }
