package sx

import (
	"fmt"
	"go/token"
	"go/types"
	"strings"

	"golang.org/x/tools/go/ssa"
)

// Package-level state of packages OUTSIDE the repository (standard library, third party) is
// initialised once per harness and shared by all paths explored by this interpreter copy: re-running
// e.g. net/http's and unicode's initialisers for every path dominated the cost of handler harnesses.
// Assumption (stated in DESIGN.md): harness paths do not mutate std package-level state in a way later
// paths can observe. The repository's own packages (and the harness runtime) are re-initialised per path.
const repoModulePrefix = "github.com/nuetzliches/hookaido"

var (
	sharedGlobals map[*ssa.Global]*value
	sharedInited  map[*ssa.Package]bool
)

// Only the harness runtime's package-level state is rebuilt for every path; every other package's is
// shared (their initialisers compile regular expressions and build tables: 15 ms per path in
// internal/app). Harness files must not keep mutable package-level state.
var harnessPkg *ssa.Package

func isSharedPkg(pkg *ssa.Package) bool {
	if pkg == nil || pkg.Pkg == nil {
		return false
	}
	return !strings.HasPrefix(pkg.Pkg.Path(), repoModulePrefix+"/internal/verifrt")
}

func (i *interpreter) globalAddr(g *ssa.Global) *value {
	m := i.globals
	if isSharedPkg(g.Pkg) {
		m = sharedGlobals
	}
	if r, ok := m[g]; ok {
		return r
	}
	cell := zero(mustDeref(g.Type()))
	m[g] = &cell
	i.ensureInit(g.Pkg)
	return &cell
}

func (i *interpreter) ensureInit(pkg *ssa.Package) {
	if pkg == nil {
		return
	}
	done := i.inited
	if isSharedPkg(pkg) {
		done = sharedInited
	}
	if done[pkg] {
		return
	}
	done[pkg] = true
	if f := pkg.Func("init"); f != nil {
		func() {
			defer func() {
				if r := recover(); r != nil {
					if ap, ok := r.(abortPath); ok {
						panic(ap)
					}
					InitFailures[pkg.Pkg.Path()] = fmt.Sprint(r) + "\n" + X.PanicStack
					X.PanicStack = ""
				}
			}()
			call(i, nil, token.NoPos, f, nil)
		}()
	}
}

var InitFailures = map[string]string{}

func newInterp(prog *ssa.Program, sizes types.Sizes) *interpreter {
	i := &interpreter{
		prog:       prog,
		globals:    make(map[*ssa.Global]*value),
		inited:     make(map[*ssa.Package]bool),
		onceDone:   make(map[*value]bool),
		built:      make(map[*ssa.Package]bool),
		sizes:      sizes,
		goroutines: 1,
	}
	if runtimePkg := prog.ImportedPackage("runtime"); runtimePkg != nil {
		i.runtimeErrorString = runtimePkg.Type("errorString").Object().Type()
	}
	return i
}

// RunHarness explores every path of the niladic function fn.
func RunHarness(prog *ssa.Program, sizes types.Sizes, fn *ssa.Function, x *Explorer) {
	X = x
	harnessPkg = fn.Pkg
	sharedGlobals = make(map[*ssa.Global]*value)
	sharedInited = make(map[*ssa.Package]bool)
	x.Run(fn.String(), func() {
		i := newInterp(prog, sizes)
		call(i, nil, token.NoPos, fn, nil)
	})
}
