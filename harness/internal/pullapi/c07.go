//go:build verif

package pullapi

// C07 at the pull HTTP endpoint: what the consumer reads is what was stored, byte for byte.

import (
	"net/http"
	"net/url"
	"time"

	"github.com/nuetzliches/hookaido/internal/queue"
	vrt "github.com/nuetzliches/hookaido/internal/verifrt"
)

const hB64 = "ABCDEFGHIJKLMNOPQRSTUVWXYZabcdefghijklmnopqrstuvwxyz0123456789+/"

// refB64: RFC 4648 base64 with padding, written from the RFC.
func refB64(p []byte) string {
	out := []byte{}
	for i := 0; i+3 <= len(p); i += 3 {
		a, b, c := p[i], p[i+1], p[i+2]
		out = append(out, hB64[a>>2], hB64[(a&3)<<4|b>>4], hB64[(b&15)<<2|c>>6], hB64[c&63])
	}
	switch len(p) % 3 {
	case 1:
		a := p[len(p)-1]
		out = append(out, hB64[a>>2], hB64[(a&3)<<4], '=', '=')
	case 2:
		a, b := p[len(p)-2], p[len(p)-1]
		out = append(out, hB64[a>>2], hB64[(a&3)<<4|b>>4], hB64[(b&15)<<2], '=')
	}
	return string(out)
}

// verif:harness props=C07 tier=quick weight=20
// verif:bounds POST <endpoint>/dequeue through the real ServeHTTP on a real MemoryStore holding one message whose payload is 0..4 arbitrary bytes (thorough 0..7; every byte value incl. NUL and invalid UTF-8) and which carries one stored header with a 1-byte symbolic value; the request is delivered, nacked and delivered again (redelivery); only the request-body JSON decoding is replaced; the response object handed to the JSON encoder is inspected (its wire encoding is encoding/json's)
func VerifC07PullHTTPPayloadFidelity() {
	max := 4
	if vrt.Thorough() {
		max = 7
	}
	now := time.Unix(1700000000, 0)
	ms := queue.NewMemoryStore(queue.WithNowFunc(func() time.Time { return now }))
	payload := vrt.Bytes("payload", max)
	hv := vrt.StringN("header-value", 1)
	stored := append([]byte{}, payload...)
	ok := ms.Enqueue(queue.Envelope{ID: "m1", Route: "/r", Target: "pull", Payload: stored, Headers: map[string]string{"X-A": hv}}) == nil
	vrt.Assert("C07.pullhttp.setup", ok)
	s := NewServer(ms)
	s.now = func() time.Time { return now }
	s.Authorize = func(*http.Request) bool { return true }
	s.ResolveRoute = func(endpoint string) (string, bool) { return "/r", endpoint == "/e" }
	vrt.Replace(decodeJSONBodyStrict, func(w http.ResponseWriter, r *http.Request, dst any, allowEmpty bool) bool {
		if d, ok := dst.(*dequeueRequest); ok {
			d.Batch = 1
		}
		return true
	})
	want := refB64(payload)
	for round := 0; round < 2; round++ {
		w := &hRW{}
		s.ServeHTTP(w, &http.Request{Method: "POST", URL: &url.URL{Path: "/e/dequeue"}, Header: http.Header{}, Body: http.NoBody})
		recs := vrt.JSONEncoded()
		okResp := false
		var item dequeueItem
		if len(recs) == round+1 {
			if resp, isResp := recs[round].(dequeueResponse); isResp && len(resp.Items) == 1 {
				okResp, item = true, resp.Items[0]
			}
		}
		vrt.Assert("C07.pullhttp.the-message-is-delivered", okResp)
		if !okResp {
			return
		}
		vrt.Assert("C07.pullhttp.payload_b64-is-base64-of-the-stored-bytes", item.PayloadB64 == want)
		vrt.Assert("C07.pullhttp.headers-as-stored", len(item.Headers) == 1 && item.Headers["X-A"] == hv)
		vrt.Assert("C07.pullhttp.identity-and-attempt", item.ID == "m1" && item.Route == "/r" && item.Attempt == round+1 && item.LeaseID != "")
		if round == 0 {
			vrt.Assert("C07.pullhttp.nack-for-redelivery", ms.Nack(item.LeaseID, 0) == nil)
		}
	}
}

// verif:harness props=C04 tier=quick weight=25
// verif:bounds TWO concurrent callers present the same STALE lease id (unknown to the store, or the expired lease of the one message) to ack / nack / dead-letter through the pull API operations on a REAL MemoryStore, recent-lease-op (idempotency) cache enabled; every interleaving of the two calls at mutex acquisitions: both are conflicts (409), neither has an effect beyond returning the expired message to the queue
func VerifC04ConcurrentStaleCallsAreBothConflicts() {
	now := time.Unix(1700000000, 0)
	ms := queue.NewMemoryStore(queue.WithNowFunc(func() time.Time { return now }))
	ok := ms.Enqueue(queue.Envelope{ID: "m1", Route: "/r", Target: "pull", Payload: []byte("p")}) == nil
	res, err := ms.Dequeue(queue.DequeueRequest{Route: "/r", Batch: 1, LeaseTTL: time.Minute})
	vrt.Assume(ok && err == nil && len(res.Items) == 1)
	current := res.Items[0].LeaseID
	s := NewServer(ms)
	s.now = func() time.Time { return now }
	stale := "L-from-an-earlier-epoch"
	expired := vrt.Bool("the-stale-id-is-the-expired-current-lease")
	if expired {
		stale = current
		now = now.Add(2 * time.Minute)
	}
	op := vrt.Choose("op", 3)
	call := func() *OpError {
		switch op {
		case 0:
			return s.AckSingle("/r", stale)
		case 1:
			return s.NackSingle("/r", stale, false, "", time.Second)
		}
		return s.NackSingle("/r", stale, true, "why", 0)
	}
	var rB *OpError
	vrt.Go(func() { rB = call() })
	rA := call()
	vrt.Join()
	vrt.Assert("C04.concurrent.first-stale-call-is-a-conflict", rA != nil && rA.StatusCode == 409)
	vrt.Assert("C04.concurrent.second-stale-call-is-a-conflict-too", rB != nil && rB.StatusCode == 409)
	list, lerr := ms.ListMessages(queue.MessageListRequest{Limit: 5})
	okState := lerr == nil && len(list.Items) == 1 && list.Items[0].ID == "m1"
	if okState {
		if expired {
			okState = list.Items[0].State == queue.StateQueued
		} else {
			okState = list.Items[0].State == queue.StateLeased
		}
	}
	vrt.Assert("C04.concurrent.no-effect-beyond-requeueing-the-expired-message", okState)
}
