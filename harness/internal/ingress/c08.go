//go:build verif

package ingress

import (
	"encoding/base64"
	"encoding/hex"
	"net/http"
	"strconv"
	"time"

	"github.com/nuetzliches/hookaido/internal/secrets"
	vrt "github.com/nuetzliches/hookaido/internal/verifrt"
)

// hRotating builds the authenticator the way app.loadAuth does for `auth hmac secret_ref`: secrets
// valid at an instant are taken from a secrets.Set (2 versions, arbitrary windows).
func hRotating() (*HMACAuth, [2][]byte, secrets.Set) {
	keys := [2][]byte{[]byte("k0"), []byte("k1")}
	set := secrets.Set{}
	for i := 0; i < 2; i++ {
		v := secrets.Version{ID: []string{"a", "b"}[i], Value: keys[i], ValidFrom: vrt.Time("from")}
		if vrt.Bool("has-until") {
			v.ValidUntil = vrt.Time("until")
			vrt.Assume(v.ValidUntil.After(v.ValidFrom)) // Set.Validate precondition
		}
		set.Versions = append(set.Versions, v)
	}
	a := NewHMACAuth(nil)
	a.SelectSecrets = func(at time.Time) [][]byte {
		vs := set.ValidAt(at)
		out := make([][]byte, 0, len(vs))
		for _, v := range vs {
			out = append(out, v.Value)
		}
		return out
	}
	return a, keys, set
}

func refVersionValidAt(v secrets.Version, t time.Time) bool {
	return !t.Before(v.ValidFrom) && (v.ValidUntil.IsZero() || t.Before(v.ValidUntil))
}

// verif:harness props=C08,C17 tier=quick native=yes weight=560 tonly=C08
// verif:bounds signature header 0 or 64 symbolic bytes (thorough also 2); timestamp header 0 or 2 symbolic bytes (thorough 0..3); nonce 0..1 bytes; path 2 symbolic bytes; body 1 symbolic byte; method POST; arbitrary clock; static secret, or 2 rotating secret versions with arbitrary validity windows; SHA-256/HMAC uninterpreted (functional consistency only)
func VerifC08HMACSound() {
	now := vrt.Time("now")
	var a *HMACAuth
	var keys [2][]byte
	var set secrets.Set
	rotating := vrt.Choose("rotating", 2) == 1
	if rotating {
		a, keys, set = hRotating()
	} else {
		keys[0] = []byte("k0")
		a = NewHMACAuth([][]byte{keys[0]})
	}
	a.Now = func() time.Time { return now }
	sigLens, tsLens := []int{0, 64}, []int{0, 2}
	if vrt.Thorough() {
		sigLens, tsLens = []int{0, 2, 64}, []int{0, 1, 2, 3}
	}
	sig := vrt.StringN("sig", sigLens[vrt.Choose("siglen", len(sigLens))])
	ts := vrt.StringN("ts", tsLens[vrt.Choose("tslen", len(tsLens))])
	nonce := vrt.StringN("nonce", vrt.Choose("noncelen", 2))
	vrt.Assume(hTrimmed(sig) && hTrimmed(ts) && hTrimmed(nonce))
	h := http.Header{"X-Signature": []string{sig}, "X-Timestamp": []string{ts}, "X-Nonce": []string{nonce}}
	method := "POST"
	path := vrt.StringN("path", 2)
	body := vrt.StringN("body", 1)
	r := &http.Request{Method: method, Header: h}
	err := a.Verify(r, path, []byte(body))
	vrt.Observe("accepted", err == nil)
	if err != nil {
		return
	}
	vrt.Cover("hmac.accepted")
	vrt.Assert("C08.hmac.all-three-headers-present", len(sig) > 0 && len(ts) > 0 && len(nonce) > 0)
	tsv, perr := strconv.ParseInt(ts, 10, 64)
	vrt.Assert("C08.hmac.timestamp-parses", perr == nil)
	signedAt := time.Unix(tsv, 0)
	d := now.Sub(signedAt)
	vrt.Assert("C08.hmac.within-tolerance", d <= a.Tolerance && d >= -a.Tolerance)
	got, derr := hex.DecodeString(sig)
	vrt.Assert("C08.hmac.signature-is-hex-of-32-bytes", derr == nil && len(got) == 32)
	if len(got) != 32 {
		return
	}
	// accepted => the signature is the HMAC of the canonical string under a secret valid AT THE SIGNED TIMESTAMP
	bh := vrt.SHA256([]byte(body))
	canon := ts + "\n" + method + "\n" + path + "\n" + hex.EncodeToString(bh[:])
	match := false
	for i := 0; i < 2; i++ {
		if i == 1 && !rotating {
			continue
		}
		want := vrt.HMACSHA256(keys[i], []byte(canon))
		eq := true
		for k := 0; k < 32; k++ {
			e := got[k] == want[k]
			eq = eq && e
		}
		validAt := true
		if rotating {
			validAt = refVersionValidAt(set.Versions[i], signedAt)
		}
		m := eq && validAt
		match = match || m
	}
	vrt.Assert("C08.hmac.signature-equals-hmac-under-a-secret-valid-at-signed-time", match)
}

// verif:harness props=C08,C17 tier=quick weight=40 tonly=C08
// verif:bounds a correctly signed request (timestamp 1700000000, path 2 symbolic bytes, body 1 symbolic byte, fresh nonce) under each of 2 rotating secret versions with arbitrary windows; arbitrary clock
func VerifC08HMACComplete() {
	now := vrt.Time("now")
	a, keys, set := hRotating()
	a.Now = func() time.Time { return now }
	ts := "1700000000"
	signedAt := time.Unix(1700000000, 0)
	path := vrt.StringN("path", 2)
	body := vrt.StringN("body", 1)
	ki := vrt.Choose("signing-key", 2)
	bh := vrt.SHA256([]byte(body))
	canon := ts + "\n" + "POST" + "\n" + path + "\n" + hex.EncodeToString(bh[:])
	mac := vrt.HMACSHA256(keys[ki], []byte(canon))
	// the signature header is 64 arbitrary bytes ASSUMED to decode to that HMAC (cheaper for the solver than
	// pushing the digest through the hex encoder and back; it is why this harness has no native twin)
	sig := vrt.StringN("sig", 64)
	dec, derr := hex.DecodeString(sig)
	vrt.Assume(derr == nil && len(dec) == 32)
	for k := 0; k < 32; k++ {
		vrt.Assume(dec[k] == mac[k])
	}
	r := &http.Request{Method: "POST", Header: http.Header{"X-Signature": []string{sig}, "X-Timestamp": []string{ts}, "X-Nonce": []string{"n-1"}}}
	err := a.Verify(r, path, []byte(body))
	d := now.Sub(signedAt)
	inTol := d <= a.Tolerance && d >= -a.Tolerance
	valid := refVersionValidAt(set.Versions[ki], signedAt)
	if inTol && valid {
		vrt.Assert("C17.inbound.never-rejects-a-secret-valid-at-the-signed-timestamp", err == nil)
	}
	if !inTol {
		vrt.Assert("C08.hmac.outside-tolerance-rejected", err != nil)
	}
}

// verif:harness props=C08 tier=quick native=yes weight=30
// verif:bounds one configured user "u1" with password "pw1"; Authorization: "Basic " + base64(user ":" pass) with user <= 2 and pass <= 3 symbolic bytes (every byte value except ':' in the user), or header absent, or another scheme
func VerifC08Basic() {
	a := NewBasicAuth(map[string]string{"u1": "pw1"})
	r := &http.Request{Header: http.Header{}}
	shape := vrt.Choose("shape", 3)
	user := vrt.String("user", 2)
	pass := vrt.String("pass", 3)
	for i := 0; i < len(user); i++ {
		vrt.Assume(user[i] != ':')
	}
	cred := base64.StdEncoding.EncodeToString([]byte(user + ":" + pass))
	switch shape {
	case 0:
		r.Header.Set("Authorization", "Basic "+cred)
	case 1:
		r.Header.Set("Authorization", "Bearer "+cred)
	}
	got := a.Verify(r)
	vrt.Observe("accepted", got)
	want := shape == 0 && user == "u1" && pass == "pw1"
	vrt.Assert("C08.basic.accepts-exactly-a-configured-user-with-its-password", got == want)
}

// verif:harness props=C08 tier=quick weight=10
// verif:bounds auth service reached through a havoc (*http.Client).Do: any int status or a transport error; request body 0..2 symbolic bytes
func VerifC08Forward() {
	a := NewForwardAuth("https://auth.internal/check")
	a.Client = &http.Client{}
	body := vrt.Bytes("body", 2)
	r := &http.Request{Method: "POST", Header: http.Header{"X-A": []string{"1"}}}
	_, status := a.Authorize(r, "/hook", body)
	reqs := vrt.HTTPRequests()
	vrt.Assert("C08.forward.asks-the-auth-service-once", len(reqs) == 1)
	tr := vrt.Trace()
	transportErr := false
	for _, e := range tr {
		if e == "http.Do:error" {
			transportErr = true
		}
	}
	code := vrt.LastHTTPStatus()
	switch {
	case transportErr:
		vrt.Assert("C08.forward.unreachable-fails-closed-503", status == http.StatusServiceUnavailable)
	case code >= 200 && code <= 299:
		vrt.Assert("C08.forward.2xx-allows", status == 0)
	case code == 401 || code == 403:
		vrt.Assert("C08.forward.401-403-passed-through", status == code)
	default:
		vrt.Assert("C08.forward.everything-else-fails-closed-503", status == http.StatusServiceUnavailable)
	}
}
