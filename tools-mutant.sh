#!/bin/bash
# usage: tools-mutant.sh <patch.diff> <PROP> [more props]
# Applies a seeded patch to a scratch worktree of /repo HEAD and runs the quick checks against it
# (VERIF_REPO / VERIF_OUT), so /repo itself and /verif/evidence are not touched. VERIF_SNAP=<dir> runs the checks from a
# copy of /verif (harnesses, models) taken earlier, so that edits in progress in /verif do not disturb the run.
patch="$1"; shift
wt=/tmp/wt-mut-$$; out=/tmp/out-mut-$$
git -C /repo worktree add -q --detach $wt HEAD || exit 3
trap "git -C /repo worktree remove --force $wt; git -C /repo worktree prune; rm -rf $out" EXIT
( cd $wt && git apply "$patch" ) || { echo "patch does not apply"; exit 3; }
mkdir -p $out
for p in "$@"; do
  ( cd ${VERIF_SNAP:-/verif} && VERIF_ROOT=${VERIF_SNAP:-/verif} VERIF_REPO=$wt VERIF_OUT=$out timeout 1500 /verif/bin/gosym check "$p" ${TIER:+-tier $TIER} 2>&1 | egrep "^VIOLATION|^PASS|^INCONCLUSIVE|^KNOWN|harness=" | cut -c1-260 | head -${LINES_MAX:-6} )
done
