#!/bin/sh
# usage: tools-mutant.sh <patch.diff> <PROP> [more props]  -- applies a seeded patch to /repo, runs quick checks, reverts
patch="$1"; shift
cd /repo && git apply "$patch" || { echo "patch does not apply"; exit 3; }
for p in "$@"; do
  ( cd /verif && timeout 1500 ./bin/gosym check "$p" 2>&1 | egrep "^VIOLATION|^PASS|^INCONCLUSIVE|^KNOWN|harness=" | cut -c1-260 | head -8 )
done
cd /repo && git checkout -- . && git status --short | head -3
