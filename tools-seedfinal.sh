#!/bin/bash
# usage: tools-seedfinal.sh <incoming seed dir> <PROP> <k> "<props to check>"
# verifies the seed in a scratch worktree, runs the quick checks against it, files it under /verif/seeded/<PROP>-<k>/
d="$1"; prop="$2"; k="$3"; checks="$4"
dest=/verif/seeded/$prop-$k
ver=$(/verif/tools-seedverify.sh "$d" 2>/dev/null | tail -1)
ok=$(echo "$ver" | python3 -c "import json,sys;v=json.load(sys.stdin);print('yes' if v['applies']=='yes' and v['builds']=='yes' and v['suite_with_change']=='pass' and v['demo_with_change']=='fail' and v['demo_without_change']=='pass' else 'no')")
if [ "$ok" != yes ]; then echo "NOT CONFIRMED $d: $ver"; exit 1; fi
det=$(LINES_MAX=40 /verif/tools-mutant.sh "$d/patch.diff" $checks 2>&1)
mkdir -p $dest
cp "$d/patch.diff" $dest/patch.diff
[ -f "$d/patch.orig.diff" ] && cp "$d/patch.orig.diff" $dest/patch.pinned-snapshot.diff
demo=$(python3 -c "import json;print(json.load(open('$d/meta.json'))['demo_file'])")
cp "$d/$(basename $demo)" $dest/
python3 - "$d" "$dest" "$prop" "$checks" <<PY
import json,sys,subprocess
d,dest,prop,checks=sys.argv[1:5]
m=json.load(open(d+'/meta.json'))
ver=json.loads('''$ver''')
det='''$det'''
verdicts={}
for line in det.splitlines():
    for tag in ('PASS','INCONCLUSIVE','VIOLATION'):
        if line.startswith(tag+' property='):
            pid=line.split('property=')[1].split()[0]
            if verdicts.get(pid)!='VIOLATION':
                verdicts[pid]=tag
hits=sorted({l.split('harness=')[1].split()[0]+':'+l.split('assertion=')[1].split()[0] for l in det.splitlines() if 'harness=' in l and 'assertion=' in l})
out={"property":prop,"summary":m.get('summary'),"needs":m.get('needs'),"files_changed":m.get('files_changed'),
 "demo_file":m.get('demo_file'),"demo_dest":m.get('demo_dest'),"demo_cmd":ver['demo_cmd'],
 "origin":"written by an independent sub-agent that saw only the property text and a scratch worktree",
 "confirmed_by_me":{"on":"scratch worktree of /repo HEAD "+subprocess.check_output(['git','-C','/repo','rev-parse','--short','HEAD']).decode().strip(),
   "patch_applies":ver['applies'],"builds":ver['builds'],"full_suite_with_change":ver['suite_with_change'],"demo_with_change":ver['demo_with_change'],"demo_without_change":ver['demo_without_change'],
   "commands":["git apply patch.diff","go build ./...","go test -mod=mod -vet=off -count=1 ./...",ver['demo_cmd'],"git apply -R patch.diff",ver['demo_cmd']]},
 "checks_run":checks.split(),"check_verdicts":verdicts,"detected":any(v=='VIOLATION' for v in verdicts.values()),"violated_assertions":hits[:12]}
json.dump(out,open(dest+'/meta.json','w'),indent=1)
print(prop,sys.argv[3] if len(sys.argv)>3 else '', 'detected' if out['detected'] else 'MISSED', verdicts, hits[:3])
PY
