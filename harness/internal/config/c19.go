//go:build verif

package config

import (
	"strings"

	vrt "github.com/nuetzliches/hookaido/internal/verifrt"
)

func hASCII(s string) bool {
	ok := true
	for i := 0; i < len(s); i++ {
		ok = ok && s[i] < 0x80
	}
	return ok
}

// verif:harness props=C19 tier=quick native=yes weight=30
// verif:bounds L1: for every ASCII string v of 0..3 bytes (thorough 0..4; all 128 values per byte incl. quote, backslash, CR, LF, TAB, NUL, braces, '#'), lexing quoteString(v) yields exactly one string token with text v
func VerifC19QuoteRoundTrip() {
	max := 3
	if vrt.Thorough() {
		max = 4
	}
	v := vrt.String("v", max)
	vrt.Assume(hASCII(v))
	src := quoteString(v) + "\n"
	l := newLexer(src)
	tok, err := l.nextToken()
	vrt.Assert("C19.quote.lexes-as-one-string", err == nil && tok.kind == tokString)
	vrt.Assert("C19.quote.text-preserved", tok.text == v)
	tok2, err2 := l.nextToken()
	vrt.Assert("C19.quote.nothing-left-over", err2 == nil && tok2.kind == tokEOF)
}

// verif:harness props=C19 tier=quick native=yes weight=30
// verif:bounds L2: for every ASCII source text s of 1..3 bytes (thorough 4) that the real lexer reads as ONE bare value token v followed by end of line, formatValue(v,false) and formatRoutePath(v,false) are read back as one value token with text v
func VerifC19BareRoundTrip() {
	max := 3
	if vrt.Thorough() {
		max = 4
	}
	s := vrt.String("s", max)
	vrt.Assume(hASCII(s) && len(s) > 0)
	l0 := newLexer(s + "\n")
	t0, err0 := l0.nextToken()
	if err0 != nil || t0.kind != tokIdent {
		return
	}
	t1, err1 := l0.nextToken()
	if err1 != nil || t1.kind != tokEOF {
		return
	}
	vrt.Cover("bare.lexer-image")
	v := t0.text
	for _, out := range []string{formatValue(v, false), formatRoutePath(v, false)} {
		l := newLexer(out + "\n")
		tok, err := l.nextToken()
		vrt.Assert("C19.bare.reads-back-as-one-value", err == nil && (tok.kind == tokString || tok.kind == tokIdent) && tok.text == v)
		tok2, err2 := l.nextToken()
		vrt.Assert("C19.bare.nothing-left-over", err2 == nil && tok2.kind == tokEOF)
	}
}

// ---- grammar level: templates with one symbolic value hole ----

type hTemplate struct {
	name string
	src  string // %H marks the hole
	get  func(c *Config) []string
}

func hRoute0(c *Config) *Route {
	if len(c.Routes) == 0 {
		return nil
	}
	return &c.Routes[0]
}

var hTemplates = []hTemplate{
	{"route-auth-hmac", "pull_api {\n  auth token \"raw:t\"\n}\n\"/x\" {\n  auth hmac %H\n  pull {\n    path \"/p\"\n  }\n}\n", func(c *Config) []string {
		if r := hRoute0(c); r != nil {
			return r.AuthHMACSecrets
		}
		return nil
	}},
	{"pull-api-auth-token", "pull_api {\n  auth token %H\n}\n\"/x\" {\n  pull {\n    path \"/p\"\n  }\n}\n", func(c *Config) []string {
		if c.PullAPI != nil {
			return c.PullAPI.AuthTokens
		}
		return nil
	}},
	{"match-host", "pull_api {\n  auth token \"raw:t\"\n}\n\"/x\" {\n  match {\n    host %H\n  }\n  pull {\n    path \"/p\"\n  }\n}\n", func(c *Config) []string {
		if r := hRoute0(c); r != nil && r.Match != nil {
			return r.Match.Hosts
		}
		return nil
	}},
	{"publish-block-and-dot-notation", "pull_api {\n  auth token \"raw:t\"\n}\n\"/x\" {\n  publish {\n    enabled off\n  }\n  publish.direct %H\n  pull {\n    path \"/p\"\n  }\n}\n", func(c *Config) []string {
		if r := hRoute0(c); r != nil && r.Publish != nil {
			return []string{"enabled=" + r.Publish.Enabled, "direct=" + r.Publish.Direct, "managed=" + r.Publish.Managed}
		}
		return nil
	}},
	{"publish-shorthand", "pull_api {\n  auth token \"raw:t\"\n}\n\"/x\" {\n  publish %H\n  pull {\n    path \"/p\"\n  }\n}\n", func(c *Config) []string {
		if r := hRoute0(c); r != nil && r.Publish != nil {
			return []string{"enabled=" + r.Publish.Enabled, "direct=" + r.Publish.Direct, "managed=" + r.Publish.Managed}
		}
		return nil
	}},
	{"pull-path", "pull_api {\n  auth token \"raw:t\"\n}\n\"/x\" {\n  pull {\n    path %H\n  }\n}\n", func(c *Config) []string {
		if r := hRoute0(c); r != nil && r.Pull != nil {
			return []string{r.Pull.Path}
		}
		return nil
	}},
	{"egress-deny", "defaults {\n  egress {\n    deny %H\n  }\n}\n\"/x\" {\n  deliver \"https://t.example/h\" {\n  }\n}\n", func(c *Config) []string {
		if c.Defaults != nil && c.Defaults.Egress != nil {
			return c.Defaults.Egress.Deny
		}
		return nil
	}},
	{"deliver-url", "\"/x\" {\n  deliver %H {\n  }\n}\n", func(c *Config) []string {
		if r := hRoute0(c); r != nil && len(r.Deliveries) > 0 {
			return []string{r.Deliveries[0].URL}
		}
		return nil
	}},
}

func hSameStrings(a, b []string) bool {
	if len(a) != len(b) {
		return false
	}
	for i := range a {
		if a[i] != b[i] {
			return false
		}
	}
	return true
}

func hBlank(s string) bool { return strings.TrimSpace(s) == "" }

// hQuote spells a value the way an operator writes it, following the escapes the lexer documents
// (independent of the formatter's own quoteString).
func hQuote(s string) string {
	out := []byte{'"'}
	for i := 0; i < len(s); i++ {
		switch c := s[i]; c {
		case '\\':
			out = append(out, '\\', '\\')
		case '"':
			out = append(out, '\\', '"')
		case '\n':
			out = append(out, '\\', 'n')
		case '\t':
			out = append(out, '\\', 't')
		case '\r':
			out = append(out, '\\', 'r')
		default:
			out = append(out, c)
		}
	}
	return string(append(out, '"'))
}

// verif:harness props=C19 tier=quick native=yes weight=150
// verif:bounds Parse -> Format -> Parse -> Format on 5 configuration templates (thorough 8: route auth hmac, pull_api auth token, pull path, match host, egress deny, publish block + dot notation, publish shorthand, deliver url) with one value hole: any ASCII string of 0..2 bytes (thorough 0..3), written quoted (escaped as the lexer documents) or bare; only texts the real parser accepts are in scope
func VerifC19TemplateRoundTrip() {
	nt, max := 5, 2
	if vrt.Thorough() {
		nt, max = len(hTemplates), 3
	}
	t := hTemplates[vrt.Choose("template", nt)]
	h := vrt.String("hole", max)
	vrt.Assume(hASCII(h))
	quoted := vrt.Choose("quoted", 2) == 1
	sp := h
	if quoted {
		sp = hQuote(h)
	}
	src := strings.Replace(t.src, "%H", sp, 1)
	c1, err := Parse([]byte(src))
	if err != nil {
		return // only texts that parse are in scope
	}
	vrt.Cover("template.parsed")
	f1, err := Format(c1)
	vrt.Assert("C19.fmt.formats", err == nil)
	c2, err := Parse(f1)
	vrt.Assert("C19.fmt.formatted-text-parses-again", err == nil)
	if err != nil {
		return
	}
	f2, _ := Format(c2)
	vrt.Assert("C19.fmt.formatting-twice-changes-nothing", string(f1) == string(f2))
	// recorded finding: the formatter skips values whose trimmed text is empty (`auth hmac ""`, `deny ""`, ...):
	// the directive disappears, and with it a validation error
	v1 := t.get(c1)
	anyBlank := false
	for _, v := range v1 {
		if hBlank(v) {
			anyBlank = true
		}
	}
	vrt.KnownFinding("C19-formatter-drops-blank-values", anyBlank)
	vrt.Assert("C19.fmt.directive-and-value-survive-the-rewrite", hSameStrings(v1, t.get(c2)))
	vrt.Assert("C19.fmt.same-number-of-routes", len(c1.Routes) == len(c2.Routes))
}

// verif:harness props=C19 tier=quick native=yes weight=120
// verif:bounds the same Parse -> Format -> Parse round trip on 4 templates (thorough 8) with a QUOTED value hole "a" + two ARBITRARY bytes (all 256 values each: valid multi-byte UTF-8, invalid UTF-8, Latin-1, NUL...) — texts the real parser rejects are out of scope; what it accepts must keep its exact bytes through the rewrite
func VerifC19NonASCIIQuotedRoundTrip() {
	nt := 4
	if vrt.Thorough() {
		nt = len(hTemplates)
	}
	t := hTemplates[vrt.Choose("template", nt)]
	b1, b2 := vrt.Byte("b1"), vrt.Byte("b2")
	vrt.Assume(b1 >= 0x80 || b2 >= 0x80) // (pure ASCII: VerifC19TemplateRoundTrip)
	h := "a" + string([]byte{b1, b2})
	src := strings.Replace(t.src, "%H", hQuote(h), 1)
	c1, err := Parse([]byte(src))
	if err != nil {
		vrt.Cover("nonascii.parser-refuses")
		return
	}
	vrt.Cover("nonascii.parsed")
	f1, err := Format(c1)
	vrt.Assert("C19.nonascii.formats", err == nil)
	c2, err := Parse(f1)
	vrt.Assert("C19.nonascii.formatted-text-parses-again", err == nil)
	if err != nil {
		return
	}
	f2, _ := Format(c2)
	vrt.Assert("C19.nonascii.formatting-twice-changes-nothing", string(f1) == string(f2))
	vrt.Assert("C19.nonascii.value-keeps-its-exact-bytes", hSameStrings(t.get(c1), t.get(c2)))
}

// verif:harness props=C19 tier=quick native=yes weight=60
// verif:bounds Parse -> Compile and Parse -> Format -> Parse -> Compile on generated files of 3 routes (thorough 4), each written bare, as `inbound <path> {..}`, `outbound <path> {..}` or `internal <path> {..}`, optionally two neighbours inside one `<channel> { .. }` wrapper; inbound routes carry pull + optionally auth hmac, outbound routes deliver, internal routes pull; the compiled route list (path, channel type, auth secrets, pull path, deliver targets) must be the same, in the same order
func VerifC19RouteOrderAndChannelsRoundTrip() {
	n := 3
	if vrt.Thorough() {
		n = 4
	}
	paths := []string{"/hooks/a", "/hooks", "/jobs", "/x"}
	kinds := make([]int, n) // 0 bare, 1 inbound, 2 outbound, 3 internal
	for i := range kinds {
		kinds[i] = vrt.Choose("channel", 4)
	}
	body := func(i int) string {
		switch kinds[i] {
		case 2:
			return "  deliver \"https://t" + string(rune('0'+i)) + ".example/h\" {\n  }\n"
		case 3:
			return "  pull {\n    path \"/pull/i" + string(rune('0'+i)) + "\"\n  }\n"
		}
		s := "  pull {\n    path \"/pull/p" + string(rune('0'+i)) + "\"\n  }\n"
		if vrt.Bool("auth-hmac") {
			s = "  auth hmac raw:k" + string(rune('0'+i)) + "\n" + s
		}
		return s
	}
	chName := []string{"", "inbound", "outbound", "internal"}
	var b strings.Builder
	b.WriteString("pull_api {\n  auth token raw:tok\n}\n")
	for i := 0; i < n; i++ {
		// two neighbours of the same explicit channel may share one wrapper block
		if kinds[i] != 0 && i+1 < n && kinds[i+1] == kinds[i] && vrt.Bool("wrapper-block") {
			b.WriteString(chName[kinds[i]] + " {\n")
			b.WriteString("\"" + paths[i] + "\" {\n" + body(i) + "}\n")
			b.WriteString("\"" + paths[i+1] + "\" {\n" + body(i+1) + "}\n")
			b.WriteString("}\n")
			i++
			continue
		}
		prefix := ""
		if kinds[i] != 0 {
			prefix = chName[kinds[i]] + " "
		}
		b.WriteString(prefix + "\"" + paths[i] + "\" {\n" + body(i) + "}\n")
	}
	src := b.String()
	c1, err := Parse([]byte(src))
	vrt.Assert("C19.routes.generated-text-parses", err == nil)
	if err != nil {
		return
	}
	k1, r1 := Compile(c1)
	f1, err := Format(c1)
	vrt.Assert("C19.routes.formats", err == nil)
	c2, err := Parse(f1)
	vrt.Assert("C19.routes.formatted-text-parses-again", err == nil)
	if err != nil {
		return
	}
	k2, r2 := Compile(c2)
	f2, _ := Format(c2)
	vrt.Assert("C19.routes.formatting-twice-changes-nothing", string(f1) == string(f2))
	vrt.Assert("C19.routes.same-validation-result", r1.OK == r2.OK && len(r1.Errors) == len(r2.Errors))
	if !r1.OK || !r2.OK {
		return
	}
	vrt.Cover("routes.compiled")
	same := len(k1.Routes) == len(k2.Routes)
	if same {
		for i := range k1.Routes {
			a, z := k1.Routes[i], k2.Routes[i]
			same = same && a.Path == z.Path && a.ChannelType == z.ChannelType && hSameStrings(a.AuthHMACSecrets, z.AuthHMACSecrets)
			same = same && (a.Pull == nil) == (z.Pull == nil) && len(a.Deliveries) == len(z.Deliveries)
			if same && a.Pull != nil {
				same = a.Pull.Path == z.Pull.Path
			}
			if same {
				for j := range a.Deliveries {
					same = same && a.Deliveries[j].URL == z.Deliveries[j].URL
				}
			}
		}
	}
	vrt.Assert("C19.routes.same-routes-in-the-same-order-with-the-same-channel-auth-and-targets", same)
}

// verif:harness props=C19 tier=quick native=yes weight=40
// verif:bounds a file whose leading comment line is followed by ONE arbitrary byte (all 256 values: LF, CR, NUL, '#', quotes, high bytes ...) and then the text of a route block on the same physical line, then a second route; optionally CRLF line endings and a UTF-8 BOM; Parse -> Compile and Parse -> Format -> Parse -> Compile: whether the byte ends the comment (so the route is configuration) or not (so it is commentary) is decided the same way before and after formatting
func VerifC19CommentBoundaryRoundTrip() {
	h := vrt.Byte("byte-after-the-comment")
	eol := "\n"
	if vrt.Bool("crlf") {
		eol = "\r\n"
	}
	src := ""
	if vrt.Bool("bom") {
		src = "\xef\xbb\xbf"
	}
	src += "# operator notes" + string([]byte{h}) + "/dbg { pull { path /pull/dbg } }" + eol
	src += "pull_api {" + eol + "  auth token raw:tok" + eol + "}" + eol
	src += "\"/hooks\" {" + eol + "  pull {" + eol + "    path \"/pull/hooks\"" + eol + "  }" + eol + "}" + eol
	c1, err := Parse([]byte(src))
	if err != nil {
		return // only texts that parse are in scope
	}
	vrt.Cover("comment.parsed")
	k1, r1 := Compile(c1)
	f1, err := Format(c1)
	vrt.Assert("C19.comment.formats", err == nil)
	c2, err := Parse(f1)
	vrt.Assert("C19.comment.formatted-text-parses-again", err == nil)
	if err != nil {
		return
	}
	k2, r2 := Compile(c2)
	f2, _ := Format(c2)
	vrt.Assert("C19.comment.formatting-twice-changes-nothing", string(f1) == string(f2))
	vrt.Assert("C19.comment.same-validation-result", r1.OK == r2.OK)
	same := len(k1.Routes) == len(k2.Routes)
	if same {
		for i := range k1.Routes {
			same = same && k1.Routes[i].Path == k2.Routes[i].Path
		}
	}
	vrt.Assert("C19.comment.same-routes-before-and-after-formatting", same)
}
