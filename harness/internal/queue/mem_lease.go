//go:build verif

package queue

import (
	"strings"
	"time"

	vrt "github.com/nuetzliches/hookaido/internal/verifrt"
)

const (
	opAck = iota
	opNack
	opExtend
	opMarkDead
)

// refRequeued: what lease expiry (the only side effect a refused call may have) does to an item.
func refRequeued(p mSnap, now time.Time) mSnap {
	p.state = StateQueued
	p.leaseID = ""
	p.leaseUntil = time.Time{}
	p.nextRunAt = now
	p.deadReason = ""
	return p
}

// refLeaseEffect: the documented effect of an ACCEPTED ack/nack/extend/mark-dead on the item.
func refLeaseEffect(op int, p mSnap, now time.Time, d time.Duration, reason string, deliveredRetention bool) mSnap {
	switch op {
	case opAck:
		if !deliveredRetention {
			return mSnap{}
		}
		p.state = StateDelivered
		p.leaseID = ""
		p.leaseUntil = time.Time{}
		p.nextRunAt = now
		p.deadReason = ""
	case opNack:
		p.state = StateQueued
		p.leaseID = ""
		p.leaseUntil = time.Time{}
		if d < 0 {
			d = 0
		}
		p.nextRunAt = now.Add(d)
		p.deadReason = ""
	case opExtend:
		p.leaseUntil = p.leaseUntil.Add(d)
		p.nextRunAt = p.leaseUntil
	case opMarkDead:
		p.state = StateDead
		p.leaseID = ""
		p.leaseUntil = time.Time{}
		p.nextRunAt = now
		p.deadReason = reason
	}
	return p
}

var mLeaseMenu = []string{"L0", "L1", "L2", "S0", "zz", "", " L0"}

// verif:harness props=C04,C02 tier=quick native=yes weight=25 tonly=C04
// verif:bounds N=2 live messages (thorough 3), each in any of the 5 states with arbitrary timestamps/attempt; presented lease id from {current of each item, superseded id still indexed, unknown, blank, blank-padded}; arbitrary delay/extension incl. 0 and negative; delivered-retention on/off; dangling lease-index entries explored
func VerifC04LeaseOps() {
	n := 2
	if vrt.Thorough() {
		n = 3
	}
	w := mNew(n, mOpts{stale: true})
	retention := vrt.Bool("deliveredRetention")
	if retention {
		w.s.deliveredRetentionMaxAge = time.Hour
	}
	pre := w.snap()
	presented := mLeaseMenu[vrt.Choose("lease", len(mLeaseMenu))]
	op := vrt.Choose("op", 4)
	d := vrt.Duration("d")
	var err error
	switch op {
	case opAck:
		err = w.s.Ack(presented)
	case opNack:
		err = w.s.Nack(presented, d)
	case opExtend:
		err = w.s.Extend(presented, d)
	case opMarkDead:
		err = w.s.MarkDead(presented, "why")
	}
	post := w.snap()
	noop := op == opExtend && d <= 0 // documented: non-positive extend is a successful no-op
	anyCurrent := false
	for i := 0; i < n; i++ {
		current := pre[i].state == StateLeased && pre[i].leaseID == presented
		if !current || noop {
			vrt.Assert("C04.single.others-untouched", sameItem(pre[i], post[i]))
			continue
		}
		anyCurrent = true
		if w.now.Before(pre[i].leaseUntil) {
			want := refLeaseEffect(op, pre[i], w.now, d, "why", retention)
			vrt.Assert("C04.single.effective", err == nil && sameItem(want, post[i]))
		} else {
			want := refRequeued(pre[i], w.now)
			vrt.Assert("C04.single.expired-only-requeues", err == ErrLeaseExpired && sameItem(want, post[i]))
		}
	}
	if noop {
		vrt.Assert("C04.single.extend-nonpositive-noop", err == nil)
	} else if !anyCurrent {
		vrt.Assert("C04.single.conflict", err == ErrLeaseNotFound)
	}
	vrt.Assert("C02.inv.lease-single", w.inv())
	vrt.Observe("err", err)
}

// refBatch simulates the per-id rule of the batch forms on snapshots.
func refBatch(op int, cur []mSnap, ids []string, now time.Time, d time.Duration, reason string, retention bool) (succeeded, notFound, expired int) {
	for _, raw := range ids {
		id := strings.TrimSpace(raw)
		hit := -1
		if id != "" {
			for i := range cur {
				if cur[i].present && cur[i].state == StateLeased && cur[i].leaseID == id {
					hit = i
				}
			}
		}
		if hit < 0 {
			notFound++
			continue
		}
		if !now.Before(cur[hit].leaseUntil) {
			cur[hit] = refRequeued(cur[hit], now)
			expired++
			continue
		}
		cur[hit] = refLeaseEffect(op, cur[hit], now, d, reason, retention)
		succeeded++
	}
	return
}

// verif:harness props=C04 tier=quick native=yes weight=90
// verif:bounds N=2 messages (thorough 3); batch of 2 lease ids (thorough 3) drawn with repetition from {current, superseded-but-indexed, unknown, blank, padded}; ack/nack/mark-dead batch; arbitrary clock and delay
func VerifC04LeaseBatch() {
	n, k := 2, 2
	if vrt.Thorough() {
		n, k = 3, 3
	}
	w := mNew(n, mOpts{stale: true})
	retention := vrt.Bool("deliveredRetention")
	if retention {
		w.s.deliveredRetentionMaxAge = time.Hour
	}
	pre := w.snap()
	ids := make([]string, k)
	for j := range ids {
		ids[j] = mLeaseMenu[vrt.Choose("lease", len(mLeaseMenu))]
	}
	op := []int{opAck, opNack, opMarkDead}[vrt.Choose("op", 3)]
	d := vrt.Duration("d")
	var res LeaseBatchResult
	var err error
	switch op {
	case opAck:
		res, err = w.s.AckBatch(ids)
	case opNack:
		res, err = w.s.NackBatch(ids, d)
	case opMarkDead:
		res, err = w.s.MarkDeadBatch(ids, "why")
	}
	post := w.snap()
	want := append([]mSnap{}, pre...)
	succ, nf, exp := refBatch(op, want, ids, w.now, d, "why", retention)
	vrt.Assert("C04.batch.noerr", err == nil)
	for i := 0; i < n; i++ {
		vrt.Assert("C04.batch.state-per-id-rule", sameItem(want[i], post[i]))
	}
	gotExp := 0
	for _, c := range res.Conflicts {
		if c.Expired {
			gotExp++
		}
	}
	vrt.Assert("C04.batch.counts", res.Succeeded == succ && len(res.Conflicts) == nf+exp && gotExp == exp)
	vrt.Assert("C02.inv.lease-batch", w.inv())
	vrt.Observe("succeeded", res.Succeeded)
}
