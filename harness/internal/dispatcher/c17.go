//go:build verif

package dispatcher

import (
	"context"
	"encoding/hex"
	"io"
	"net/http"
	"strconv"
	"strings"
	"time"

	vrt "github.com/nuetzliches/hookaido/internal/verifrt"
)

// verif:harness props=C17 tier=quick native=yes weight=2
// verif:bounds one secret version with valid_from zero or arbitrary, valid_until absent or arbitrary; arbitrary instant
func VerifC17VersionValidAt() {
	v := HMACSigningSecretVersion{ID: "a", Ref: "raw:k"}
	fromSet := vrt.Bool("from-set")
	from := vrt.Time("from")
	if fromSet {
		v.ValidFrom = from
	}
	v.HasUntil = vrt.Bool("has-until")
	v.ValidUntil = vrt.Time("until")
	at := vrt.Time("at")
	got := isSigningSecretVersionValidAt(v, at)
	// valid_from inclusive, valid_until exclusive
	want := fromSet && !at.Before(from) && (!v.HasUntil || at.Before(v.ValidUntil))
	vrt.Observe("valid", got)
	vrt.Assert("C17.window.from-inclusive-until-exclusive", got == want)
}

// verif:harness props=C17 tier=quick native=yes weight=25
// verif:bounds 3 secret versions with arbitrary (overlapping, adjacent, equal) windows and distinct symbolic one-byte ids in arbitrary list order; selection mode from {default, newest_valid, oldest_valid, padded mixed-case, unsupported}; arbitrary signing instant
func VerifC17Select() {
	const n = 3
	cfg := &HMACSigningConfig{SignatureHeader: "X-Sig", TimestampHeader: "X-Ts"}
	ids := make([]byte, n)
	for i := 0; i < n; i++ {
		ids[i] = vrt.Byte("id")
		v := HMACSigningSecretVersion{ID: string([]byte{ids[i]}), Ref: []string{"raw:k0", "raw:k1", "raw:k2"}[i], ValidFrom: vrt.Time("from")}
		v.HasUntil = vrt.Bool("has-until")
		if v.HasUntil {
			v.ValidUntil = vrt.Time("until")
		}
		cfg.SecretVersions = append(cfg.SecretVersions, v)
	}
	vrt.Assume(ids[0] != ids[1] && ids[0] != ids[2] && ids[1] != ids[2])
	modes := []string{"", "newest_valid", "oldest_valid", " Oldest_Valid ", "random"}
	mi := vrt.Choose("mode", len(modes))
	cfg.SecretSelection = modes[mi]
	oldest := mi == 2 || mi == 3
	at := vrt.Time("at")
	got, err := selectSigningSecretRef(cfg, at)
	if mi == 4 {
		vrt.Assert("C17.select.unsupported-mode-is-an-error", err != nil)
		return
	}
	// reference: the valid version that beats every other valid version (newest/oldest valid_from, ties by smaller id)
	valid := make([]bool, n)
	anyValid := false
	for i, v := range cfg.SecretVersions {
		valid[i] = !at.Before(v.ValidFrom) && (!v.HasUntil || at.Before(v.ValidUntil))
		anyValid = anyValid || valid[i]
	}
	if !anyValid {
		vrt.Assert("C17.select.none-valid-is-an-error", err != nil)
		return
	}
	want := ""
	for i, v := range cfg.SecretVersions {
		if !valid[i] {
			continue
		}
		best := true
		for j, o := range cfg.SecretVersions {
			if j == i || !valid[j] {
				continue
			}
			var beats bool
			if oldest {
				beats = v.ValidFrom.Before(o.ValidFrom)
			} else {
				beats = v.ValidFrom.After(o.ValidFrom)
			}
			tie := v.ValidFrom.Equal(o.ValidFrom) && ids[i] < ids[j]
			if !beats && !tie {
				best = false
			}
		}
		if best {
			want = v.Ref
		}
	}
	vrt.Observe("picked", got)
	vrt.Assert("C17.select.picks-by-rule-with-id-tiebreak", err == nil && got == want)
}

type hSignPath struct{ path, escaped string }

var hSignPaths = []hSignPath{{"", "/"}, {"/hook/v1", "/hook/v1"}, {"/a b", "/a%20b"}, {"/x?y", "/x%3Fy"}, {"/", "/"}, {"/hook/ä", "/hook/%C3%A4"}}

// verif:harness props=C17,C07 tier=quick weight=70 tonly=C17
// verif:bounds body 2 symbolic bytes; URL path from 6 fixed paths (empty, "/", plain, space, '?', non-ASCII), each followed by a query string; clock from 2 fixed instants with sub-second parts (thorough 4); quick uses the first 4 paths; 2 secret versions with arbitrary windows; SHA-256 and HMAC as uninterpreted functions; (*http.Client).Do is a havoc stub
func VerifC17SignedDelivery() {
	instants := []time.Time{time.Unix(1, 0), time.Unix(1700000000, 0), time.Unix(1700000000, 999999999), time.Unix(4102444800, 5)}
	wantTSs := []string{"1", "1700000000", "1700000000", "4102444800"}
	npaths := len(hSignPaths)
	if !vrt.Thorough() {
		instants, wantTSs = instants[2:], wantTSs[2:]
		npaths = 4
	}
	ii := vrt.Choose("now", len(instants))
	now := instants[ii]
	wantTS := wantTSs[ii]
	body := vrt.BytesN("body", 2)
	pi := vrt.Choose("path", npaths)
	escaped := hSignPaths[pi].escaped
	rawURL := "https://t.example.com" + strings.ReplaceAll(strings.ReplaceAll(strings.ReplaceAll(hSignPaths[pi].path, " ", "%20"), "?", "%3F"), "ä", "%C3%A4") + "?q=1"
	cfg := &HMACSigningConfig{SignatureHeader: "X-Sig", TimestampHeader: "X-Ts"}
	keys := []string{"k0", "k1"}
	for i := 0; i < 2; i++ {
		v := HMACSigningSecretVersion{ID: []string{"a", "b"}[i], Ref: "raw:" + keys[i], ValidFrom: vrt.Time("from")}
		v.HasUntil = vrt.Bool("has-until")
		if v.HasUntil {
			v.ValidUntil = vrt.Time("until")
		}
		cfg.SecretVersions = append(cfg.SecretVersions, v)
	}
	d := NewHTTPDeliverer(&http.Client{}, EgressPolicy{})
	d.Now = func() time.Time { return now }
	res := d.Deliver(context.Background(), Delivery{URL: rawURL, Body: body, Header: http.Header{}, Sign: cfg})
	// which version must sign? (newest valid; ties by id)
	valid := [2]bool{}
	for i, v := range cfg.SecretVersions {
		valid[i] = !now.Before(v.ValidFrom) && (!v.HasUntil || now.Before(v.ValidUntil))
	}
	pick := -1
	switch {
	case valid[0] && valid[1]:
		pick = 0
		if cfg.SecretVersions[1].ValidFrom.After(cfg.SecretVersions[0].ValidFrom) {
			pick = 1
		}
	case valid[0]:
		pick = 0
	case valid[1]:
		pick = 1
	}
	sent := vrt.HTTPRequests()
	if pick < 0 {
		vrt.Assert("C17.sign.no-valid-version-sends-nothing", len(sent) == 0 && res.Err != nil)
		return
	}
	vrt.Assert("C17.sign.request-sent-once", len(sent) == 1)
	if len(sent) != 1 {
		return
	}
	req := sent[0]
	sum := vrt.SHA256(body)
	canonical := "POST\n" + escaped + "\n" + wantTS + "\n" + hex.EncodeToString(sum[:])
	mac := vrt.HMACSHA256([]byte(keys[pick]), []byte(canonical))
	vrt.Assert("C17.sign.timestamp-header-is-unix-seconds", req.Header.Get("X-Ts") == wantTS)
	vrt.Assert("C17.sign.signature-is-hmac-over-canonical-string-with-selected-secret", req.Header.Get("X-Sig") == hex.EncodeToString(mac[:]))
	sentBody, rerr := io.ReadAll(req.Body)
	okBody := rerr == nil && len(sentBody) == 2
	if okBody {
		okBody = sentBody[0] == body[0] && sentBody[1] == body[1]
	}
	vrt.Assert("C07.push.body-sent-is-the-signed-body", okBody)
}

// verif:harness props=C17 tier=quick weight=25
// verif:bounds one signed delivery under a clock that ADVANCES between readings (every reading later than the one before: +0 s, +1 ns across a second boundary, +2 s); 2 secret versions with arbitrary windows; fixed path and a 1-byte symbolic body; SHA-256 and HMAC as uninterpreted functions; (*http.Client).Do is a havoc stub
func VerifC17OneSigningInstant() {
	readings := [][]time.Time{
		{time.Unix(1700000000, 5), time.Unix(1700000000, 5), time.Unix(1700000000, 5)},
		{time.Unix(1700000000, 999999999), time.Unix(1700000001, 0), time.Unix(1700000001, 1)},
		{time.Unix(1700000000, 0), time.Unix(1700000002, 0), time.Unix(1700000004, 0)},
	}[vrt.Choose("clock", 3)]
	stamps := []string{"1700000000", "1700000001", "1700000002", "1700000004"}
	body := vrt.BytesN("body", 1)
	cfg := &HMACSigningConfig{SignatureHeader: "X-Sig", TimestampHeader: "X-Ts"}
	keys := []string{"k0", "k1"}
	for i := 0; i < 2; i++ {
		v := HMACSigningSecretVersion{ID: []string{"a", "b"}[i], Ref: "raw:" + keys[i], ValidFrom: vrt.Time("from")}
		v.HasUntil = vrt.Bool("has-until")
		if v.HasUntil {
			v.ValidUntil = vrt.Time("until")
		}
		cfg.SecretVersions = append(cfg.SecretVersions, v)
	}
	d := NewHTTPDeliverer(&http.Client{}, EgressPolicy{})
	calls := 0
	d.Now = func() time.Time {
		t := readings[len(readings)-1]
		if calls < len(readings) {
			t = readings[calls]
		}
		calls++
		return t
	}
	res := d.Deliver(context.Background(), Delivery{URL: "https://t.example.com/hook", Body: body, Header: http.Header{}, Sign: cfg})
	pickAt := func(now time.Time) int {
		valid := [2]bool{}
		for i, v := range cfg.SecretVersions {
			valid[i] = !now.Before(v.ValidFrom) && (!v.HasUntil || now.Before(v.ValidUntil))
		}
		switch {
		case valid[0] && valid[1]:
			if cfg.SecretVersions[1].ValidFrom.After(cfg.SecretVersions[0].ValidFrom) {
				return 1
			}
			return 0
		case valid[0]:
			return 0
		case valid[1]:
			return 1
		}
		return -1
	}
	sent := vrt.HTTPRequests()
	if len(sent) == 0 {
		// refusing is right only if at some instant the clock showed no version was valid
		none := false
		for _, t := range readings {
			none = none || pickAt(t) < 0
		}
		vrt.Assert("C17.instant.nothing-sent-only-when-no-version-is-valid", none && res.Err != nil)
		return
	}
	vrt.Cover("instant.sent")
	req := sent[0]
	ts, sig := req.Header.Get("X-Ts"), req.Header.Get("X-Sig")
	sum := vrt.SHA256(body)
	// the timestamp that is signed and the instant at which the version was valid are ONE clock reading
	consistent := false
	for _, t := range readings {
		want := ""
		for _, s := range stamps {
			if s == strconv.FormatInt(t.Unix(), 10) {
				want = s
			}
		}
		p := pickAt(t)
		if p < 0 || ts != want {
			continue
		}
		mac := vrt.HMACSHA256([]byte(keys[p]), []byte("POST\n/hook\n"+want+"\n"+hex.EncodeToString(sum[:])))
		if sig == hex.EncodeToString(mac[:]) {
			consistent = true
		}
	}
	vrt.Assert("C17.instant.signed-timestamp-and-version-validity-are-one-clock-reading", consistent)
}
