package sx

import (
	"strings"
	"fmt"
	"go/token"
	"go/types"
)

// strings.Builder model: struct{addr *Builder; buf []byte}; we use field 1 as []value.

func builderBuf(recv value) *value {
	s := (*recv.(*value)).(structure)
	return &s[1]
}

func init() {
	symExternals["(*strings.Builder).Grow"] = func(fr *frame, args []value) value { return nil }
	symExternals["(*strings.Builder).copyCheck"] = func(fr *frame, args []value) value { return nil }
	symExternals["(*strings.Builder).Len"] = func(fr *frame, args []value) value {
		b, _ := (*builderBuf(args[0])).([]value)
		return len(b)
	}
	symExternals["(*strings.Builder).Cap"] = func(fr *frame, args []value) value {
		b, _ := (*builderBuf(args[0])).([]value)
		return cap(b)
	}
	symExternals["(*strings.Builder).Reset"] = func(fr *frame, args []value) value {
		*builderBuf(args[0]) = []value(nil)
		return nil
	}
	symExternals["(*strings.Builder).String"] = func(fr *frame, args []value) value {
		b, _ := (*builderBuf(args[0])).([]value)
		return mkStr(append([]value{}, b...))
	}
	symExternals["(*strings.Builder).WriteByte"] = func(fr *frame, args []value) value {
		p := builderBuf(args[0])
		b, _ := (*p).([]value)
		*p = append(b, args[1])
		return iface{}
	}
	symExternals["(*strings.Builder).WriteString"] = func(fr *frame, args []value) value {
		p := builderBuf(args[0])
		b, _ := (*p).([]value)
		sb, _ := strBytes(args[1])
		*p = append(b, sb...)
		return tuple{len(sb), iface{}}
	}
	symExternals["(*strings.Builder).Write"] = func(fr *frame, args []value) value {
		p := builderBuf(args[0])
		b, _ := (*p).([]value)
		sb := args[1].([]value)
		*p = append(b, sb...)
		return tuple{len(sb), iface{}}
	}
	symExternals["(*strings.Builder).WriteRune"] = func(fr *frame, args []value) value {
		p := builderBuf(args[0])
		b, _ := (*p).([]value)
		switch r := args[1].(type) {
		case int32:
			bs := []byte(string(r))
			for _, c := range bs {
				b = append(b, c)
			}
			*p = b
			return tuple{len(bs), iface{}}
		case symv:
			bs := symRuneBytes(r)
			*p = append(b, bs...)
			return tuple{len(bs), iface{}}
		}
		panic("WriteRune: bad arg")
	}

	// sync.Once
	symExternals["(*sync.Once).Do"] = func(fr *frame, args []value) value {
		key := args[0].(*value)
		if fr.i.onceDone[key] {
			return nil
		}
		fr.i.onceDone[key] = true
		call(fr.i, fr, token.NoPos, args[1], nil)
		return nil
	}

	// sync/atomic primitives (sequential).
	for _, ty := range []string{"Int32", "Int64", "Uint32", "Uint64", "Uintptr"} {
		ty := ty
		aty := map[string]types.Type{"Int32": types.Typ[types.Int32], "Int64": types.Typ[types.Int64], "Uint32": types.Typ[types.Uint32], "Uint64": types.Typ[types.Uint64], "Uintptr": types.Typ[types.Uintptr]}[ty]
		symExternals["sync/atomic.Load"+ty] = func(fr *frame, args []value) value { return *args[0].(*value) }
		symExternals["sync/atomic.Store"+ty] = func(fr *frame, args []value) value {
			*args[0].(*value) = args[1]
			return nil
		}
		symExternals["sync/atomic.Add"+ty] = func(fr *frame, args []value) value {
			p := args[0].(*value)
			*p = binop(token.ADD, aty, *p, args[1])
			return *p
		}
		symExternals["sync/atomic.Swap"+ty] = func(fr *frame, args []value) value {
			p := args[0].(*value)
			old := *p
			*p = args[1]
			return old
		}
		symExternals["sync/atomic.CompareAndSwap"+ty] = func(fr *frame, args []value) value {
			p := args[0].(*value)
			c := binop(token.EQL, aty, *p, args[1])
			var eq bool
			switch c := c.(type) {
			case bool:
				eq = c
			case symv:
				eq = X.decide(c.t)
			}
			if eq {
				*p = args[2]
			}
			return eq
		}
	}
	symExternals["sync/atomic.LoadPointer"] = func(fr *frame, args []value) value { return *args[0].(*value) }
	symExternals["sync/atomic.StorePointer"] = func(fr *frame, args []value) value {
		*args[0].(*value) = args[1]
		return nil
	}

	// errors.As
	symExternals["errors.As"] = func(fr *frame, args []value) value {
		err := args[0].(iface)
		target := args[1].(iface)
		pt, ok := target.t.Underlying().(*types.Pointer)
		if !ok {
			panic("errors.As: target must be a pointer")
		}
		want := pt.Elem()
		for depth := 0; depth < 64 && err.t != nil; depth++ {
			if types.AssignableTo(err.t, want) {
				cell := target.v.(*value)
				if _, isIface := want.Underlying().(*types.Interface); isIface {
					*cell = err
				} else {
					*cell = err.v
				}
				return true
			}
			m := methodOf(fr.i, err.t, "Unwrap")
			if m == nil {
				return false
			}
			r := call(fr.i, fr, token.NoPos, m, []value{err.v})
			e, ok := r.(iface)
			if !ok {
				return false
			}
			err = e
		}
		return false
	}

	// JSON encoders writing responses: event stub.
	symExternals["(*encoding/json.Encoder).Encode"] = func(fr *frame, args []value) value {
		X.Events = append(X.Events, "json.Encode")
		X.jsonVals = append(X.jsonVals, args[1])
		return iface{}
	}
	symExternals[rtPkg+"JSONEncoded"] = func(fr *frame, args []value) value {
		return append([]value{}, X.jsonVals...)
	}
	symExternals["encoding/json.NewEncoder"] = func(fr *frame, args []value) value {
		return (*value)(nil)
	}
}

var _ = fmt.Sprint

func init() {
	symExternals["internal/stringslite.Clone"] = func(fr *frame, args []value) value { return args[0] }
	symExternals["strings.Clone"] = func(fr *frame, args []value) value { return args[0] }
}

// unique.Make[T]: structural interning.
type internEntry struct {
	t   string
	v   value
	ptr *value
}

func init() {
	symExternalPrefixes["unique.Make["] = func(fr *frame, args []value) value {
		key := fr.fn.String()
		for _, e := range fr.i.interned {
			if e.t == key && sameKeySlot(e.v, args[0]) {
				return structure{e.ptr}
			}
		}
		cell := args[0]
		fr.i.interned = append(fr.i.interned, internEntry{key, args[0], &cell})
		return structure{&cell}
	}
}

// queue.newHexID: fresh, collision-free identifiers.
func init() {
	symExternals["github.com/nuetzliches/hookaido/internal/queue.newHexID"] = func(fr *frame, args []value) value {
		fr.i.idSeq++
		p, _ := args[0].(string)
		return fmt.Sprintf("%sfresh%04d", p, fr.i.idSeq)
	}
	// crypto/rand.Read: random ids never collide — every 8-byte word drawn on a path is distinct
	// (concrete counter values; the same "fresh id" assumption as newHexID).
	symExternals["crypto/rand.Read"] = func(fr *frame, args []value) value {
		b := args[0].([]value)
		for i := range b {
			if i%8 == 0 {
				fr.i.idSeq++
			}
			w := uint64(0xf1e5000000000000) + uint64(fr.i.idSeq)
			b[i] = uint8(w >> (8 * uint(7-i%8)))
		}
		return tuple{len(b), iface{}}
	}
	// sort.Slice: insertion sort driven by the real less closure.
	symExternals["sort.Slice"] = func(fr *frame, args []value) value {
		sl := args[0].(iface).v.([]value)
		less := args[1]
		lt := func(i, j int) bool {
			r := call(fr.i, fr, token.NoPos, less, []value{i, j})
			switch r := r.(type) {
			case bool:
				return r
			case symv:
				return X.decide(r.t)
			}
			panic("sort.Slice: less returned non-bool")
		}
		for i := 1; i < len(sl); i++ {
			for j := i; j > 0 && lt(j, j-1); j-- {
				sl[j], sl[j-1] = sl[j-1], sl[j]
			}
		}
		return nil
	}
}

func init() {
	symExternals["time.Now"] = func(fr *frame, args []value) value {
		t := X.pinOr(X.fresh("time.Now", BV(64)))
		X.addPC(BVCmp("bvsge", t, BVConst(0, 64)), BVCmp("bvslt", t, BVConst(1<<62, 64)))
		if X.lastNow != nil {
			X.addPC(BVCmp("bvsge", t, X.lastNow))
		}
		X.lastNow = t
		return mkTime(uint64(1), mkScalar(t, types.Int64))
	}
}

func init() {
	symExternals["internal/bytealg.IndexString"] = func(fr *frame, args []value) value {
		a, ok1 := args[0].(string)
		b, ok2 := args[1].(string)
		if ok1 && ok2 {
			return strings.Index(a, b)
		}
		panic(abortPath{"unsupported: IndexString on symbolic strings"})
	}
	// metrics observers: empty bodies
	for _, n := range []string{"observeSQLiteTx", "observeSQLiteError", "incSQLiteRetry", "observeSQLiteCheckpoint"} {
		symExternals["(*github.com/nuetzliches/hookaido/internal/queue.SQLiteStore)."+n] = func(fr *frame, args []value) value { return nil }
	}
}

func init() {
	symExternalPrefixes["reflect.TypeFor["] = func(fr *frame, args []value) value { return iface{} }
}

func init() {
	symExternals["(*internal/godebug.Setting).Value"] = func(fr *frame, args []value) value { return "" }
	symExternals["(*internal/godebug.Setting).IncNonDefault"] = func(fr *frame, args []value) value { return nil }
	symExternals["internal/godebug.setUpdate"] = func(fr *frame, args []value) value { return nil }
	symExternals["internal/godebug.registerMetric"] = func(fr *frame, args []value) value { return nil }
}
