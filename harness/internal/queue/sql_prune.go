//go:build verif

package queue

import (
	"time"

	vrt "github.com/nuetzliches/hookaido/internal/verifrt"
)

// verif:harness props=C02 tier=quick weight=90
// verif:bounds SQLiteStore retention pruning over the SQL model: N=2 rows in any state with arbitrary timestamps; quick: exactly one rule active (queue retention / delivered retention / DLQ retention with an arbitrary positive age, or dlq max_depth 1); thorough: every combination, dlq max_depth in {0,1,2}, arbitrary positive prune interval, last prune never or arbitrary; pruning triggered through Dequeue for a route without messages (thorough: also through Enqueue of a new message)
func VerifC02SQLPrune() {
	n := 2
	w, _ := qNew(n, false)
	qAge, dAge, xAge := time.Duration(0), time.Duration(0), time.Duration(0)
	dlqDepth := 0
	if vrt.Thorough() {
		if vrt.Choose("retention", 2) == 1 {
			qAge = vrt.Duration("max_age")
			vrt.Assume(qAge > 0)
		}
		if vrt.Choose("delivered-retention", 2) == 1 {
			dAge = vrt.Duration("delivered_max_age")
			vrt.Assume(dAge > 0)
		}
		if vrt.Choose("dlq-retention", 2) == 1 {
			xAge = vrt.Duration("dlq_max_age")
			vrt.Assume(xAge > 0)
		}
		dlqDepth = vrt.Choose("dlq-max-depth", 3)
	} else {
		// quick: one rule at a time
		switch vrt.Choose("active-rule", 4) {
		case 0:
			qAge = vrt.Duration("max_age")
			vrt.Assume(qAge > 0)
		case 1:
			dAge = vrt.Duration("delivered_max_age")
			vrt.Assume(dAge > 0)
		case 2:
			xAge = vrt.Duration("dlq_max_age")
			vrt.Assume(xAge > 0)
		default:
			dlqDepth = 1
		}
	}
	w.s.retentionMaxAge, w.s.deliveredRetentionMaxAge, w.s.dlqRetentionMaxAge, w.s.dlqMaxDepth = qAge, dAge, xAge, dlqDepth
	w.s.pruneInterval = vrt.Duration("interval")
	vrt.Assume(w.s.pruneInterval > 0)
	due := true
	if vrt.Choose("last-prune", 2) == 1 {
		w.s.lastPrune = vrt.Time("lastPrune")
		vrt.Assume(!w.s.lastPrune.After(w.now))
		due = w.now.Sub(w.s.lastPrune) >= w.s.pruneInterval
	}
	w.s.lastLeaseSweepNanos = w.now.UnixNano() // (the expired-lease sweep is not the subject here: throttled)
	pre := w.snap()
	var err error
	trigger := 0
	if vrt.Thorough() {
		trigger = vrt.Choose("trigger", 2)
	}
	if trigger == 0 {
		_, err = w.s.Dequeue(DequeueRequest{Route: "no-such-route", Batch: 1})
	} else {
		err = w.s.Enqueue(Envelope{ID: "fresh", Route: "rN", Target: "t0", Payload: []byte("p")})
	}
	post := w.snap()
	vrt.Assert("C02.sql.prune.noerr", err == nil)
	deadPre, deadPost := 0, 0
	for i := 0; i < n; i++ {
		if pre[i].state == StateDead {
			deadPre++
		}
		if post[i].present && post[i].state == StateDead {
			deadPost++
		}
	}
	for i := 0; i < n; i++ {
		if post[i].present {
			vrt.Assert("C02.sql.prune.survivor-untouched", sameRow(pre[i], post[i]))
			continue
		}
		vrt.Cover("sqlprune.removed-something")
		cut := func(age time.Duration, ts time.Time) bool { return age > 0 && !ts.After(w.now.Add(-age)) }
		eligible := false
		switch pre[i].state {
		case StateQueued:
			eligible = cut(qAge, pre[i].receivedAt)
		case StateDelivered:
			// the age of a delivered message counts from its delivery (next_run_at is set by the ack)
			eligible = cut(dAge, pre[i].nextRunAt)
		case StateDead:
			byAge := cut(xAge, pre[i].receivedAt)
			byDepth := false
			if dlqDepth > 0 && deadPre > dlqDepth {
				byDepth = true
				for j := 0; j < n; j++ {
					if j != i && post[j].present && post[j].state == StateDead && post[j].receivedAt.Before(pre[i].receivedAt) {
						byDepth = false
					}
				}
			}
			eligible = byAge || byDepth
		}
		vrt.Assert("C02.sql.prune.removed-only-if-eligible", eligible)
		vrt.Assert("C02.sql.prune.never-leased-or-canceled", pre[i].state != StateLeased && pre[i].state != StateCanceled)
	}
	if dlqDepth > 0 && xAge == 0 {
		want := deadPre
		if want > dlqDepth {
			want = dlqDepth
		}
		vrt.Assert("C02.sql.prune.dlq-depth-keeps-newest", deadPost >= want)
	}
	// completeness: when a prune pass is due, everything eligible by AGE is gone afterwards
	if due {
		vrt.Cover("sqlprune.pass-ran")
		for i := 0; i < n; i++ {
			cut := func(age time.Duration, ts time.Time) bool { return age > 0 && !ts.After(w.now.Add(-age)) }
			must := (pre[i].state == StateQueued && cut(qAge, pre[i].receivedAt)) || (pre[i].state == StateDelivered && cut(dAge, pre[i].nextRunAt)) || (pre[i].state == StateDead && cut(xAge, pre[i].receivedAt))
			if must {
				vrt.Assert("C02.sql.prune.a-pass-removes-everything-eligible-by-age", !post[i].present)
			}
		}
	}
	vrt.Assert("C02.sql.inv.prune", qInv(w))
}
