// Package verifsql is a small relational model of the SQL subset used by hookaido's SQLiteStore.
// It is ordinary Go: executed natively for differential validation against the real SQLite,
// and executed symbolically by the engine (rows then carry symbolic values).
package verifsql

import (
	"database/sql"
	"errors"
	"strings"
)

// Val is an SQL value: NULL, integer, or text/blob.
type Val struct {
	Null  bool
	IsInt bool
	I     int64
	S     string
}

func Int(i int64) Val   { return Val{IsInt: true, I: i} }
func Text(s string) Val { return Val{S: s} }

var NullVal = Val{Null: true}

// Table queue_items, columns in schema order.
var Columns = []string{"id", "route", "target", "state", "received_at", "attempt", "next_run_at", "payload",
	"headers_json", "trace_json", "schema_version", "lease_id", "lease_until", "dead_reason"}

type Row struct{ V []Val }

type DB struct {
	Rows     []*Row
	snapshot []*Row
	inTx     bool
	seq      int // randomblob() counter
}

// ErrConstraint is what a UNIQUE/PRIMARY KEY violation returns (the real driver returns a *sqlite.Error with code 19).
var ErrConstraint = errors.New("verifsql: UNIQUE constraint failed: queue_items.id")

// rel is a materialised relation (CTE, subquery or statement result).
type rel struct {
	cols []string
	rows [][]Val
}

var counterColumns = []string{"id", "queued", "leased"}

// Current is the database behind the stubbed *sql.DB of the harness.
var Current *DB

func colIndex(name string) int {
	for i, c := range Columns {
		if c == name {
			return i
		}
	}
	return -1
}

func (r *Row) clone() *Row { return &Row{V: append([]Val(nil), r.V...)} }

// ---------------------------------------------------------------- lexer

type tok struct {
	k string // "id", "num", "str", "?", "p" (punct), "eof"
	s string
}

func lex(q string) []tok {
	var out []tok
	i := 0
	for i < len(q) {
		c := q[i]
		switch {
		case c == ' ' || c == '\n' || c == '\t' || c == '\r':
			i++
		case c == '?':
			out = append(out, tok{"?", "?"})
			i++
		case c == '\'':
			j := i + 1
			for j < len(q) && q[j] != '\'' {
				j++
			}
			out = append(out, tok{"str", q[i+1 : j]})
			i = j + 1
		case c >= '0' && c <= '9':
			j := i
			for j < len(q) && q[j] >= '0' && q[j] <= '9' {
				j++
			}
			out = append(out, tok{"num", q[i:j]})
			i = j
		case c == '_' || (c >= 'a' && c <= 'z') || (c >= 'A' && c <= 'Z'):
			j := i
			for j < len(q) && (q[j] == '_' || (q[j] >= 'a' && q[j] <= 'z') || (q[j] >= 'A' && q[j] <= 'Z') || (q[j] >= '0' && q[j] <= '9')) {
				j++
			}
			out = append(out, tok{"id", strings.ToLower(q[i:j])})
			i = j
		default:
			if i+1 < len(q) {
				two := q[i : i+2]
				if two == "<=" || two == ">=" || two == "<>" || two == "!=" || two == "||" {
					out = append(out, tok{"p", two})
					i += 2
					continue
				}
			}
			out = append(out, tok{"p", string(c)})
			i++
		}
	}
	return append(out, tok{"eof", ""})
}

// ---------------------------------------------------------------- expressions

type expr struct {
	op   string // "col", "param", "int", "str", "null", "const", "fresh", "and", "or", "not", cmp ops, "isnull", "notnull", "+", "-", "||", "in"
	name string
	v    Val
	n    int64
	idx  int
	a, b *expr
	list []*expr
}

type parser struct {
	t      []tok
	i      int
	params int
	err    error
	db     *DB
	vals   []Val
	cols   []string // columns of the relation the expression under parse ranges over
	ctes   map[string]*rel
}

func (p *parser) col(name string) int {
	for i, c := range p.cols {
		if c == name {
			return i
		}
	}
	return -1
}

func (p *parser) peek() tok { return p.t[p.i] }
func (p *parser) next() tok { t := p.t[p.i]; p.i++; return t }
func (p *parser) kw(s string) bool {
	if p.peek().k == "id" && p.peek().s == s {
		p.i++
		return true
	}
	return false
}
func (p *parser) punct(s string) bool {
	if p.peek().k == "p" && p.peek().s == s {
		p.i++
		return true
	}
	return false
}
func (p *parser) fail(msg string) {
	if p.err == nil {
		p.err = errors.New("verifsql: " + msg + " near " + p.peek().s)
	}
}

func (p *parser) parseOr() *expr {
	e := p.parseAnd()
	for p.kw("or") {
		e = &expr{op: "or", a: e, b: p.parseAnd()}
	}
	return e
}
func (p *parser) parseAnd() *expr {
	e := p.parseNot()
	for p.kw("and") {
		e = &expr{op: "and", a: e, b: p.parseNot()}
	}
	return e
}
func (p *parser) parseNot() *expr {
	if p.kw("not") {
		return &expr{op: "not", a: p.parseNot()}
	}
	return p.parseCmp()
}
func (p *parser) parseCmp() *expr {
	e := p.parseAdd()
	for {
		switch {
		case p.kw("is"):
			if p.kw("not") {
				if !p.kw("null") {
					p.fail("expected NULL")
				}
				e = &expr{op: "notnull", a: e}
			} else {
				if !p.kw("null") {
					p.fail("expected NULL")
				}
				e = &expr{op: "isnull", a: e}
			}
		case p.kw("in"):
			if !p.punct("(") {
				p.fail("expected (")
			}
			in := &expr{op: "in", a: e}
			if p.peek().k == "id" && p.peek().s == "select" {
				// uncorrelated list subquery, evaluated now (before the statement changes anything)
				sub := p.parseSelect()
				for _, r := range sub.rows {
					in.list = append(in.list, &expr{op: "const", v: r[0]})
				}
				if !p.punct(")") {
					p.fail("expected )")
				}
				e = in
				continue
			}
			for {
				in.list = append(in.list, p.parseAdd())
				if !p.punct(",") {
					break
				}
			}
			if !p.punct(")") {
				p.fail("expected )")
			}
			e = in
		case p.peek().k == "p" && (p.peek().s == "=" || p.peek().s == "<" || p.peek().s == "<=" || p.peek().s == ">" || p.peek().s == ">=" || p.peek().s == "<>" || p.peek().s == "!="):
			op := p.next().s
			e = &expr{op: op, a: e, b: p.parseAdd()}
		default:
			return e
		}
	}
}
func (p *parser) parseAdd() *expr {
	e := p.parsePrimary()
	for p.peek().k == "p" && (p.peek().s == "+" || p.peek().s == "-" || p.peek().s == "||") {
		op := p.next().s
		e = &expr{op: op, a: e, b: p.parsePrimary()}
	}
	return e
}
func (p *parser) parsePrimary() *expr {
	t := p.next()
	switch t.k {
	case "?":
		e := &expr{op: "param", idx: p.params}
		p.params++
		return e
	case "num":
		var n int64
		for _, c := range t.s {
			n = n*10 + int64(c-'0')
		}
		return &expr{op: "int", n: n}
	case "str":
		return &expr{op: "str", name: t.s}
	case "id":
		if t.s == "null" {
			return &expr{op: "null"}
		}
		if t.s == "case" {
			// CASE WHEN c THEN a ELSE b END (one arm, as the store writes it)
			if !p.kw("when") {
				p.fail("only CASE WHEN is modelled")
				return &expr{op: "null"}
			}
			c := p.parseOr()
			if !p.kw("then") {
				p.fail("expected THEN")
			}
			a := p.parseAdd()
			var b *expr = &expr{op: "null"}
			if p.kw("else") {
				b = p.parseAdd()
			}
			if !p.kw("end") {
				p.fail("expected END")
			}
			return &expr{op: "case", a: a, b: b, list: []*expr{c}}
		}
		if p.punct("(") {
			// functions: lower/hex are the identity on the model's opaque tokens; randomblob yields a fresh token per evaluation
			arg := p.parseAdd()
			if !p.punct(")") {
				p.fail("expected )")
			}
			switch t.s {
			case "lower", "hex":
				return arg
			case "randomblob":
				return &expr{op: "fresh"}
			}
			p.fail("unknown function " + t.s)
			return &expr{op: "null"}
		}
		if p.col(t.s) < 0 {
			p.fail("unknown column " + t.s)
			return &expr{op: "null"}
		}
		return &expr{op: "col", name: t.s, idx: p.col(t.s)}
	case "p":
		if t.s == "-" && p.peek().k == "num" {
			e := p.parsePrimary()
			e.n = -e.n
			return e
		}
		if t.s == "(" {
			if p.peek().k == "id" && p.peek().s == "select" {
				// uncorrelated scalar subquery, evaluated now: first column of the first row, or NULL
				sub := p.parseSelect()
				if !p.punct(")") {
					p.fail("expected )")
				}
				if len(sub.rows) == 0 {
					return &expr{op: "null"}
				}
				return &expr{op: "const", v: sub.rows[0][0]}
			}
			e := p.parseOr()
			if !p.punct(")") {
				p.fail("expected )")
			}
			return e
		}
	}
	p.fail("unexpected token")
	return &expr{op: "null"}
}

func itoa(n int) string {
	if n == 0 {
		return "0"
	}
	s := ""
	for n > 0 {
		s = string(rune('0'+n%10)) + s
		n /= 10
	}
	return s
}

func truth(v Val) bool { return !v.Null && v.IsInt && v.I != 0 }
func boolVal(b bool) Val {
	if b {
		return Int(1)
	}
	return Int(0)
}

func cmp(op string, a, b Val) Val {
	if a.Null || b.Null {
		return NullVal
	}
	var lt, eq bool
	if a.IsInt && b.IsInt {
		lt, eq = a.I < b.I, a.I == b.I
	} else if !a.IsInt && !b.IsInt {
		lt, eq = a.S < b.S, a.S == b.S
	} else {
		// SQLite orders integers before text
		lt, eq = a.IsInt, false
	}
	switch op {
	case "=":
		return boolVal(eq)
	case "<>", "!=":
		return boolVal(!eq)
	case "<":
		return boolVal(lt)
	case "<=":
		return boolVal(lt || eq)
	case ">":
		return boolVal(!lt && !eq)
	case ">=":
		return boolVal(!lt)
	}
	return NullVal
}

func (e *expr) eval(r []Val, args []Val) Val {
	switch e.op {
	case "col":
		return r[e.idx]
	case "const":
		return e.v
	case "fresh":
		Current.seq++
		return Text("rb" + itoa(Current.seq))
	case "||":
		a, b := e.a.eval(r, args), e.b.eval(r, args)
		if a.Null || b.Null {
			return NullVal
		}
		return Text(a.S + b.S)
	case "param":
		return args[e.idx]
	case "int":
		return Int(e.n)
	case "str":
		return Text(e.name)
	case "null":
		return NullVal
	case "and":
		a, b := e.a.eval(r, args), e.b.eval(r, args)
		if (!a.Null && !truth(a)) || (!b.Null && !truth(b)) {
			return Int(0)
		}
		if a.Null || b.Null {
			return NullVal
		}
		return Int(1)
	case "or":
		a, b := e.a.eval(r, args), e.b.eval(r, args)
		if truth(a) || truth(b) {
			return Int(1)
		}
		if a.Null || b.Null {
			return NullVal
		}
		return Int(0)
	case "not":
		a := e.a.eval(r, args)
		if a.Null {
			return NullVal
		}
		return boolVal(!truth(a))
	case "case":
		if truth(e.list[0].eval(r, args)) {
			return e.a.eval(r, args)
		}
		return e.b.eval(r, args)
	case "isnull":
		return boolVal(e.a.eval(r, args).Null)
	case "notnull":
		return boolVal(!e.a.eval(r, args).Null)
	case "in":
		a := e.a.eval(r, args)
		if a.Null {
			return NullVal
		}
		for _, x := range e.list {
			if truth(cmp("=", a, x.eval(r, args))) {
				return Int(1)
			}
		}
		return Int(0)
	case "+", "-":
		a, b := e.a.eval(r, args), e.b.eval(r, args)
		if a.Null || b.Null {
			return NullVal
		}
		if e.op == "+" {
			return Int(a.I + b.I)
		}
		return Int(a.I - b.I)
	default:
		return cmp(e.op, e.a.eval(r, args), e.b.eval(r, args))
	}
}

// ---------------------------------------------------------------- statements

func toVals(args []any) ([]Val, error) {
	out := make([]Val, len(args))
	for i, a := range args {
		switch x := a.(type) {
		case nil:
			out[i] = NullVal
		case string:
			out[i] = Text(x)
		case int:
			out[i] = Int(int64(x))
		case int64:
			out[i] = Int(x)
		case []byte:
			out[i] = Text(string(x))
		default:
			return nil, errors.New("verifsql: unsupported argument type")
		}
	}
	return out, nil
}

// source returns the rows of a named relation. Rows of queue_items are the live rows (updates write through).
func (p *parser) source(name string) ([]string, [][]Val, bool) {
	if r, ok := p.ctes[name]; ok {
		return r.cols, r.rows, true
	}
	switch name {
	case "queue_items":
		rows := make([][]Val, len(p.db.Rows))
		for i, r := range p.db.Rows {
			rows[i] = r.V
		}
		return Columns, rows, true
	case "queue_counters":
		// the single counter row the schema's triggers maintain: queued / leased = number of rows in that state
		q, l := int64(0), int64(0)
		st := colIndex("state")
		for _, r := range p.db.Rows {
			if r.V[st].S == "queued" {
				q++
			}
			if r.V[st].S == "leased" {
				l++
			}
		}
		return counterColumns, [][]Val{{Int(1), Int(q), Int(l)}}, true
	}
	return nil, nil, false
}

// intOperand: a LIMIT/OFFSET operand (number, -1, or parameter).
func (p *parser) intOperand() int64 {
	v := p.parsePrimary().eval(nil, p.vals)
	return v.I
}

// parseSelect parses AND evaluates
//
//	SELECT item {, item} FROM rel [WHERE e] [GROUP BY col {, col}] [ORDER BY key [ASC|DESC] {, ...}] [LIMIT n [OFFSET m]]
//
// with item = expression over the relation's columns (incl. CASE WHEN c THEN a ELSE b END) | COUNT(*) | MIN(expr)
// and key = column | COUNT(*). The leading SELECT keyword is consumed here.
func (p *parser) parseSelect() *rel {
	out := &rel{}
	if !p.kw("select") {
		p.fail("expected SELECT")
		return out
	}
	type item struct {
		name string
		agg  string // "", "count", "min"
		e    *expr
	}
	// the select items range over the relation named after FROM: find it first, then come back
	i0 := p.i
	depth, iFrom := 0, -1
	for j := p.i; j < len(p.t) && p.t[j].k != "eof"; j++ {
		if p.t[j].k == "p" && p.t[j].s == "(" {
			depth++
		}
		if p.t[j].k == "p" && p.t[j].s == ")" {
			depth--
			if depth < 0 {
				break
			}
		}
		if depth == 0 && p.t[j].k == "id" && p.t[j].s == "from" {
			iFrom = j
			break
		}
	}
	if iFrom < 0 {
		p.fail("expected FROM")
		return out
	}
	cols, rows, ok := p.source(p.t[iFrom+1].s)
	if !ok {
		p.i = iFrom + 1
		p.fail("unknown relation")
		return out
	}
	saved := p.cols
	p.cols = cols
	defer func() { p.cols = saved }()
	p.i = i0
	var items []item
	aggregated := false
	for {
		c := p.peek()
		if c.k == "id" && (c.s == "count" || c.s == "min") && p.t[p.i+1].k == "p" && p.t[p.i+1].s == "(" {
			p.i += 2
			if c.s == "count" {
				if !p.punct("*") || !p.punct(")") {
					p.fail("only COUNT(*) is modelled")
					return out
				}
				items = append(items, item{name: "count", agg: "count"})
			} else {
				e := p.parseAdd()
				if !p.punct(")") {
					p.fail("expected ) after MIN")
					return out
				}
				items = append(items, item{name: "min", agg: "min", e: e})
			}
			aggregated = true
		} else {
			e := p.parseAdd()
			name := "expr"
			if e.op == "col" {
				name = e.name
			}
			items = append(items, item{name: name, e: e})
		}
		if p.err != nil {
			return out
		}
		if !p.punct(",") {
			break
		}
	}
	if !p.kw("from") {
		p.fail("expected FROM")
		return out
	}
	p.next() // relation name (resolved above)
	var where *expr
	if p.kw("where") {
		where = p.parseOr()
	}
	var groupBy []int
	if p.kw("group") {
		if !p.kw("by") {
			p.fail("expected BY")
		}
		for {
			c := p.next()
			if c.k != "id" || p.col(c.s) < 0 {
				p.fail("bad GROUP BY column")
				return out
			}
			groupBy = append(groupBy, p.col(c.s))
			if !p.punct(",") {
				break
			}
		}
		aggregated = true
	}
	type key struct {
		idx   int
		count bool
		desc  bool
	}
	var keys []key
	if p.kw("order") {
		if !p.kw("by") {
			p.fail("expected BY")
		}
		for {
			c := p.next()
			k := key{}
			if c.k == "id" && c.s == "count" && p.punct("(") {
				if !p.punct("*") || !p.punct(")") {
					p.fail("only COUNT(*) is modelled")
					return out
				}
				k.count = true
			} else if c.k != "id" || p.col(c.s) < 0 {
				p.fail("bad ORDER BY column")
				return out
			} else {
				k.idx = p.col(c.s)
			}
			if p.kw("desc") {
				k.desc = true
			} else {
				p.kw("asc")
			}
			keys = append(keys, k)
			if !p.punct(",") {
				break
			}
		}
	}
	limit, offset := int64(-1), int64(0)
	if p.kw("limit") {
		limit = p.intOperand()
		if p.kw("offset") {
			offset = p.intOperand()
		}
	}
	if p.err != nil {
		return out
	}
	var sel [][]Val
	for _, r := range rows {
		if where == nil || truth(where.eval(r, p.vals)) {
			sel = append(sel, r)
		}
	}
	for _, it := range items {
		out.cols = append(out.cols, it.name)
	}
	if aggregated {
		// groups in ascending order of their key (what SQLite's sorter produces when no ORDER BY follows); without
		// GROUP BY the whole selection is one group, present even when it is empty
		type group struct {
			rows [][]Val
		}
		var groups []*group
		if len(groupBy) == 0 {
			groups = []*group{{rows: sel}}
		}
		keyLess := func(a, b []Val) bool {
			for _, c := range groupBy {
				if truth(cmp("<", a[c], b[c])) {
					return true
				}
				if truth(cmp("<", b[c], a[c])) {
					return false
				}
			}
			return false
		}
		if len(groupBy) > 0 {
			for _, r := range sel {
				var g *group
				for _, x := range groups {
					if !keyLess(x.rows[0], r) && !keyLess(r, x.rows[0]) {
						g = x
					}
				}
				if g == nil {
					g = &group{}
					groups = append(groups, g)
				}
				g.rows = append(g.rows, r)
			}
			for i := 1; i < len(groups); i++ {
				for j := i; j > 0 && keyLess(groups[j].rows[0], groups[j-1].rows[0]); j-- {
					groups[j], groups[j-1] = groups[j-1], groups[j]
				}
			}
		}
		if len(keys) > 0 {
			kval := func(g *group, k key) Val {
				if k.count {
					return Int(int64(len(g.rows)))
				}
				if len(g.rows) == 0 {
					return NullVal
				}
				return g.rows[0][k.idx]
			}
			less := func(a, b *group) bool {
				for _, k := range keys {
					x, y := kval(a, k), kval(b, k)
					if k.desc {
						x, y = y, x
					}
					if truth(cmp("<", x, y)) {
						return true
					}
					if truth(cmp("<", y, x)) {
						return false
					}
				}
				return false
			}
			for i := 1; i < len(groups); i++ {
				for j := i; j > 0 && less(groups[j], groups[j-1]); j-- {
					groups[j], groups[j-1] = groups[j-1], groups[j]
				}
			}
		}
		for n, g := range groups {
			if int64(n) < offset {
				continue
			}
			if limit >= 0 && int64(len(out.rows)) >= limit {
				break
			}
			row := make([]Val, len(items))
			for i, it := range items {
				switch it.agg {
				case "count":
					row[i] = Int(int64(len(g.rows)))
				case "min":
					m := NullVal
					for _, r := range g.rows {
						v := it.e.eval(r, p.vals)
						if v.Null {
							continue
						}
						if m.Null || truth(cmp("<", v, m)) {
							m = v
						}
					}
					row[i] = m
				default:
					if len(g.rows) == 0 {
						row[i] = NullVal
					} else {
						row[i] = it.e.eval(g.rows[0], p.vals)
					}
				}
			}
			out.rows = append(out.rows, row)
		}
		return out
	}
	// insertion sort; rows that tie on every key come out in table (rowid) order for an ascending first key and in
	// reverse table order for a descending one — what SQLite's forward/backward index scans produce for these
	// queries (SQL itself leaves the order of ties open; the native differential validation pins this choice)
	if len(keys) > 0 {
		if keys[0].desc {
			for i, j := 0, len(sel)-1; i < j; i, j = i+1, j-1 {
				sel[i], sel[j] = sel[j], sel[i]
			}
		}
		less := func(a, b []Val) bool {
			for _, k := range keys {
				if k.count {
					continue
				}
				x, y := a[k.idx], b[k.idx]
				if k.desc {
					x, y = y, x
				}
				if truth(cmp("<", x, y)) {
					return true
				}
				if truth(cmp("<", y, x)) {
					return false
				}
			}
			return false
		}
		for i := 1; i < len(sel); i++ {
			for j := i; j > 0 && less(sel[j], sel[j-1]); j-- {
				sel[j], sel[j-1] = sel[j-1], sel[j]
			}
		}
	}
	for n, r := range sel {
		if int64(n) < offset {
			continue
		}
		if limit >= 0 && int64(len(out.rows)) >= limit {
			break
		}
		row := make([]Val, len(items))
		for i, it := range items {
			row[i] = it.e.eval(r, p.vals)
		}
		out.rows = append(out.rows, row)
	}
	return out
}

func (p *parser) returning() ([]int, []string, bool) {
	if !p.kw("returning") {
		return nil, nil, false
	}
	var idx []int
	var names []string
	for {
		c := p.next()
		if c.k != "id" || colIndex(c.s) < 0 {
			p.fail("bad RETURNING column")
			return nil, nil, true
		}
		idx = append(idx, colIndex(c.s))
		names = append(names, c.s)
		if !p.punct(",") {
			break
		}
	}
	return idx, names, true
}

func (p *parser) end(what string) error {
	p.punct(";")
	if p.err != nil {
		return p.err
	}
	if p.peek().k != "eof" {
		return errors.New("verifsql: unsupported " + what + " tail near " + p.peek().s)
	}
	return nil
}

// Run executes one statement: result rows (SELECT, RETURNING), their arity, and the number of affected rows.
func Run(query string, args []any) (rows [][]Val, ncols int, affected int64, err error) {
	db := Current
	vals, err := toVals(args)
	if err != nil {
		return nil, 0, 0, err
	}
	p := &parser{t: lex(query), db: db, vals: vals, ctes: map[string]*rel{}, cols: Columns}
	for p.kw("with") {
		for {
			name := p.next()
			if name.k != "id" || !p.kw("as") || !p.punct("(") {
				return nil, 0, 0, errors.New("verifsql: unsupported WITH")
			}
			r := p.parseSelect()
			if !p.punct(")") {
				p.fail("expected ) after CTE")
			}
			if p.err != nil {
				return nil, 0, 0, p.err
			}
			p.ctes[name.s] = r
			if !p.punct(",") {
				break
			}
		}
	}
	switch {
	case p.kw("begin"):
		db.snapshot = nil
		for _, r := range db.Rows {
			db.snapshot = append(db.snapshot, r.clone())
		}
		db.inTx = true
		return nil, 0, 0, nil
	case p.kw("commit"):
		db.inTx, db.snapshot = false, nil
		return nil, 0, 0, nil
	case p.kw("rollback"):
		if db.inTx {
			db.Rows, db.snapshot, db.inTx = db.snapshot, nil, false
		}
		return nil, 0, 0, nil
	case p.peek().k == "id" && p.peek().s == "select":
		r := p.parseSelect()
		if err := p.end("SELECT"); err != nil {
			return nil, 0, 0, err
		}
		return r.rows, len(r.cols), 0, nil
	case p.kw("update"):
		if !p.kw("queue_items") || !p.kw("set") {
			return nil, 0, 0, errors.New("verifsql: unsupported UPDATE")
		}
		type asg struct {
			col int
			e   *expr
		}
		var sets []asg
		for {
			c := p.next()
			if c.k != "id" || colIndex(c.s) < 0 || !p.punct("=") {
				return nil, 0, 0, errors.New("verifsql: bad SET")
			}
			sets = append(sets, asg{colIndex(c.s), p.parseAdd()})
			if !p.punct(",") {
				break
			}
		}
		var where *expr
		if p.kw("where") {
			where = p.parseOr()
		}
		ret, names, _ := p.returning()
		if err := p.end("UPDATE"); err != nil {
			return nil, 0, 0, err
		}
		n := int64(0)
		for _, r := range db.Rows {
			if where != nil && !truth(where.eval(r.V, vals)) {
				continue
			}
			nv := make([]Val, len(sets))
			for i, s := range sets {
				nv[i] = s.e.eval(r.V, vals) // all right-hand sides see the old row
			}
			for i, s := range sets {
				r.V[s.col] = nv[i]
			}
			n++
			if ret != nil {
				row := make([]Val, len(ret))
				for i, c := range ret {
					row[i] = r.V[c]
				}
				rows = append(rows, row)
			}
		}
		return rows, len(names), n, nil
	case p.kw("delete"):
		if !p.kw("from") || !p.kw("queue_items") {
			return nil, 0, 0, errors.New("verifsql: unsupported DELETE")
		}
		var where *expr
		if p.kw("where") {
			where = p.parseOr()
		}
		if err := p.end("DELETE"); err != nil {
			return nil, 0, 0, err
		}
		var keep []*Row
		n := int64(0)
		for _, r := range db.Rows {
			if where == nil || truth(where.eval(r.V, vals)) {
				n++
				continue
			}
			keep = append(keep, r)
		}
		db.Rows = keep
		return nil, 0, n, nil
	case p.kw("insert"):
		if !p.kw("into") || !p.kw("queue_items") || !p.punct("(") {
			return nil, 0, 0, errors.New("verifsql: unsupported INSERT")
		}
		var cols []int
		for {
			c := p.next()
			if c.k != "id" || colIndex(c.s) < 0 {
				return nil, 0, 0, errors.New("verifsql: bad INSERT column")
			}
			cols = append(cols, colIndex(c.s))
			if !p.punct(",") {
				break
			}
		}
		if !p.punct(")") || !p.kw("values") || !p.punct("(") {
			return nil, 0, 0, errors.New("verifsql: unsupported INSERT")
		}
		row := &Row{V: make([]Val, len(Columns))}
		for i := range row.V {
			row.V[i] = NullVal
		}
		for i := 0; ; i++ {
			e := p.parseAdd()
			if i >= len(cols) {
				return nil, 0, 0, errors.New("verifsql: more values than columns")
			}
			row.V[cols[i]] = e.eval(row.V, vals)
			if !p.punct(",") {
				if i != len(cols)-1 {
					return nil, 0, 0, errors.New("verifsql: fewer values than columns")
				}
				break
			}
		}
		if !p.punct(")") {
			p.fail("expected )")
		}
		if err := p.end("INSERT"); err != nil {
			return nil, 0, 0, err
		}
		id := colIndex("id")
		for _, r := range db.Rows {
			if r.V[id].S == row.V[id].S {
				return nil, 0, 0, ErrConstraint
			}
		}
		db.Rows = append(db.Rows, row)
		return nil, 0, 1, nil
	}
	return nil, 0, 0, errors.New("verifsql: unsupported statement")
}

// Exec runs a data-modifying statement and returns the number of affected rows.
func Exec(query string, args []any) (int64, error) {
	_, _, n, err := Run(query, args)
	return n, err
}

// QueryRow returns the first result row of a SELECT or ... RETURNING statement.
func QueryRow(query string, args []any) ([]Val, bool, error) {
	rows, _, _, err := Run(query, args)
	if err != nil || len(rows) == 0 {
		return nil, false, err
	}
	return rows[0], true, nil
}

// Query returns every result row.
func Query(query string, args []any) ([][]Val, error) {
	rows, _, _, err := Run(query, args)
	return rows, err
}

// ScanInto assigns SQL values to database/sql scan destinations.
func ScanInto(dest []any, vals []Val) error {
	if len(dest) != len(vals) {
		return errors.New("verifsql: scan arity")
	}
	for i, d := range dest {
		v := vals[i]
		switch d := d.(type) {
		case *string:
			if v.Null {
				return errors.New("verifsql: NULL into *string")
			}
			*d = v.S
		case *[]byte:
			if v.Null {
				*d = nil
			} else {
				*d = []byte(v.S)
			}
		case *int:
			if v.Null {
				return errors.New("verifsql: NULL into *int")
			}
			*d = int(v.I)
		case *int64:
			if v.Null {
				return errors.New("verifsql: NULL into *int64")
			}
			*d = v.I
		case *sql.NullInt64:
			d.Int64, d.Valid = v.I, !v.Null
		case *sql.NullString:
			d.String, d.Valid = v.S, !v.Null
		default:
			return errors.New("verifsql: unsupported scan destination")
		}
	}
	return nil
}

// InTx reports whether a transaction is open (BEGIN without COMMIT/ROLLBACK).
func (db *DB) InTx() bool { return db.inTx }
