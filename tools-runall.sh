#!/bin/sh
# runs the quick (or $1) tier of every claimed check, prints one line each
tier=${1:-quick}
for p in $(python3 -c "import json;print(' '.join(c['property_id'] for c in json.load(open('/verif/MANIFEST.json'))['checks']))"); do
  s=$(date +%s)
  out=$(cd /verif && timeout 3600 ./bin/gosym check $p -tier $tier 2>&1)
  rc=$?
  e=$(date +%s)
  echo "$p rc=$rc $((e-s))s $(echo "$out" | tail -1)"
  if [ $rc -ne 0 ]; then echo "$out" | egrep "VIOLATION|INCONCLUSIVE|KNOWN" | cut -c1-300 | head -6; fi
done
