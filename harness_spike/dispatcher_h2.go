//go:build verif

package dispatcher

import (
	"net"

	vrt "github.com/nuetzliches/hookaido/internal/verifrt"
)

func refPublicV4(a, b, c, d byte) bool {
	switch {
	case a == 127: // loopback
		return false
	case a == 10, a == 172 && b&0xf0 == 16, a == 192 && b == 168: // private
		return false
	case a == 169 && b == 254: // link-local
		return false
	case a >= 224 && a <= 239: // multicast
		return false
	case a == 0 && b == 0 && c == 0 && d == 0: // unspecified
		return false
	case a == 255 && b == 255 && c == 255 && d == 255: // broadcast
		return false
	}
	return true
}

// VerifIsAllowedIPv4: C16 address classes over all 2^32 IPv4 addresses (4-byte and v4-mapped 16-byte forms).
func VerifIsAllowedIPv4() {
	a, b, c, d := vrt.Byte("a"), vrt.Byte("b"), vrt.Byte("c"), vrt.Byte("d")
	var ip net.IP
	if vrt.Choose("form", 2) == 0 {
		ip = net.IP{a, b, c, d}
	} else {
		ip = net.IP{0, 0, 0, 0, 0, 0, 0, 0, 0, 0, 0xff, 0xff, a, b, c, d}
	}
	vrt.Assert("C16.ipv4-class", isAllowedIP(ip) == refPublicV4(a, b, c, d))
}

func refPublicV6(p [16]byte) bool {
	allZero := true
	for i := 0; i < 16; i++ {
		if p[i] != 0 {
			allZero = false
		}
	}
	if allZero {
		return false // ::
	}
	lo := true
	for i := 0; i < 15; i++ {
		if p[i] != 0 {
			lo = false
		}
	}
	if lo && p[15] == 1 {
		return false // ::1
	}
	if p[0] == 0xff {
		return false // multicast
	}
	if p[0] == 0xfe && p[1]&0xc0 == 0x80 {
		return false // link-local
	}
	if p[0]&0xfe == 0xfc {
		return false // unique local
	}
	return true
}

// VerifIsAllowedIPv6: all 2^128 addresses that are not IPv4-mapped.
func VerifIsAllowedIPv6() {
	var p [16]byte
	for i := range p {
		p[i] = vrt.Byte("p")
	}
	mapped := p[10] == 0xff && p[11] == 0xff
	for i := 0; i < 10; i++ {
		mapped = mapped && p[i] == 0
	}
	vrt.Assume(!mapped)
	vrt.Assert("C16.ipv6-class", isAllowedIP(net.IP(p[:])) == refPublicV6(p))
}
