//go:build verif

package admin

import (
	"net/http"
	"net/url"

	"github.com/nuetzliches/hookaido/internal/queue"
	vrt "github.com/nuetzliches/hookaido/internal/verifrt"
)

func isBlank(c byte) bool { return c == ' ' || (c >= '\t' && c <= '\r') }

func refBearer(h string, tokens []string) bool {
	const prefix = "Bearer "
	if len(h) < len(prefix) || h[:len(prefix)] != prefix {
		return false
	}
	rest := h[len(prefix):]
	i, j := 0, len(rest)
	for i < j && isBlank(rest[i]) {
		i++
	}
	for j > i && isBlank(rest[j-1]) {
		j--
	}
	got := rest[i:j]
	if got == "" {
		return false
	}
	for _, t := range tokens {
		if got == t {
			return true
		}
	}
	return false
}

// verif:harness props=C11 tier=quick native=yes weight=20
// verif:bounds admin tokens "ad1" and "Z9"; Authorization header absent or any ASCII string of 0..10 bytes (thorough 0..11)
func VerifC11AdminBearer() {
	max := 10
	if vrt.Thorough() {
		max = 11
	}
	auth := BearerTokenAuthorizer([][]byte{[]byte("ad1"), []byte("Z9")})
	r := &http.Request{Header: http.Header{}}
	present := vrt.Bool("present")
	h := vrt.String("authorization", max)
	for i := 0; i < len(h); i++ {
		vrt.Assume(h[i] < 0x80)
	}
	if present {
		r.Header.Set("Authorization", h)
	}
	got := auth(r)
	vrt.Observe("authorized", got)
	vrt.Assert("C11.admin.bearer-token-must-match-exactly", got == (present && refBearer(h, []string{"ad1", "Z9"})))
}

type hRW struct {
	status int
	hdr    http.Header
}

func (w *hRW) Header() http.Header {
	if w.hdr == nil {
		w.hdr = http.Header{}
	}
	return w.hdr
}
func (w *hRW) Write(b []byte) (int, error) {
	if w.status == 0 {
		w.status = 200
	}
	return len(b), nil
}
func (w *hRW) WriteHeader(code int) {
	if w.status == 0 {
		w.status = code
	}
}

// hNoStore: every method of the embedded nil Store panics when called — touching the queue is detected as a panic.
type hNoStore struct{ queue.Store }

var hAdminPaths = []string{"/healthz", "/dlq", "/dlq/requeue", "/dlq/delete", "/messages", "/messages/publish", "/messages/cancel", "/messages/requeue", "/messages/resume",
	"/messages/cancel_by_filter", "/messages/requeue_by_filter", "/messages/resume_by_filter", "/backlog/top_queued", "/backlog/trends", "/attempts",
	"/applications/a/endpoints/e/messages/publish", "/applications/a/endpoints/e/messages", "/applications/a/endpoints/e", "/management/model", "/nope", "/messages/../dlq/delete"}

// verif:harness props=C11 tier=quick native=yes weight=10
// verif:bounds every admin endpoint family (21 paths incl. application-scoped ones, an unknown one and a dot-segment spelling) x {GET, POST, DELETE, PUT}; Authorize answers no
func VerifC11AdminRefusesFirst() {
	s := NewServer(hNoStore{})
	asked := 0
	s.Authorize = func(*http.Request) bool { asked++; return false }
	p := hAdminPaths[vrt.Choose("path", len(hAdminPaths))]
	method := []string{"GET", "POST", "DELETE", "PUT"}[vrt.Choose("method", 4)]
	w := &hRW{}
	touched := false
	func() {
		defer func() {
			if recover() != nil {
				touched = true
			}
		}()
		s.ServeHTTP(w, &http.Request{Method: method, URL: &url.URL{Path: p}, Header: http.Header{}, Body: http.NoBody})
	}()
	vrt.Assert("C11.admin.unauthorized-is-401-before-anything-else", w.status == 401 && asked == 1 && !touched)
}
