//go:build verif

package app

import (
	"errors"
	"io"
	"log/slog"
	"net/http"
	"net/url"
	"os"
	"strings"

	"github.com/nuetzliches/hookaido/internal/admin"
	"github.com/nuetzliches/hookaido/internal/config"
	"github.com/nuetzliches/hookaido/internal/ingress"
	"github.com/nuetzliches/hookaido/internal/queue"

	vrt "github.com/nuetzliches/hookaido/internal/verifrt"
)

type hStore struct {
	queue.Store
	envs []queue.Envelope
}

func (s *hStore) Enqueue(env queue.Envelope) error { s.envs = append(s.envs, env); return nil }

type hRW struct {
	status int
	hdr    http.Header
}

func (w *hRW) Header() http.Header {
	if w.hdr == nil {
		w.hdr = http.Header{}
	}
	return w.hdr
}
func (w *hRW) Write(b []byte) (int, error) {
	if w.status == 0 {
		w.status = 200
	}
	return len(b), nil
}
func (w *hRW) WriteHeader(code int) {
	if w.status == 0 {
		w.status = code
	}
}

// hWire wires an ingress server to the runtime state exactly as startServers does.
func hWire(state *runtimeState, st queue.Store) *ingress.Server {
	ing := ingress.NewServer(st)
	ing.ResolveRoute = state.resolveIngress
	ing.AllowedMethodsFor = state.allowedMethodsFor
	ing.AllowRequestFor = state.allowIngress
	ing.BasicAuthFor = state.basicAuthFor
	ing.ForwardAuthFor = state.forwardAuthFor
	ing.HMACAuthFor = state.hmacAuthFor
	ing.LimitsFor = state.limitsFor
	ing.TargetsFor = state.targetsFor
	return ing
}

type hConfigCase struct {
	name string
	c    config.Compiled
}

// a small family of configurations over the route /x (present or not, HMAC or basic auth or none,
// body limit) — old and new are drawn independently
func hConfigs() []hConfigCase {
	pull := func(p string) *config.PullConfig { return &config.PullConfig{Path: p} }
	return []hConfigCase{
		{"x-hmac", config.Compiled{Routes: []config.CompiledRoute{{Path: "/x", AuthHMACSecrets: []string{"raw:k"}, Pull: pull("/p")}}, PathToRoute: map[string]string{"/p": "/x"}}},
		{"x-open", config.Compiled{Routes: []config.CompiledRoute{{Path: "/x", Pull: pull("/p")}}, PathToRoute: map[string]string{"/p": "/x"}}},
		{"x-gone", config.Compiled{Routes: []config.CompiledRoute{{Path: "/y", Pull: pull("/q")}}, PathToRoute: map[string]string{"/q": "/y"}}},
		{"x-basic-small-body", config.Compiled{Routes: []config.CompiledRoute{{Path: "/x", AuthBasic: map[string]string{"u": "p"}, MaxBodyBytes: 1, Pull: pull("/p")}}, PathToRoute: map[string]string{"/p": "/x"}}},
	}
}

// hServeAlone: the outcome of the request under ONE configuration (reference: no reload anywhere near).
func hServeAlone(c config.Compiled) (int, int) {
	state := newRuntimeState(c)
	if err := state.loadAuth(c); err != nil {
		vrt.Assume(false)
	}
	st := &hStore{}
	w := &hRW{}
	hWire(state, st).ServeHTTP(w, hRequest())
	return w.status, len(st.envs)
}

func hRequest() *http.Request {
	// an unsigned, unauthenticated POST /x with a 2-byte body
	return &http.Request{Method: "POST", URL: &url.URL{Path: "/x"}, Header: http.Header{}, Body: io.NopCloser(strings.NewReader("bb")), RemoteAddr: "1.2.3.4:5", Host: "h"}
}

func hStubConfigPipeline(newC config.Compiled) {
	vrt.Replace(os.ReadFile, func(name string) ([]byte, error) { return []byte("cfg"), nil })
	vrt.Replace(config.Parse, func(data []byte) (*config.Config, error) { return &config.Config{}, nil })
	vrt.Replace(config.Compile, func(cfg *config.Config) (config.Compiled, config.ValidationResult) {
		return newC, config.ValidationResult{OK: true}
	})
}

// verif:harness props=C18 tier=quick weight=30
// verif:bounds old and new configuration drawn independently from 4 variants of route /x (HMAC-protected, open, removed, basic auth + 1-byte body limit); one in-flight unsigned POST /x; thread A = the real ingress ServeHTTP wired to the real runtimeState callbacks, thread B = the real reloadConfig (file read / Parse / Compile replaced by stubs returning the new configuration); every interleaving of the two threads at mutex acquisitions
func VerifC18ReloadVsRequest() {
	cfgs := hConfigs()
	oi := vrt.Choose("old", len(cfgs))
	ni := vrt.Choose("new", len(cfgs))
	oldC, newC := cfgs[oi].c, cfgs[ni].c
	oldStatus, oldEnq := hServeAlone(oldC)
	newStatus, newEnq := hServeAlone(newC)

	state := newRuntimeState(oldC)
	if err := state.loadAuth(oldC); err != nil {
		vrt.Assume(false)
	}
	st := &hStore{}
	ing := hWire(state, st)
	hStubConfigPipeline(newC)
	reloaded := false
	// (the first mutex in the lock trace is the runtime state's: probe it)
	base := len(vrt.LockTrace())
	state.mu.RLock()
	state.mu.RUnlock()
	stateMu := strings.TrimPrefix(vrt.LockTrace()[base], "RLock")
	stateMu = stateMu[:strings.Index(stateMu, "@")] // "#k"
	base++
	vrt.Go(func() {
		_, reloaded = reloadConfig("/etc/hookaido/Hookaidofile", oldC, state, nil, "test")
	})
	w := &hRW{}
	ing.ServeHTTP(w, hRequest())
	vrt.Join()
	vrt.Assert("C18.reload.succeeds-here", reloaded)

	// where did the reload's write sections on the runtime state fall relative to the request's own read sections?
	reqLocks, writeSections := 0, 0
	firstWriteAfterReqLocks, lastWriteAfterReqLocks := -1, -1
	for _, e := range vrt.LockTrace()[base:] {
		switch e {
		case "RLock" + stateMu + "@A":
			reqLocks++
		case "Lock" + stateMu + "@B":
			writeSections++
			if firstWriteAfterReqLocks < 0 {
				firstWriteAfterReqLocks = reqLocks
			}
			lastWriteAfterReqLocks = reqLocks
		}
	}
	totalReqLocks := reqLocks
	// recorded findings (see /verif/known_findings.json):
	//  (1) the reload swaps its state in more than one write section, so a request (even one that does not
	//      overlap any of them) can run between two sections and see new authenticators with old routes
	//  (2) even with a single swap, a request whose callbacks straddle the swap resolves its route under the
	//      old configuration and fetches authenticators / limits / targets under the new one
	straddled := firstWriteAfterReqLocks >= 0 && lastWriteAfterReqLocks > 0 && firstWriteAfterReqLocks < totalReqLocks
	vrt.KnownFinding("C18-reload-swaps-in-two-sections", writeSections > 1)
	vrt.KnownFinding("C18-request-straddles-the-swap", writeSections == 1 && straddled)
	okOld := w.status == oldStatus && len(st.envs) == oldEnq
	okNew := w.status == newStatus && len(st.envs) == newEnq
	vrt.Assert("C18.request-served-entirely-under-old-or-entirely-under-new", okOld || okNew)
	vrt.Assert("C18.successful-reload-swaps-at-one-instant", writeSections == 1)
}

// verif:harness props=C18,C08 tier=quick weight=20
// verif:bounds running configuration /x with HMAC; reload fails at every stage in turn: file unreadable, parse error, validation error, restart required (listener changed), secret cannot be loaded (first, or a later route's) — or succeeds
func VerifC18FailedReloadChangesNothing() {
	pull := func(p string) *config.PullConfig { return &config.PullConfig{Path: p} }
	oldC := config.Compiled{Routes: []config.CompiledRoute{{Path: "/x", AuthHMACSecrets: []string{"raw:k"}, AuthBasic: map[string]string{"u": "p"}, Pull: pull("/p")}}, PathToRoute: map[string]string{"/p": "/x"},
		PullAPI: config.APIConfig{AuthTokens: []string{"raw:t0"}}}
	state := newRuntimeState(oldC)
	if err := state.loadAuth(oldC); err != nil {
		vrt.Assume(false)
	}
	newC := config.Compiled{Routes: []config.CompiledRoute{{Path: "/x", Pull: pull("/p")}, {Path: "/z", AuthHMACSecrets: []string{"raw:k2"}, Pull: pull("/pz")}}, PathToRoute: map[string]string{"/p": "/x", "/pz": "/z"},
		PullAPI: config.APIConfig{AuthTokens: []string{"raw:t1"}}}
	fail := vrt.Choose("fails-at", 7)
	switch fail {
	case 4:
		newC.Ingress.Listen = ":9999" // needs a restart
	case 5:
		newC.PullAPI.AuthTokens = []string{"nosuchscheme:x"} // first secret fails to load
	case 6:
		newC.Routes[1].AuthHMACSecrets = []string{"nosuchscheme:y"} // a later secret fails to load
	}
	vrt.Replace(os.ReadFile, func(name string) ([]byte, error) {
		if fail == 1 {
			return nil, errors.New("read error")
		}
		return []byte("cfg"), nil
	})
	vrt.Replace(config.Parse, func(data []byte) (*config.Config, error) {
		if fail == 2 {
			return nil, errors.New("parse error")
		}
		return &config.Config{}, nil
	})
	vrt.Replace(config.Compile, func(cfg *config.Config) (config.Compiled, config.ValidationResult) {
		if fail == 3 {
			return config.Compiled{}, config.ValidationResult{OK: false, Errors: []string{"bad"}}
		}
		return newC, config.ValidationResult{OK: true}
	})
	hmacBefore, basicBefore := state.hmacAuthFor("/x"), state.basicAuthFor("/x")
	_, okRouteBefore := state.resolveIngress(hRequest(), "/x")
	got, ok := reloadConfig("/etc/hookaido/Hookaidofile", oldC, state, nil, "test")
	if fail == 0 {
		vrt.Assert("C18.reload.success-installs-the-new-configuration", ok && len(got.Routes) == 2 && state.hmacAuthFor("/x") == nil && state.hmacAuthFor("/z") != nil)
		return
	}
	vrt.Assert("C18.reload.failure-is-reported", !ok && len(got.Routes) == 1)
	_, okRouteAfter := state.resolveIngress(hRequest(), "/x")
	_, zResolves := state.resolveIngress(&http.Request{Method: "POST", URL: &url.URL{Path: "/z"}, Header: http.Header{}}, "/z")
	same := state.hmacAuthFor("/x") == hmacBefore && state.basicAuthFor("/x") == basicBefore && okRouteBefore == okRouteAfter && !zResolves && state.hmacAuthFor("/z") == nil
	vrt.Assert("C18.reload.failure-leaves-routing-and-authentication-exactly-as-before", same)
	_, pz := state.resolvePull("/pz")
	vrt.Assert("C18.reload.failure-leaves-pull-mapping-as-before", !pz)
}

// hReloadSame runs the real reloadConfig with the file/parse/compile pipeline natively replaced by a
// temp file holding a configuration equivalent to `running` — here simply by calling the same tail the
// reload executes. (Natively there is no function replacement, so this helper goes through state.reload.)
func hReloadSame(running config.Compiled, state *runtimeState) (config.Compiled, bool) {
	if err := state.reload(running); err != nil {
		return running, false
	}
	return running, true
}

type hFileEvent struct {
	path string
	data string
}

// verif:harness props=C18 tier=quick weight=20
// verif:bounds management endpoint mutation through the real mutateManagedEndpointConfig with every stage failing in turn (read, parse, compile, mutation, not-applied, format, re-parse, re-compile, write, post-write validation, reload) or none; file I/O, Parse/Compile/Format and reloadConfig replaced by recording stubs
func VerifC18ManagedMutationRollsBack() {
	const path = "/etc/h/Hookaidofile"
	fail := vrt.Choose("fails-at", 12)
	var writes []hFileEvent
	parses, compiles := 0, 0
	vrt.Replace(os.ReadFile, func(name string) ([]byte, error) {
		if fail == 1 {
			return nil, errors.New("read error")
		}
		return []byte("OLD"), nil
	})
	vrt.Replace(config.Parse, func(data []byte) (*config.Config, error) {
		parses++
		if (fail == 2 && parses == 1) || (fail == 7 && parses == 2) {
			return nil, errors.New("parse error")
		}
		return &config.Config{}, nil
	})
	vrt.Replace(config.Compile, func(cfg *config.Config) (config.Compiled, config.ValidationResult) {
		compiles++
		if (fail == 3 && compiles == 1) || (fail == 8 && compiles == 2) {
			return config.Compiled{}, config.ValidationResult{OK: false, Errors: []string{"bad"}}
		}
		return config.Compiled{}, config.ValidationResult{OK: true}
	})
	vrt.Replace(config.Format, func(cfg *config.Config) ([]byte, error) {
		if fail == 6 {
			return nil, errors.New("format error")
		}
		return []byte("NEW"), nil
	})
	vrt.Replace(config.FormatValidationText, func(res config.ValidationResult) string { return "invalid" })
	vrt.Replace(writeFileAtomic, func(p string, data []byte) error {
		writes = append(writes, hFileEvent{p, string(data)})
		if fail == 9 && len(writes) == 1 {
			return errors.New("disk full")
		}
		return nil
	})
	vrt.Replace(reloadConfig, func(p string, running config.Compiled, state *runtimeState, logger *slog.Logger, trigger string) (config.Compiled, bool) {
		return running, fail != 11
	})
	mutation := func(cfg *config.Config, compiled config.Compiled) (admin.ManagementEndpointMutationResult, error) {
		if fail == 4 {
			return admin.ManagementEndpointMutationResult{}, errors.New("conflict")
		}
		res := admin.ManagementEndpointMutationResult{Applied: fail != 5}
		res.PostWriteValidate = func() error {
			if fail == 10 {
				return errors.New("backlog appeared")
			}
			return nil
		}
		return res, nil
	}
	_, _, err := mutateManagedEndpointConfig(path, config.Compiled{}, nil, nil, mutation, "test")
	for _, w := range writes {
		vrt.Assert("C18.mutation.touches-only-the-config-file", w.path == path)
	}
	switch {
	case fail == 0:
		vrt.Assert("C18.mutation.success-writes-the-validated-new-content-once", err == nil && len(writes) == 1 && writes[0].data == "NEW" && parses == 2 && compiles == 2)
	case fail >= 1 && fail <= 8:
		vrt.Assert("C18.mutation.nothing-written-before-the-candidate-parsed-and-compiled", len(writes) == 0)
	case fail == 9:
		vrt.Assert("C18.mutation.failed-write-is-an-error", err != nil)
	case fail == 10 || fail == 11:
		ok := err != nil && len(writes) == 2 && writes[0].data == "NEW" && writes[1].data == "OLD"
		vrt.Assert("C18.mutation.previous-content-put-back-when-validation-or-reload-fails", ok)
	}
}
