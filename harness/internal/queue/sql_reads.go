//go:build verif

package queue

// C13, read side: listings (filters, limits, before-cursors, order), lookups by id and statistics answer the same on the
// memory store and on the SQLite store (SQL model) holding the same state.

import (
	"time"

	vrt "github.com/nuetzliches/hookaido/internal/verifrt"
)

// sameListed: two listed envelopes agree in every field a listing carries on both backends (lease id and lease
// expiry are not part of a listing on SQLite and are compared through the table contents elsewhere).
func sameListed(a, b Envelope) bool {
	e1 := a.ID == b.ID && a.Route == b.Route && a.Target == b.Target
	e2 := a.State == b.State && a.Attempt == b.Attempt && a.SchemaVersion == b.SchemaVersion
	e3 := a.ReceivedAt.Equal(b.ReceivedAt) && a.NextRunAt.Equal(b.NextRunAt)
	e4 := string(a.Payload) == string(b.Payload) && (a.Payload == nil) == (b.Payload == nil)
	e5 := a.DeadReason == b.DeadReason
	e6 := len(a.Headers) == len(b.Headers) && len(a.Trace) == len(b.Trace)
	return e1 && e2 && e3 && e4 && e5 && e6
}

var qStateFilter = []State{"", StateQueued, StateLeased, StateDelivered, StateDead, StateCanceled}

// verif:harness props=C13 tier=quick weight=60
// verif:bounds the same state (N=2 rows/items on routes r0/r1; any states, arbitrary timestamps) in a MemoryStore and in a SQLiteStore over the SQL model; one read with the same arguments on both: ListMessages (route filter none/r0, state filter none/queued, before-cursor absent or arbitrary, order ""/" ASC"/invalid, limit 0 (default)/1, payload+headers+trace included or not; thorough: route none/r0/r1, every state filter, order ""/asc/"DESC "/invalid, limit -1/0/1/N), ListDead (route filter, cursor, limit; received_at of dead messages pairwise distinct because SQLite leaves the order of ties open there), LookupMessages (id list of 2 from {ids, padded, blank, absent}), Stats (totals, per-state counts, oldest/earliest instants, age and lag, top backlog buckets); pruning switched off (covered by the prune harnesses)
func VerifC13Reads() {
	n := 2 // (three rows do not finish with these menus)
	w, m := qNew(n, true, true)
	family := vrt.Choose("family", 4)
	switch family {
	case 0:
		// (menus kept small in the quick tier: every option forks; the filters are symmetric in r0/r1)
		routes, states, orders, limits := []string{"", "r0"}, []State{"", StateQueued}, []string{"", " ASC", "sideways"}, []int{0, 1}
		if vrt.Thorough() {
			routes, states, orders, limits = []string{"", "r0", "r1"}, qStateFilter, []string{"", "asc", "DESC ", "sideways"}, []int{-1, 0, 1, n}
		}
		inc := vrt.Bool("include-payload-headers-trace")
		req := MessageListRequest{
			Route:          routes[vrt.Choose("route", len(routes))],
			State:          states[vrt.Choose("state-filter", len(states))],
			Order:          orders[vrt.Choose("order", len(orders))],
			Limit:          limits[vrt.Choose("limit", len(limits))],
			IncludePayload: inc,
			IncludeHeaders: inc,
			IncludeTrace:   inc,
		}
		if vrt.Bool("cursor") {
			req.Before = vrt.Time("before")
		}
		r1, e1 := m.s.ListMessages(req)
		r2, e2 := w.s.ListMessages(req)
		vrt.Assert("C13.list.same-error", (e1 == nil) == (e2 == nil))
		same := len(r1.Items) == len(r2.Items)
		if same {
			for i := range r1.Items {
				same = same && sameListed(r1.Items[i], r2.Items[i])
			}
		}
		vrt.Assert("C13.list.same-messages-same-order-identical-fields", same)
	case 1:
		for i := 0; i < n; i++ {
			for j := i + 1; j < n; j++ {
				a, b := m.s.items[w.ids[i]], m.s.items[w.ids[j]]
				vrt.Assume(!(a.State == StateDead && b.State == StateDead && a.ReceivedAt.Equal(b.ReceivedAt)))
			}
		}
		inc := vrt.Bool("include-payload-headers-trace")
		req := DeadListRequest{
			Route:          []string{"", "r0"}[vrt.Choose("route", 2)],
			Limit:          []int{0, 1, n}[vrt.Choose("limit", 3)],
			IncludePayload: inc,
			IncludeHeaders: inc,
			IncludeTrace:   inc,
		}
		if vrt.Bool("cursor") {
			req.Before = vrt.Time("before")
		}
		r1, e1 := m.s.ListDead(req)
		r2, e2 := w.s.ListDead(req)
		vrt.Assert("C13.dlq-list.same-error", (e1 == nil) == (e2 == nil))
		same := len(r1.Items) == len(r2.Items)
		if same {
			for i := range r1.Items {
				same = same && sameListed(r1.Items[i], r2.Items[i])
			}
		}
		vrt.Assert("C13.dlq-list.same-messages-same-order-identical-fields", same)
	case 2:
		ids := []string{mIDMenu[vrt.Choose("id", len(mIDMenu))], mIDMenu[vrt.Choose("id", len(mIDMenu))]}
		r1, e1 := m.s.LookupMessages(MessageLookupRequest{IDs: ids})
		r2, e2 := w.s.LookupMessages(MessageLookupRequest{IDs: ids})
		same := (e1 == nil) == (e2 == nil) && len(r1.Items) == len(r2.Items)
		if same {
			for i := range r1.Items {
				same = same && r1.Items[i].ID == r2.Items[i].ID && r1.Items[i].Route == r2.Items[i].Route && r1.Items[i].State == r2.Items[i].State
			}
		}
		vrt.Assert("C13.lookup.same-items-same-order", same)
	case 3:
		s1, e1 := m.s.Stats()
		s2, e2 := w.s.Stats()
		vrt.Assert("C13.stats.same-error", e1 == nil && e2 == nil)
		same := s1.Total == s2.Total
		for _, st := range mStates {
			same = same && s1.ByState[st] == s2.ByState[st]
		}
		vrt.Assert("C13.stats.same-totals-and-per-state-counts", same)
		t1 := s1.OldestQueuedReceivedAt.Equal(s2.OldestQueuedReceivedAt) && s1.EarliestQueuedNextRun.Equal(s2.EarliestQueuedNextRun)
		t2 := s1.OldestQueuedAge == s2.OldestQueuedAge && s1.ReadyLag == s2.ReadyLag
		vrt.Assert("C13.stats.same-oldest-earliest-age-lag", t1 && t2)
		b := len(s1.TopQueued) == len(s2.TopQueued)
		if b {
			for i := range s1.TopQueued {
				x, y := s1.TopQueued[i], s2.TopQueued[i]
				b = b && x.Route == y.Route && x.Target == y.Target && x.Queued == y.Queued &&
					x.OldestQueuedReceivedAt.Equal(y.OldestQueuedReceivedAt) && x.EarliestQueuedNextRun.Equal(y.EarliestQueuedNextRun) &&
					x.OldestQueuedAge == y.OldestQueuedAge && x.ReadyLag == y.ReadyLag
			}
		}
		vrt.Assert("C13.stats.same-backlog-buckets", b)
	}
	// reads change nothing on either side
	ms, qs := m.snap(), w.snap()
	for i := 0; i < n; i++ {
		a := ms[i]
		if a.present {
			a.npayload, a.payload, a.nhdr, a.hdr = 1, 'p', 0, ""
		}
		vrt.Assert("C13.reads.same-contents-afterwards", sameRow(a, qs[i]))
	}
	_ = time.Second
}
