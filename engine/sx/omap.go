package sx

// Deterministic insertion-ordered map supporting symbolic keys.

import (
	"fmt"
	"go/types"
)

type omap struct {
	keyType types.Type
	keys    []value
	vals    []value
}

func newOmap(kt types.Type) *omap { return &omap{keyType: kt} }

// eqTerm returns the term for x == y at type t.
func eqTerm(t types.Type, x, y value) *Term {
	switch xv := x.(type) {
	case symv:
		return Eq(xv.t, termOf(y))
	case symstr:
		r := symStrBinop(tokenEQL, x, y)
		return termOf(r)
	case string:
		if _, ok := y.(symstr); ok {
			return termOf(symStrBinop(tokenEQL, x, y))
		}
		return BoolConst(xv == y.(string))
	case structure:
		yv := y.(structure)
		ts := t.Underlying().(*types.Struct)
		r := TrueT
		for i := range xv {
			if ts.Field(i).Name() == "_" {
				continue
			}
			r = And(r, eqTerm(ts.Field(i).Type(), xv[i], yv[i]))
		}
		return r
	case array:
		yv := y.(array)
		te := t.Underlying().(*types.Array).Elem()
		r := TrueT
		for i := range xv {
			r = And(r, eqTerm(te, xv[i], yv[i]))
		}
		return r
	case iface:
		yv := y.(iface)
		if !sameType(xv.t, yv.t) {
			return FalseT
		}
		if xv.t == nil {
			return TrueT
		}
		return eqTerm(xv.t, xv.v, yv.v)
	}
	if isSym(y) {
		return Eq(termOf(x), termOf(y))
	}
	return BoolConst(equals(t, x, y))
}

func (m *omap) find(k value) int {
	if m == nil {
		return -1
	}
	for i, ki := range m.keys {
		c := eqTerm(m.keyType, k, ki)
		if X != nil {
			if X.decide(c) {
				return i
			}
		} else if c.Op == "true" {
			return i
		} else if c.Op != "false" {
			panic("symbolic map key without explorer")
		}
	}
	return -1
}

func (m *omap) lookup(k value) (value, bool) {
	i := m.find(k)
	if i < 0 {
		return nil, false
	}
	return m.vals[i], true
}

func (m *omap) insert(k, v value) {
	if m == nil {
		panic("assignment to entry in nil map")
	}
	i := m.find(k)
	if i >= 0 {
		m.vals[i] = v
		return
	}
	m.keys = append(m.keys, k)
	m.vals = append(m.vals, v)
}

func (m *omap) delete(k value) {
	i := m.find(k)
	if i < 0 {
		return
	}
	m.keys = append(m.keys[:i:i], m.keys[i+1:]...)
	m.vals = append(m.vals[:i:i], m.vals[i+1:]...)
}

func (m *omap) len() int {
	if m == nil {
		return 0
	}
	return len(m.keys)
}

type omapIter struct {
	m    *omap
	snap []value
	i    int
}

func (it *omapIter) next() tuple {
	for it.i < len(it.snap) {
		k := it.snap[it.i]
		it.i++
		// still present? (identity of key slot is enough: compare concretely by position search)
		for j, kj := range it.m.keys {
			if sameKeySlot(k, kj) {
				return tuple{true, k, it.m.vals[j]}
			}
		}
	}
	return tuple{false, nil, nil}
}

// sameKeySlot reports whether two key values are the same stored key
// (syntactic identity, no solver involvement).
func sameKeySlot(a, b value) bool {
	switch a := a.(type) {
	case symv:
		bv, ok := b.(symv)
		return ok && a.t == bv.t
	case symstr:
		bv, ok := b.(symstr)
		if !ok || len(a.b) != len(bv.b) {
			return false
		}
		for i := range a.b {
			if !sameKeySlot(a.b[i], bv.b[i]) {
				return false
			}
		}
		return true
	case structure:
		bv, ok := b.(structure)
		if !ok || len(a) != len(bv) {
			return false
		}
		for i := range a {
			if !sameKeySlot(a[i], bv[i]) {
				return false
			}
		}
		return true
	case array:
		bv, ok := b.(array)
		if !ok || len(a) != len(bv) {
			return false
		}
		for i := range a {
			if !sameKeySlot(a[i], bv[i]) {
				return false
			}
		}
		return true
	case iface:
		bv, ok := b.(iface)
		return ok && sameType(a.t, bv.t) && (a.t == nil || sameKeySlot(a.v, bv.v))
	}
	defer func() { recover() }()
	return a == b
}

func (m *omap) String() string { return fmt.Sprintf("omap(%d)", m.len()) }
