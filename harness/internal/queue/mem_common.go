//go:build verif

package queue

// Shared construction of an arbitrary MemoryStore state that satisfies the representation
// invariant Inv (DESIGN.md appendix A), snapshots and comparisons.

import (
	"time"

	vrt "github.com/nuetzliches/hookaido/internal/verifrt"
)

var mStates = []State{StateQueued, StateLeased, StateDelivered, StateDead, StateCanceled}

var (
	mIDs    = []string{"m0", "m1", "m2", "m3"}
	mLeases = []string{"L0", "L1", "L2", "L3"}
)

type mWorld struct {
	s   *MemoryStore
	n   int
	now time.Time
	ids []string
}

type mSnap struct {
	present    bool
	id         string
	state      State
	leaseID    string
	leaseUntil time.Time
	nextRunAt  time.Time
	receivedAt time.Time
	attempt    int
	route      string
	target     string
	payload    byte
	npayload   int
	hdr        string
	nhdr       int
	deadReason string
}

type mOpts struct {
	routes    bool // symbolic route/target per item (r0|r1, t0|t1); otherwise all "r0"/"t0"
	stale     bool // explore dangling entries in the leases index
	states    []State
	retention bool // symbolic retention settings (pruning may happen)
}

// mNew builds a store with n items; every scalar field is symbolic. Inv holds by construction:
// leased <=> LeaseID set, registered in leases and LeaseUntil set.
func mNew(n int, o mOpts) *mWorld {
	w := &mWorld{n: n, ids: mIDs[:n]}
	w.now = vrt.Time("now")
	w.s = NewMemoryStore(WithNowFunc(func() time.Time { return w.now }))
	states := o.states
	if states == nil {
		states = mStates
	}
	for i := 0; i < n; i++ {
		st := states[vrt.Choose("state", len(states))]
		env := &Envelope{ID: w.ids[i], Route: "r0", Target: "t0", State: st,
			ReceivedAt: vrt.Time("recv"), NextRunAt: vrt.Time("next"), Attempt: vrt.Int("attempt"),
			Payload: []byte{vrt.Byte("payload")}, Headers: map[string]string{"X-H": string([]byte{vrt.Byte("hdr")})},
			SchemaVersion: 1}
		vrt.Assume(env.Attempt >= 0 && env.Attempt < 1<<30)
		if o.routes {
			// symbolic last byte: no fork at construction, only where a criterion looks at it
			rb, tb := vrt.Byte("route"), vrt.Byte("target")
			vrt.Assume(rb == '0' || rb == '1')
			vrt.Assume(tb == '0' || tb == '1')
			env.Route = string([]byte{'r', rb})
			env.Target = string([]byte{'t', tb})
		}
		if st == StateLeased {
			env.LeaseID = mLeases[i]
			env.LeaseUntil = vrt.Time("until")
			env.NextRunAt = env.LeaseUntil
			w.s.leases[env.LeaseID] = w.ids[i]
		}
		if st == StateDead {
			env.DeadReason = "max_retries"
		}
		w.s.items[w.ids[i]] = env
		w.s.order = append(w.s.order, w.ids[i])
	}
	if o.stale {
		switch vrt.Choose("stale", 3) {
		case 1:
			// superseded lease id still in the index, pointing at item 0 (whatever its state)
			w.s.leases["S0"] = w.ids[0]
		case 2:
			// index entry for a message that no longer exists
			w.s.leases["S0"] = "gone"
		}
	}
	return w
}

func snapOf(env *Envelope) mSnap {
	if env == nil {
		return mSnap{}
	}
	sn := mSnap{present: true, id: env.ID, state: env.State, leaseID: env.LeaseID, leaseUntil: env.LeaseUntil, nextRunAt: env.NextRunAt,
		receivedAt: env.ReceivedAt, attempt: env.Attempt, route: env.Route, target: env.Target, npayload: len(env.Payload), nhdr: len(env.Headers),
		deadReason: env.DeadReason}
	if len(env.Payload) > 0 {
		sn.payload = env.Payload[0]
	}
	sn.hdr = env.Headers["X-H"]
	return sn
}

func (w *mWorld) snap() []mSnap {
	out := make([]mSnap, w.n)
	for i, id := range w.ids {
		out[i] = snapOf(w.s.items[id])
	}
	return out
}

// sameImmutable: the fields no queue operation may ever alter.
func sameImmutable(a, b mSnap) bool {
	e1 := a.id == b.id
	e2 := a.route == b.route
	e3 := a.target == b.target
	e4 := a.payload == b.payload
	e5 := a.npayload == b.npayload
	e6 := a.hdr == b.hdr
	e7 := a.nhdr == b.nhdr
	e8 := a.receivedAt.Equal(b.receivedAt)
	return e1 && e2 && e3 && e4 && e5 && e6 && e7 && e8
}

// sameItem: bit-identical as far as any observer can tell.
func sameItem(a, b mSnap) bool {
	if a.present != b.present {
		return false
	}
	if !a.present {
		return true
	}
	e0 := sameImmutable(a, b)
	e1 := a.state == b.state
	e2 := a.leaseID == b.leaseID
	e3 := a.leaseUntil.Equal(b.leaseUntil)
	e4 := a.nextRunAt.Equal(b.nextRunAt)
	e5 := a.attempt == b.attempt
	e6 := a.deadReason == b.deadReason
	return e0 && e1 && e2 && e3 && e4 && e5 && e6
}

// mInv: the representation invariant, evaluated on the current state.
func (w *mWorld) inv() bool {
	ok := true
	for id, env := range w.s.items {
		if env == nil || env.ID != id {
			return false
		}
		valid := false
		for _, st := range mStates {
			if env.State == st {
				valid = true
			}
		}
		if !valid {
			return false
		}
		if env.State == StateLeased {
			if env.LeaseID == "" || w.s.leases[env.LeaseID] != id {
				return false
			}
			z := env.LeaseUntil.IsZero()
			ok = ok && !z
		} else {
			if env.LeaseID != "" {
				return false
			}
			z := env.LeaseUntil.IsZero()
			ok = ok && z
		}
		inOrder := false
		for _, o := range w.s.order {
			if o == id {
				inOrder = true
			}
		}
		if !inOrder {
			return false
		}
	}
	return ok
}
