package main

import (
	"flag"
	"fmt"
	"os"
	"path/filepath"
	"regexp"
	"runtime"
	"sort"
	"strconv"
	"strings"
	"time"

	"gosym/sx"
)

// merged is the per-harness view over all its shards.
type merged struct {
	H          Harness
	Skipped    string // non-empty: the harness file does not compile against this tree (reason)
	Shards     []Result
	Paths, Completed, Nontrivial, Decisions, Queries, Sat, Unsat, Unknown int
	SolverS, WallS float64
	Asserts    map[string]*sx.AssertStat
	Covers     map[string]int
	Aborted    map[string]int
	Violations []sx.Violation
	KnownHits  map[string]int
	Witnesses  []sx.Witness
	Funcs      map[string]int
	Stubs      map[string]int
	Replaced   map[string]bool
	Problems   []string // reasons this harness is inconclusive
	NativeOK   int
	NativeBad  int
	Confirmed  []confirmed
}

type confirmed struct {
	V      sx.Violation
	Path   string
	How    string // native | interp
	OK     bool
	Detail string
}

func cmdCheck(args []string) int {
	if len(args) < 1 {
		fmt.Fprintln(os.Stderr, "usage: gosym check <PROPERTY> [-tier quick|thorough]")
		return 2
	}
	prop := args[0]
	fs := flag.NewFlagSet("check", flag.ExitOnError)
	tierDefault := envOr("VERIF_TIER", "quick")
	tier := fs.String("tier", tierDefault, "quick|thorough")
	workers := fs.Int("workers", 0, "parallel worker processes (default: min(12, cores))")
	only := fs.String("only", "", "regexp filter on harness names (debugging; evidence is not written)")
	noNative := fs.Bool("no-native", false, "skip native replays (debugging; evidence is not written)")
	verbose := fs.Bool("v", false, "verbose")
	fs.Parse(args[1:])
	if *tier != "quick" && *tier != "thorough" {
		fmt.Fprintln(os.Stderr, "bad tier", *tier)
		return 2
	}
	seed, _ := strconv.Atoi(os.Getenv("VERIF_SEED"))
	t0 := time.Now()

	all, err := scanHarnesses()
	if err != nil {
		fmt.Fprintln(os.Stderr, "scan:", err)
		return 2
	}
	var hs []Harness
	for _, h := range all {
		ok := false
		for _, p := range h.Props {
			if p == prop {
				ok = true
			}
		}
		if *tier == "thorough" {
			for _, p := range h.TProps {
				if p == prop {
					ok = true
				}
			}
		}
		if !ok || (*tier == "quick" && h.Tier != "quick") {
			continue
		}
		if *only != "" && !regexp.MustCompile(*only).MatchString(h.Fn) {
			continue
		}
		hs = append(hs, h)
	}
	if len(hs) == 0 {
		fmt.Fprintf(os.Stderr, "no harness registered for %s\n", prop)
		return 2
	}
	nw := *workers
	if nw <= 0 {
		nw = runtime.NumCPU()
		if nw > 12 {
			nw = 12
		}
	}
	work := filepath.Join(outRoot, "work", prop+"-"+*tier)
	os.RemoveAll(work)
	os.MkdirAll(work, 0o755)
	defer func() {
		if os.Getenv("VERIF_KEEP_WORK") == "" {
			os.RemoveAll(work)
		}
	}()

	// ---- plan jobs ----
	known := loadKnown(filepath.Join(verifRoot, "known_findings.json"))
	type wjob struct {
		j Job
		w float64
	}
	var wjobs []wjob
	pkgSet := map[string]bool{}
	for _, h := range hs {
		pkgSet[h.Pkg] = true
		n := h.Shards
		if *tier == "thorough" {
			n = h.ShardsT
		}
		if n < 1 {
			n = 1
		}
		dl := 900
		if *tier == "thorough" {
			dl = 3 * 3600
		}
		for i := 0; i < n; i++ {
			wjobs = append(wjobs, wjob{Job{Pkg: h.Pkg, Fn: h.Fn, ShardI: i, ShardN: n, MaxPaths: h.MaxPaths, MaxSteps: h.MaxSteps, QTimeout: h.QTimeout, ShardDepth: h.ShardDepth, DeadlineS: dl,
				Thorough: *tier == "thorough" && thoroughBoundsFor(h, prop), Verbose: *verbose, KnownFor: known.labelMap(h.Fn)}, float64(h.Weight)/float64(n) + 0.01})
		}
	}
	// longest first
	sort.SliceStable(wjobs, func(i, j int) bool { return wjobs[i].w > wjobs[j].w })
	var jobs []Job
	for _, wj := range wjobs {
		jobs = append(jobs, wj.j)
	}
	var pkgDirs []string
	for p := range pkgSet {
		pkgDirs = append(pkgDirs, p)
	}
	sort.Strings(pkgDirs)

	// ---- load once, explore in parallel (one interpreter copy per worker) ----
	byFn := map[string]*merged{}
	var order []string
	for _, h := range hs {
		byFn[h.Fn] = &merged{H: h, Asserts: map[string]*sx.AssertStat{}, Covers: map[string]int{}, Aborted: map[string]int{}, KnownHits: map[string]int{}, Funcs: map[string]int{}, Stubs: map[string]int{}, Replaced: map[string]bool{}}
		order = append(order, h.Fn)
	}
	goVersion := ""
	loadS := 0.0
	l, lerr := loadProgram(pkgDirs)
	var results []Result
	if lerr != nil {
		for _, fn := range order {
			byFn[fn].Problems = append(byFn[fn].Problems, "load: "+lerr.Error())
		}
	} else {
		goVersion, loadS = l.gover, l.loadS
		// harnesses whose file does not compile against this tree are skipped (reported below), the others run
		if len(skippedOverlay) > 0 {
			var kept []Job
			for _, j := range jobs {
				if why, skip := skippedOverlay[harnessVirtualPath(byFn[j.Fn].H)]; skip {
					byFn[j.Fn].Skipped = why
					continue
				}
				kept = append(kept, j)
			}
			jobs = kept
		}
		results = runJobs(l, jobs, nw, func(r Result) {
			if *verbose {
				printResult(r)
			}
		})
	}
	for _, r := range results {
		m := byFn[r.Job.Fn]
		m.Shards = append(m.Shards, r)
		if r.Error != "" {
			m.Problems = append(m.Problems, r.Error)
			continue
		}
		m.Paths += r.Paths
		m.Completed += r.Completed
		m.Nontrivial += r.Nontrivial
		m.Decisions += r.Decisions
		m.Queries += r.Queries
		m.Sat += r.Sat
		m.Unsat += r.Unsat
		m.Unknown += r.Unknown
		m.SolverS += r.SolverS
		if r.WallS > m.WallS {
			m.WallS = r.WallS
		}
		for l, a := range r.Asserts {
			s := m.Asserts[l]
			if s == nil {
				s = &sx.AssertStat{}
				m.Asserts[l] = s
			}
			s.Reached += a.Reached
			s.Proved += a.Proved
			s.Violated += a.Violated
			s.Known += a.Known
			s.Undecided += a.Undecided
		}
		for k, v := range r.Covers {
			m.Covers[k] += v
		}
		for k, v := range r.Aborted {
			m.Aborted[k] += v
		}
		for k, v := range r.KnownHits {
			m.KnownHits[k] += v
		}
		m.Violations = append(m.Violations, r.Violations...)
		m.Witnesses = append(m.Witnesses, r.Witnesses...)
		for _, f := range r.Funcs {
			if i := strings.LastIndex(f, " x"); i > 0 {
				n, _ := strconv.Atoi(f[i+2:])
				m.Funcs[f[:i]] += n
			}
		}
		for k, v := range r.Stubs {
			m.Stubs[k] += v
		}
		for _, k := range r.Replaced {
			m.Replaced[k] = true
		}
		if r.PathLimit {
			m.Problems = append(m.Problems, fmt.Sprintf("path limit reached (shard %d/%d): bound exceeded, not a pass", r.Job.ShardI, r.Job.ShardN))
		}
		if r.TimedOut {
			m.Problems = append(m.Problems, fmt.Sprintf("time limit reached (shard %d/%d): not a pass", r.Job.ShardI, r.Job.ShardN))
		}
	}

	// ---- per-harness obligations: vacuity, undecided, unsupported ----
	for _, fn := range order {
		m := byFn[fn]
		if len(m.Problems) > 0 || m.Skipped != "" {
			continue
		}
		wantA, wantC := labelsInBody(m.H)
		for _, l := range wantA {
			if a := m.Asserts[l]; a == nil || a.Reached == 0 {
				m.Problems = append(m.Problems, "vacuous: assertion "+l+" never reached")
			}
		}
		for _, l := range wantC {
			if m.Covers[l] == 0 {
				m.Problems = append(m.Problems, "vacuous: cover point "+l+" never reached")
			}
		}
		if m.Completed == 0 {
			m.Problems = append(m.Problems, "vacuous: no path completed")
		}
		for l, a := range m.Asserts {
			if a.Undecided > 0 {
				m.Problems = append(m.Problems, fmt.Sprintf("assertion %s undecided on %d paths (solver unknown/timeout)", l, a.Undecided))
			}
		}
		for reason, n := range m.Aborted {
			if abortIsBenign(reason, m.H) {
				continue
			}
			m.Problems = append(m.Problems, fmt.Sprintf("%d paths left the encodable fragment: %s", n, tail(reason, 300)))
		}
	}

	// ---- replays: counterexamples and translator validation ----
	replayDir := filepath.Join(outRoot, "replay")
	os.MkdirAll(replayDir, 0o755)
	old, _ := filepath.Glob(filepath.Join(replayDir, prop+"-*"))
	for _, f := range old {
		os.Remove(f)
	}
	validated := 0
	if !*noNative {
		validated = runReplays(prop, *tier, work, replayDir, byFn, order, l)
	}

	// ---- SQL model validation: harnesses that run SQLiteStore on the interpreted SQL model are only
	// as good as the model; the same store code is run natively on real SQLite and on the model ----
	sqlModelNote := ""
	if !*noNative {
		var users []string
		for _, fn := range order {
			if b, err := os.ReadFile(byFn[fn].H.File); err == nil && harnessUsesSQLModel(string(b), fn) {
				users = append(users, fn)
			}
		}
		if len(users) > 0 {
			note, err := validateSQLModel(*tier, seed, work)
			sqlModelNote = note
			if err != nil {
				for _, fn := range users {
					byFn[fn].Problems = append(byFn[fn].Problems, "SQL model not validated against real SQLite: "+err.Error())
				}
			} else {
				validated++
			}
		}
	}

	// ---- JSON string-map model validation (same scheme): the model codec against the real encoding/json ----
	jsonModelNote := ""
	if !*noNative {
		var users []string
		for _, fn := range order {
			if b, err := os.ReadFile(byFn[fn].H.File); err == nil && harnessBodyContains(string(b), fn, "vrt.JSONModel(") {
				users = append(users, fn)
			}
		}
		if len(users) > 0 {
			note, err := validateJSONModel(work)
			jsonModelNote = note
			if err != nil {
				for _, fn := range users {
					byFn[fn].Problems = append(byFn[fn].Problems, "JSON model not validated against encoding/json: "+err.Error())
				}
			} else {
				validated++
			}
		}
	}

	// ---- verdict ----
	exit := 0
	violations := 0
	var lines []string
	knownPrinted := map[string]bool{}
	for _, fn := range order {
		m := byFn[fn]
		for _, c := range m.Confirmed {
			switch {
			case c.V.Known != "" && c.OK:
				if !knownPrinted[c.V.Known] {
					knownPrinted[c.V.Known] = true
					what := c.V.Known
					if f := known.byID(c.V.Known); f != nil {
						what = f.ID + ": " + f.What
					}
					lines = append(lines, fmt.Sprintf("KNOWN-FINDING: property=%s %s", prop, what))
				}
			case c.V.Known != "" && !c.OK:
				m.Problems = append(m.Problems, "known finding "+c.V.Known+" did not replay ("+c.How+"): "+c.Detail)
			case c.OK:
				violations++
				lines = append(lines, fmt.Sprintf("VIOLATION property=%s replay=%s", prop, c.Path))
				lines = append(lines, fmt.Sprintf("  harness=%s assertion=%s replayed=%s inputs=%s", fn, c.V.Label, c.How, compactInputs(c.V.Inputs)))
			default:
				m.Problems = append(m.Problems, fmt.Sprintf("counterexample to %s did not reproduce (%s): %s — engine/stub defect, check inconclusive", c.V.Label, c.How, c.Detail))
			}
		}
		if *noNative {
			for _, v := range m.Violations {
				if v.Known == "" {
					lines = append(lines, fmt.Sprintf("counterexample (not replayed) harness=%s assertion=%s inputs=%s", fn, v.Label, compactInputs(v.Inputs)))
					violations++
				}
			}
		}
	}
	if violations > 0 {
		exit = 1
	}
	inconclusive := 0
	for _, fn := range order {
		m := byFn[fn]
		if len(m.Problems) > 0 {
			inconclusive++
			for _, p := range uniq(m.Problems) {
				lines = append(lines, fmt.Sprintf("INCONCLUSIVE harness=%s: %s", fn, p))
			}
		}
	}
	skipped := 0
	for _, fn := range order {
		if m := byFn[fn]; m.Skipped != "" {
			skipped++
			lines = append(lines, fmt.Sprintf("SKIPPED harness=%s: its file does not compile against this tree (an identifier it uses was renamed or removed?): %s", fn, tail(m.Skipped, 240)))
		}
	}
	if skipped == len(order) {
		inconclusive++
		lines = append(lines, "INCONCLUSIVE: every harness of this property was skipped")
	}
	if exit == 0 && inconclusive > 0 {
		exit = 2
	}

	// ---- report ----
	for _, fn := range order {
		m := byFn[fn]
		obl, dis := 0, 0
		for _, a := range m.Asserts {
			obl += a.Reached
			dis += a.Proved
		}
		fmt.Printf("%-44s paths=%-6d completed=%-6d obligations=%d discharged=%d queries=%d solver=%.1fs wall=%.1fs native_ok=%d\n",
			fn, m.Paths, m.Completed, obl, dis, m.Queries, m.SolverS, m.WallS, m.NativeOK)
	}
	for _, l := range lines {
		fmt.Println(l)
	}
	if sqlModelNote != "" {
		fmt.Println(sqlModelNote)
		lines = append(lines, sqlModelNote)
	}
	if jsonModelNote != "" {
		fmt.Println(jsonModelNote)
		lines = append(lines, jsonModelNote)
	}
	wall := time.Since(t0).Seconds()
	if *only == "" && !*noNative {
		if err := writeEvidence(prop, *tier, seed, wall, byFn, order, violations, validated, goVersion, loadS, lines); err != nil {
			fmt.Fprintln(os.Stderr, "evidence:", err)
			if exit == 0 {
				exit = 2
			}
		}
	}
	status := map[int]string{0: "PASS", 1: "VIOLATION", 2: "INCONCLUSIVE"}[exit]
	fmt.Printf("%s property=%s tier=%s harnesses=%d wall=%.1fs\n", status, prop, *tier, len(order), wall)
	return exit
}

func tail(s string, n int) string {
	s = strings.TrimSpace(s)
	if len(s) > n {
		return "..." + s[len(s)-n:]
	}
	return s
}

func uniq(in []string) []string {
	seen := map[string]bool{}
	var out []string
	for _, s := range in {
		if !seen[s] {
			seen[s] = true
			out = append(out, s)
		}
	}
	return out
}

func compactInputs(m map[string]string) string {
	var ks []string
	for k := range m {
		ks = append(ks, k)
	}
	sort.Strings(ks)
	var sb strings.Builder
	for i, k := range ks {
		if i > 0 {
			sb.WriteString(" ")
		}
		if sb.Len() > 700 {
			sb.WriteString("...")
			break
		}
		fmt.Fprintf(&sb, "%s=%s", k, m[k])
	}
	return sb.String()
}

func abortIsBenign(reason string, h Harness) bool {
	for _, p := range []string{"note:", "assume false", "assume infeasible", "other shard", "assert failed (concrete)", "assert always fails", "assert failed (pinned)"} {
		if strings.HasPrefix(reason, p) {
			return true
		}
	}
	for _, p := range h.ExpectAbort {
		if strings.Contains(reason, p) {
			return true
		}
	}
	return false
}

var (
	assertLitRe = regexp.MustCompile(`vrt\.Assert\("([^"]+)"`)
	coverLitRe  = regexp.MustCompile(`vrt\.Cover\("([^"]+)"`)
)

// labelsInBody returns the assertion and cover labels written literally in the harness
// function's own body; each must be reached on at least one feasible path.
func labelsInBody(h Harness) (asserts, covers []string) {
	b, err := os.ReadFile(h.File)
	if err != nil {
		return nil, nil
	}
	src := string(b)
	i := strings.Index(src, "func "+h.Fn+"()")
	if i < 0 {
		return nil, nil
	}
	body := src[i:]
	if j := strings.Index(body[1:], "\nfunc "); j >= 0 {
		body = body[:j+1]
	}
	optional := map[string]bool{}
	for _, m := range regexp.MustCompile(`verif:optional (\S+)`).FindAllStringSubmatch(body, -1) {
		optional[m[1]] = true
	}
	seen := map[string]bool{}
	for _, m := range assertLitRe.FindAllStringSubmatch(body, -1) {
		if !seen[m[1]] && !optional[m[1]] {
			seen[m[1]] = true
			asserts = append(asserts, m[1])
		}
	}
	for _, m := range coverLitRe.FindAllStringSubmatch(body, -1) {
		if !seen["c:"+m[1]] && !optional[m[1]] {
			seen["c:"+m[1]] = true
			covers = append(covers, m[1])
		}
	}
	return
}

// thoroughBoundsFor: a harness registered for several properties runs its (expensive) thorough bounds only
// for the properties named in its tonly= annotation, and its quick bounds for the others.
func thoroughBoundsFor(h Harness, prop string) bool {
	if len(h.TOnly) == 0 {
		return true
	}
	for _, p := range h.TOnly {
		if p == prop {
			return true
		}
	}
	return false
}
