#!/usr/bin/env python3
# Regenerates /verif/MANIFEST.json from the table below (claimed checks) and properties.jsonl.
import json
props=[json.loads(l)['id'] for l in open('/verif/properties.jsonl')]
T={}  # id -> (design_ref, text, note)
def claim(pid, ref, text, note):
    T[pid]=(ref,text,note)
NA={}
exec(open('/verif/tools-manifest-table.py').read())
checks=[]
for pid in props:
    if pid in T:
        ref,text,note=T[pid]
        checks.append({
          "property_id":pid,
          "quick_cmd":f"/verif/bin/gosym check {pid} -tier quick",
          "thorough_cmd":f"/verif/bin/gosym check {pid} -tier thorough",
          "evidence_file":f"/verif/evidence/{pid}.json",
          "replay_cmd_template":"/verif/bin/gosym replay {path}",
          "engine":"gosym",
          "level_claimed":{"category":"model_checking","text":text,"design_ref":ref},
          "level_note":note,
          "technique":"bounded symbolic execution of the real Go SSA (repo + std) with z3 deciding every assertion per path (unsat = holds for all inputs on the path); counterexamples replayed against the natively compiled code",
        })
na=[{"property_id":p,"reason":NA.get(p,"check not built yet (build in progress)")} for p in props if p not in T]
m={"version":1,
 "setup_cmd":"cd /verif/engine && ./build.sh",
 "hooks":{"guard":"verif","enable":"no file of /repo is touched: harness files (//go:build verif) and the verifrt runtime are injected by go/packages and `go test -overlay` overlays generated per run by gosym","baseline_off_cmd":"cd /repo && go test -mod=mod -vet=off -count=1 -timeout 25m ./...","source_commits":[],"add_only":True},
 "engines":[{"name":"gosym","path":"/verif/engine","serves_properties":sorted(T.keys()),"kind_free_text":"own bounded symbolic executor for Go SSA (fork of x/tools go/ssa/interp carrying SMT terms) + z3 5.1.0; harnesses are in-package Go functions under /verif/harness injected by overlay; native twin replay via go test -overlay"}],
 "checks":checks,
 "notes":"Exit codes: 0 pass (KNOWN-FINDING lines possible), 1 VIOLATION (replayed), 2 inconclusive (never on the unchanged tree). See DESIGN.md.",
 "not_applicable":na}
json.dump(m,open('/verif/MANIFEST.json','w'),indent=1)
print("claimed:",sorted(T.keys())); print("n/a:",[x['property_id'] for x in na])
