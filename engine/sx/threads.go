package sx

// Two-thread lock-boundary interleaving: vrt.Go(f) starts a second interpreted thread (its own Go
// goroutine = its own interpreter stack; only one thread runs at a time, control is handed over
// explicitly). Every mutex acquisition of either thread is a scheduling point where the explorer
// forks: continue, or hand control to the other thread. Because control changes hands only when the
// running thread is about to take a lock and the other one is parked at such a point (or not started
// or finished), no thread is ever suspended inside a critical section: this enumerates exactly the
// interleavings of the two threads' critical sections (and the code between them).

type killThread struct{}

type thread struct {
	resume  chan struct{}
	yielded chan struct{}
	kill    chan struct{}
	started bool
	done    bool
	err     any
}

func (e *Explorer) spawnThread(fr *frame, fn value) {
	if e.thrB != nil {
		panic(abortPath{"unsupported: more than one vrt.Go thread"})
	}
	t := &thread{resume: make(chan struct{}), yielded: make(chan struct{}), kill: make(chan struct{})}
	e.thrB = t
	i := fr.i
	go func() {
		defer func() {
			if r := recover(); r != nil {
				if _, killed := r.(killThread); !killed {
					t.err = r
				}
			}
			t.done = true
			t.yielded <- struct{}{}
		}()
		select {
		case <-t.resume:
		case <-t.kill:
			panic(killThread{})
		}
		call(i, nil, 0, fn, nil)
	}()
}

// runOther hands control to thread B until it yields or finishes (called on the main thread).
func (e *Explorer) runOther() {
	t := e.thrB
	e.cur = 1
	t.started = true
	t.resume <- struct{}{}
	<-t.yielded
	e.cur = 0
	if t.err != nil {
		err := t.err
		t.err = nil
		panic(err)
	}
}

// yieldToMain parks thread B (called on thread B).
func (e *Explorer) yieldToMain() {
	t := e.thrB
	t.yielded <- struct{}{}
	select {
	case <-t.resume:
	case <-t.kill:
		panic(killThread{})
	}
}

// schedPoint is called at every mutex acquisition.
func (e *Explorer) schedPoint() {
	t := e.thrB
	if t == nil || t.done || e.Pin != nil && false {
		return
	}
	if e.cur == 0 {
		if e.joining {
			return
		}
		if e.choose(2) == 1 {
			event("sched:switch-to-B")
			e.runOther()
		}
		return
	}
	// thread B is running
	if e.joining || e.mainDone {
		return
	}
	if e.choose(2) == 1 {
		event("sched:switch-to-main")
		e.yieldToMain()
	}
}

// ---- the single pooled database connection (SQLiteStore runs with SetMaxOpenConns(1)) ----
// In SQL-model mode with a second thread, taking the connection (db.Conn, or a statement issued on the
// *sql.DB itself) is a scheduling point like a mutex acquisition, and it BLOCKS while the other thread
// holds the connection: control is handed over until it is released. A connection that is never
// released shows up as a deadlock (path aborted with that reason).

func (e *Explorer) acquireConn() {
	if e.thrB == nil || !e.SQLModel {
		return
	}
	e.schedPoint()
	for e.connOwner >= 0 && e.connOwner != e.cur {
		if e.cur == 0 {
			if e.thrB.done {
				panic(abortPath{"deadlock: the pooled connection was never released by the other thread"})
			}
			e.runOther()
		} else {
			if e.joining || e.mainDone {
				panic(abortPath{"deadlock: the pooled connection was never released by the main thread"})
			}
			e.yieldToMain()
		}
	}
	e.connOwner = e.cur
	event("conn:acquire")
}

func (e *Explorer) releaseConn() {
	if e.thrB == nil && e.connOwner < 0 {
		return
	}
	if e.connOwner == e.cur {
		e.connOwner = -1
		event("conn:release")
	}
}

// joinThread runs thread B to completion (called on the main thread).
func (e *Explorer) joinThread() {
	t := e.thrB
	if t == nil {
		return
	}
	e.joining = true
	for !t.done {
		e.runOther()
	}
	e.joining = false
}

// killThreads unwinds a parked thread B at the end of a path.
func (e *Explorer) killThreads() {
	t := e.thrB
	if t == nil {
		return
	}
	if !t.done {
		close(t.kill)
		<-t.yielded
	}
	e.thrB = nil
	e.cur = 0
	e.joining = false
	e.mainDone = false
	e.connOwner = -1
}

func init() {
	symExternals[rtPkg+"Go"] = func(fr *frame, args []value) value {
		X.spawnThread(fr, args[0])
		return nil
	}
	symExternals[rtPkg+"Join"] = func(fr *frame, args []value) value {
		X.joinThread()
		return nil
	}
}
