//go:build verif

package app

import (
	"strings"

	"github.com/nuetzliches/hookaido/internal/config"
	vrt "github.com/nuetzliches/hookaido/internal/verifrt"
)

// verif:harness props=C15 tier=quick native=yes weight=20
// verif:bounds END TO END from configuration text: two pull routes, each with no publish directive / `publish on` / `publish off` / a publish block whose enabled, direct and managed switches are each absent, on or off; real Parse -> Compile -> newRuntimeState; the three per-route publish policy callbacks the Admin API is wired to (global, direct path, endpoint-scoped managed path) answer exactly what the text says, and an unconfigured route is unrestricted
func VerifC15PublishSwitchesFromText() {
	type sw struct{ enabled, direct, managed bool }
	want := map[string]sw{}
	var b strings.Builder
	b.WriteString("pull_api {\n  auth token raw:tok\n}\n")
	tri := func(label string) (string, bool) {
		switch vrt.Choose(label, 3) {
		case 1:
			return "on", true
		case 2:
			return "off", false
		}
		return "", true
	}
	for _, route := range []string{"/a", "/b"} {
		w := sw{true, true, true}
		b.WriteString("\"" + route + "\" {\n  pull {\n    path \"/pull" + route + "\"\n  }\n")
		switch vrt.Choose("publish-directive", 4) {
		case 1:
			b.WriteString("  publish on\n")
		case 2:
			b.WriteString("  publish off\n")
			w.enabled = false
		case 3:
			b.WriteString("  publish {\n")
			if s, v := tri("enabled"); s != "" {
				b.WriteString("    enabled " + s + "\n")
				w.enabled = v
			}
			if s, v := tri("direct"); s != "" {
				b.WriteString("    direct " + s + "\n")
				w.direct = v
			}
			if s, v := tri("managed"); s != "" {
				b.WriteString("    managed " + s + "\n")
				w.managed = v
			}
			b.WriteString("  }\n")
		}
		b.WriteString("}\n")
		want[route] = w
	}
	cfg, err := config.Parse([]byte(b.String()))
	vrt.Assert("C15.text.parses", err == nil)
	if err != nil {
		return
	}
	compiled, res := config.Compile(cfg)
	vrt.Assert("C15.text.compiles", res.OK)
	if !res.OK {
		return
	}
	vrt.Cover("C15.text.compiled")
	state := newRuntimeState(compiled)
	for _, route := range []string{"/a", "/b"} {
		w := want[route]
		vrt.Observe("enabled", state.publishEnabledForRoute(route))
		vrt.Assert("C15.text.route-publish-switch-as-written", state.publishEnabledForRoute(route) == w.enabled)
		vrt.Assert("C15.text.direct-path-switch-as-written", state.publishDirectEnabledForRoute(route) == w.direct)
		vrt.Assert("C15.text.managed-path-switch-as-written", state.publishManagedEnabledForRoute(route) == w.managed)
	}
	ok := state.publishEnabledForRoute("/zz") && state.publishDirectEnabledForRoute("/zz") && state.publishManagedEnabledForRoute("/zz")
	vrt.Assert("C15.text.unconfigured-route-is-unrestricted", ok)
}
