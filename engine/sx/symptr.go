package sx

import (
	"fmt"
	"go/types"
)

// symptr is &elems[idx] for a symbolic idx over scalar elements.
type symptr struct {
	elems []value
	idx   symv
}

func checkIdx(i int64, n int) int64 {
	if i < 0 || i >= int64(n) {
		panic(fmt.Sprintf("runtime error: index out of range [%d] with length %d", i, n))
	}
	return i
}

// boundsFork forks on idx being out of range (panic) and returns in-range otherwise.
func boundsFork(idx symv, n int) {
	w := kindWidth(idx.k)
	var inb *Term
	if kindSigned(idx.k) {
		inb = And(BVCmp("bvsge", idx.t, BVConst(0, w)), BVCmp("bvslt", idx.t, BVConst(uint64(n), w)))
	} else {
		inb = BVCmp("bvult", idx.t, BVConst(uint64(n), w))
	}
	if w == 8 && n >= 256 {
		return
	}
	// cheap structural range analysis first: (x >> 4), (x & 15), zero-extended bytes ... need no query
	if ub, ok := termUpperBound(idx.t); ok && ub < uint64(n) && (w == 64 && ub < 1<<62 || w < 64 && ub < 1<<uint(w-1) || !kindSigned(idx.k)) {
		return
	}
	if !X.decide(inb) {
		panic("runtime error: index out of range (symbolic index)")
	}
}

func symIndexAddr(elems []value, idx symv) value {
	boundsFork(idx, len(elems))
	return &symptr{elems: elems, idx: idx}
}

func elemKind(elems []value, def types.BasicKind) types.BasicKind {
	for _, e := range elems {
		switch e.(type) {
		case symv, bool, int, int8, int16, int32, int64, uint, uint8, uint16, uint32, uint64, uintptr:
			return kindOfValue(e)
		default:
			panic(abortPath{fmt.Sprintf("unsupported: symbolic index over non-scalar elements (%T)", e)})
		}
	}
	return def
}

// symSelect returns elems[idx] as a balanced ite tree over the index bits.
func symSelect(elems []value, idx symv, def types.BasicKind) value {
	boundsFork(idx, len(elems))
	return symSelectChecked(elems, idx, def)
}

func symSelectChecked(elems []value, idx symv, def types.BasicKind) value {
	// elements that are structs (or arrays) of scalars: select field by field (e.g. utf8.acceptRanges[x>>4])
	if len(elems) > 0 {
		switch e0 := elems[0].(type) {
		case structure:
			out := make(structure, len(e0))
			for f := range e0 {
				col := make([]value, len(elems))
				for i, e := range elems {
					col[i] = e.(structure)[f]
				}
				out[f] = symSelectChecked(col, idx, def)
			}
			return out
		case array:
			out := make(array, len(e0))
			for f := range e0 {
				col := make([]value, len(elems))
				for i, e := range elems {
					col[i] = e.(array)[f]
				}
				out[f] = symSelectChecked(col, idx, def)
			}
			return out
		}
	}
	k := elemKind(elems, def)
	w := kindWidth(idx.k)
	var build func(lo, hi int) *Term // elements [lo,hi)
	build = func(lo, hi int) *Term {
		if hi-lo == 1 {
			return termOf(elems[lo])
		}
		mid := (lo + hi) / 2
		return Ite(BVCmp("bvult", idx.t, BVConst(uint64(mid), w)), build(lo, mid), build(mid, hi))
	}
	if len(elems) == 0 {
		panic("runtime error: index out of range (empty)")
	}
	allc := true
	tbl := make([]uint64, len(elems))
	for i, e := range elems {
		if isSym(e) {
			allc = false
			break
		}
		tbl[i] = uint64(asInt64(e)) & mask(kindWidth(k))
	}
	if allc && len(elems) > 4 {
		// pad the table to the index width so that every index value is defined
		if w <= 16 {
			for len(tbl) < 1<<uint(w) {
				tbl = append(tbl, 0)
			}
		}
		return mkScalar(TableLookup(tbl, kindWidth(k), idx.t), k)
	}
	// for signed idx, in-range values are non-negative so unsigned compare is fine
	return mkScalar(build(0, len(elems)), k)
}

func (p *symptr) load(T types.Type) value {
	return symSelect(p.elems, p.idx, types.Uint8)
}

func (p *symptr) store(v value) {
	w := kindWidth(p.idx.k)
	k := elemKind(p.elems, types.Uint8)
	for i := range p.elems {
		c := Eq(p.idx.t, BVConst(uint64(i), w))
		p.elems[i] = mkScalar(Ite(c, termOf(v), termOf(p.elems[i])), k)
	}
}

// termUpperBound returns an upper bound of t read as an unsigned number, from its structure alone.
func termUpperBound(t *Term) (uint64, bool) {
	if t.Sort.Kind != 'V' {
		return 0, false
	}
	switch t.Op {
	case "const":
		return t.Val, true
	case "bvand":
		a, oka := termUpperBound(t.Args[0])
		b, okb := termUpperBound(t.Args[1])
		switch {
		case oka && okb:
			if a < b {
				return a, true
			}
			return b, true
		case oka:
			return a, true
		case okb:
			return b, true
		}
	case "bvlshr":
		if t.Args[1].Op == "const" {
			a, ok := termUpperBound(t.Args[0])
			if !ok {
				a = mask(t.Sort.Width)
			}
			if t.Args[1].Val >= 64 {
				return 0, true
			}
			return a >> t.Args[1].Val, true
		}
	case "zero_extend":
		if a, ok := termUpperBound(t.Args[0]); ok {
			return a, true
		}
		return mask(t.Args[0].Sort.Width), true
	case "ite":
		a, oka := termUpperBound(t.Args[1])
		b, okb := termUpperBound(t.Args[2])
		if oka && okb {
			if a > b {
				return a, true
			}
			return b, true
		}
	case "tbl":
		var m uint64
		for _, v := range t.Table {
			if v > m {
				m = v
			}
		}
		return m, true
	case "var":
		if t.Sort.Width < 64 {
			return mask(t.Sort.Width), true
		}
	}
	if t.Sort.Width < 64 {
		return mask(t.Sort.Width), true
	}
	return 0, false
}
