//go:build verif

package queue

import (
	"encoding/json"
	"math/rand"
	"reflect"
	"testing"
	"unicode/utf8"

	vrt "github.com/nuetzliches/hookaido/internal/verifrt"
)

func jmCheck(t *testing.T, v string) {
	m := map[string]string{"k": v, v: "x"}
	real, err := json.Marshal(m)
	if err != nil {
		t.Fatalf("json.Marshal: %v", err)
	}
	model := vrt.JSONModelMarshalStringMap(m)
	if string(real) != string(model) {
		t.Fatalf("encode differs for %q: real %q model %q", v, real, model)
	}
	jmDecode(t, real)
}

func jmDecode(t *testing.T, doc []byte) {
	var want map[string]string
	err := json.Unmarshal(doc, &want)
	got, ok := vrt.JSONModelUnmarshalStringMap(doc)
	if (err == nil) != ok {
		t.Fatalf("decode verdict differs for %q: real err=%v model ok=%v", doc, err, ok)
	}
	if err == nil && !reflect.DeepEqual(want, got) && !(len(want) == 0 && len(got) == 0) {
		t.Fatalf("decode differs for %q: real %q model %q", doc, want, got)
	}
}

func TestVerifJSONModel(t *testing.T) {
	n := 0
	// every code point (valid scalar values), alone and between ASCII
	for r := rune(0); r <= utf8.MaxRune; r++ {
		if r >= 0xD800 && r < 0xE000 {
			continue
		}
		jmCheck(t, string(r))
		n++
	}
	// every 1- and 2-byte string (incl. invalid UTF-8), as value and as raw document content
	for a := 0; a < 256; a++ {
		jmCheck(t, string([]byte{byte(a)}))
		jmDecode(t, []byte{'{', '"', 'k', '"', ':', '"', byte(a), '"', '}'})
		for b := 0; b < 256; b++ {
			jmCheck(t, string([]byte{byte(a), byte(b)}))
			jmDecode(t, []byte{'{', '"', 'k', '"', ':', '"', byte(a), byte(b), '"', '}'})
			jmDecode(t, []byte{'{', '"', 'k', '"', ':', '"', '\\', byte(a), byte(b), '0', '0', '"', '}'})
			n += 3
		}
	}
	// random documents built from JSON-ish fragments (syntax errors, other value kinds, surrogates, white space)
	rng := rand.New(rand.NewSource(7))
	frags := []string{"{", "}", "\"", ":", ",", " ", "\n", "null", "true", "1", "[", "]", "\\u", "\\ud83d", "\\ude00", "\\udc00", "\\u00e9", "\\n", "\\/", "\\x", "k", "é", "\xff", "\xf3\xb0\x80\x80", "\\U000f0000", "00", "d8"}
	for i := 0; i < 300000; i++ {
		doc := ""
		for k := rng.Intn(9); k >= 0; k-- {
			doc += frags[rng.Intn(len(frags))]
		}
		jmDecode(t, []byte(doc))
		if rng.Intn(2) == 0 {
			jmDecode(t, []byte("{\"a\":\""+doc+"\"}"))
		}
		n++
	}
	// random maps
	for i := 0; i < 20000; i++ {
		m := map[string]string{}
		for k := rng.Intn(4); k > 0; k-- {
			b := make([]byte, rng.Intn(5))
			rng.Read(b)
			m[string(b[:len(b)/2])] = string(b)
		}
		real, _ := json.Marshal(m)
		if model := vrt.JSONModelMarshalStringMap(m); string(real) != string(model) {
			t.Fatalf("encode differs for %q: real %q model %q", m, real, model)
		}
		jmDecode(t, real)
		n++
	}
	t.Logf("VERIF-JSONMODEL-VALIDATION ok cases=%d", n)
}
