//go:build verif

package pullapi

// C07 at the pull HTTP endpoint: what the consumer reads is what was stored, byte for byte.

import (
	"net/http"
	"net/url"
	"time"

	"github.com/nuetzliches/hookaido/internal/queue"
	vrt "github.com/nuetzliches/hookaido/internal/verifrt"
)

const hB64 = "ABCDEFGHIJKLMNOPQRSTUVWXYZabcdefghijklmnopqrstuvwxyz0123456789+/"

// refB64: RFC 4648 base64 with padding, written from the RFC.
func refB64(p []byte) string {
	out := []byte{}
	for i := 0; i+3 <= len(p); i += 3 {
		a, b, c := p[i], p[i+1], p[i+2]
		out = append(out, hB64[a>>2], hB64[(a&3)<<4|b>>4], hB64[(b&15)<<2|c>>6], hB64[c&63])
	}
	switch len(p) % 3 {
	case 1:
		a := p[len(p)-1]
		out = append(out, hB64[a>>2], hB64[(a&3)<<4], '=', '=')
	case 2:
		a, b := p[len(p)-2], p[len(p)-1]
		out = append(out, hB64[a>>2], hB64[(a&3)<<4|b>>4], hB64[(b&15)<<2], '=')
	}
	return string(out)
}

// verif:harness props=C07 tier=quick weight=20
// verif:bounds POST <endpoint>/dequeue through the real ServeHTTP on a real MemoryStore holding one message whose payload is 0..4 arbitrary bytes (thorough 0..7; every byte value incl. NUL and invalid UTF-8) and which carries one stored header with a 1-byte symbolic value; the request is delivered, nacked and delivered again (redelivery); only the request-body JSON decoding is replaced; the response object handed to the JSON encoder is inspected (its wire encoding is encoding/json's)
func VerifC07PullHTTPPayloadFidelity() {
	max := 4
	if vrt.Thorough() {
		max = 7
	}
	now := time.Unix(1700000000, 0)
	ms := queue.NewMemoryStore(queue.WithNowFunc(func() time.Time { return now }))
	payload := vrt.Bytes("payload", max)
	hv := vrt.StringN("header-value", 1)
	stored := append([]byte{}, payload...)
	ok := ms.Enqueue(queue.Envelope{ID: "m1", Route: "/r", Target: "pull", Payload: stored, Headers: map[string]string{"X-A": hv}}) == nil
	vrt.Assert("C07.pullhttp.setup", ok)
	s := NewServer(ms)
	s.now = func() time.Time { return now }
	s.Authorize = func(*http.Request) bool { return true }
	s.ResolveRoute = func(endpoint string) (string, bool) { return "/r", endpoint == "/e" }
	vrt.Replace(decodeJSONBodyStrict, func(w http.ResponseWriter, r *http.Request, dst any, allowEmpty bool) bool {
		if d, ok := dst.(*dequeueRequest); ok {
			d.Batch = 1
		}
		return true
	})
	want := refB64(payload)
	for round := 0; round < 2; round++ {
		w := &hRW{}
		s.ServeHTTP(w, &http.Request{Method: "POST", URL: &url.URL{Path: "/e/dequeue"}, Header: http.Header{}, Body: http.NoBody})
		recs := vrt.JSONEncoded()
		okResp := false
		var item dequeueItem
		if len(recs) == round+1 {
			if resp, isResp := recs[round].(dequeueResponse); isResp && len(resp.Items) == 1 {
				okResp, item = true, resp.Items[0]
			}
		}
		vrt.Assert("C07.pullhttp.the-message-is-delivered", okResp)
		if !okResp {
			return
		}
		vrt.Assert("C07.pullhttp.payload_b64-is-base64-of-the-stored-bytes", item.PayloadB64 == want)
		vrt.Assert("C07.pullhttp.headers-as-stored", len(item.Headers) == 1 && item.Headers["X-A"] == hv)
		vrt.Assert("C07.pullhttp.identity-and-attempt", item.ID == "m1" && item.Route == "/r" && item.Attempt == round+1 && item.LeaseID != "")
		if round == 0 {
			vrt.Assert("C07.pullhttp.nack-for-redelivery", ms.Nack(item.LeaseID, 0) == nil)
		}
	}
}
