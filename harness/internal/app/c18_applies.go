//go:build verif

package app

import (
	"context"
	"net/http"
	"net/url"
	"strings"

	"google.golang.org/grpc/metadata"

	"github.com/nuetzliches/hookaido/internal/config"
	vrt "github.com/nuetzliches/hookaido/internal/verifrt"
)

// verif:harness props=C18,C12 tier=quick native=yes weight=40
// verif:bounds "reload == restart" for the per-route settings documented as reloadable: two generated configuration texts (the running one and the new one) with route /x in both and optionally a new route /y; per route one of 5 setting bundles combining max_body absent/16b/64b, max_headers absent/256b, auth none / hmac k1 / hmac k2 / basic, publish on/off, pull path /p1 or /p2; real Parse -> Compile -> newRuntimeState + loadAuth for the running one, real state.reload for the new one; afterwards every per-route lookup the servers use (size limits, targets, mode, publish switches, pull endpoint mapping, presence of HMAC / basic authenticators) answers exactly like a state built from the new configuration from scratch
func VerifC18SuccessfulReloadAppliesEveryReloadableSetting() {
	type rs struct{ body, hdr, auth, pub, pull int }
	menu := []rs{{0, 0, 0, 0, 0}, {1, 1, 1, 1, 1}, {2, 0, 2, 0, 0}, {0, 0, 3, 1, 0}, {1, 0, 0, 0, 1}}
	draw := func(tag string) rs { return menu[vrt.Choose(tag+"-settings", len(menu))] }
	routeText := func(path string, r rs, pullPrefix string) string {
		s := "\"" + path + "\" {\n"
		if v := []string{"", "16b", "64b"}[r.body]; v != "" {
			s += "  max_body " + v + "\n"
		}
		if r.hdr == 1 {
			s += "  max_headers 256b\n"
		}
		switch r.auth {
		case 1:
			s += "  auth hmac raw:k1\n"
		case 2:
			s += "  auth hmac raw:k2\n"
		case 3:
			s += "  auth basic \"u\" \"p\"\n"
		}
		if r.pub == 1 {
			s += "  publish off\n"
		}
		s += "  pull {\n    path \"" + pullPrefix + []string{"/p1", "/p2"}[r.pull] + "\"\n  }\n}\n"
		return s
	}
	head := "pull_api {\n  auth token raw:tok\n}\n"
	oldX, newX := draw("running-x"), draw("new-x")
	withY := vrt.Bool("new-config-adds-route-y")
	newY := rs{}
	if withY {
		newY = draw("new-y")
	}
	oldSrc := head + routeText("/x", oldX, "/pull/x")
	newSrc := head + routeText("/x", newX, "/pull/x")
	if withY {
		newSrc += routeText("/y", newY, "/pull/y")
	}
	compile := func(src string) (config.Compiled, bool) {
		cfg, err := config.Parse([]byte(src))
		if err != nil {
			return config.Compiled{}, false
		}
		c, res := config.Compile(cfg)
		return c, res.OK
	}
	oldC, ok1 := compile(oldSrc)
	newC, ok2 := compile(newSrc)
	vrt.Assert("C18.applies.both-texts-compile", ok1 && ok2)
	if !ok1 || !ok2 {
		return
	}
	state := newRuntimeState(oldC)
	vrt.Assert("C18.applies.running-auth-loads", state.loadAuth(oldC) == nil)
	vrt.Assert("C18.applies.reload-succeeds", state.reload(newC) == nil)
	fresh := newRuntimeState(newC)
	vrt.Assert("C18.applies.reference-auth-loads", fresh.loadAuth(newC) == nil)
	for _, route := range []string{"/x", "/y", "/zz"} {
		b1, h1 := state.limitsFor(route)
		b2, h2 := fresh.limitsFor(route)
		vrt.Assert("C12.applies.size-limits-are-the-new-ones", b1 == b2 && h1 == h2)
		vrt.Assert("C18.applies.targets-and-mode-are-the-new-ones", strings.Join(state.targetsFor(route), ",") == strings.Join(fresh.targetsFor(route), ",") && state.modeForRoute(route) == fresh.modeForRoute(route))
		p := state.publishEnabledForRoute(route) == fresh.publishEnabledForRoute(route) && state.publishDirectEnabledForRoute(route) == fresh.publishDirectEnabledForRoute(route) && state.publishManagedEnabledForRoute(route) == fresh.publishManagedEnabledForRoute(route)
		vrt.Assert("C18.applies.publish-switches-are-the-new-ones", p)
		a := (state.hmacAuthFor(route) == nil) == (fresh.hmacAuthFor(route) == nil) && (state.basicAuthFor(route) == nil) == (fresh.basicAuthFor(route) == nil) && (state.forwardAuthFor(route) == nil) == (fresh.forwardAuthFor(route) == nil)
		vrt.Assert("C18.applies.authenticators-present-exactly-where-the-new-configuration-declares-them", a)
	}
	for _, ep := range []string{"/pull/x/p1", "/pull/x/p2", "/pull/y/p1", "/pull/y/p2"} {
		r1, o1 := state.resolvePull(ep)
		r2, o2 := fresh.resolvePull(ep)
		vrt.Assert("C18.applies.pull-endpoints-map-as-in-the-new-configuration", r1 == r2 && o1 == o2)
	}
}

func hPullCfg(e1Route, e2Route string, tokens map[string]string) config.Compiled {
	c := config.Compiled{PathToRoute: map[string]string{"/e1": e1Route, "/e2": e2Route}, PullAPI: config.APIConfig{AuthTokens: []string{"raw:global-token"}}}
	for _, rt := range []string{"/a", "/b"} {
		ep := "/e1"
		if e2Route == rt {
			ep = "/e2"
		}
		c.Routes = append(c.Routes, config.CompiledRoute{Path: rt, Pull: &config.PullConfig{Path: ep, AuthTokens: []string{"raw:" + tokens[rt]}}})
	}
	return c
}

// verif:harness props=C18,C11 tier=quick weight=25
// verif:bounds a pull (HTTP) or worker (gRPC) authorisation decision racing a successful reload that remaps the endpoints /e1 and /e2 between routes /a and /b and may change their tokens: thread A = the real runtimeState.authorizePull / authorizeWorker for endpoint /e1 with a token from {old /a, old /b, new /a, new /b, global, none}, thread B = the real state.reload; every interleaving at mutex acquisitions; the verdict must be the one the OLD configuration gives or the one the NEW configuration gives
func VerifC18ReloadVsPullAuthorize() {
	oldTok := map[string]string{"/a": "ta-old", "/b": "tb-old"}
	newTok := map[string]string{"/a": []string{"ta-old", "ta-new"}[vrt.Choose("new-token-of-a", 2)], "/b": []string{"tb-old", "tb-new"}[vrt.Choose("new-token-of-b", 2)]}
	oldC := hPullCfg("/a", "/b", oldTok)
	newC := hPullCfg("/a", "/b", newTok)
	if vrt.Bool("reload-swaps-the-endpoints") {
		newC = hPullCfg("/b", "/a", newTok)
	}
	tok := []string{"ta-old", "tb-old", "ta-new", "tb-new", "global-token", ""}[vrt.Choose("presented-token", 6)]
	worker := vrt.Bool("worker-api")
	decide := func(st *runtimeState) bool {
		if worker {
			ctx := context.Background()
			if tok != "" {
				ctx = metadata.NewIncomingContext(ctx, metadata.Pairs("authorization", "Bearer "+tok))
			}
			return st.authorizeWorker(ctx, "/e1")
		}
		r := &http.Request{Method: "POST", URL: &url.URL{Path: "/e1/dequeue"}, Header: http.Header{}, Body: http.NoBody}
		if tok != "" {
			r.Header.Set("Authorization", "Bearer "+tok)
		}
		return st.authorizePull(r)
	}
	mk := func(c config.Compiled) *runtimeState {
		st := newRuntimeState(c)
		if err := st.loadAuth(c); err != nil {
			vrt.Assume(false)
		}
		return st
	}
	underOld, underNew := decide(mk(oldC)), decide(mk(newC))
	state := mk(oldC)
	var rerr error
	vrt.Go(func() { rerr = state.reload(newC) })
	got := decide(state)
	vrt.Join()
	vrt.Assert("C18.pullauth.reload-succeeds", rerr == nil)
	vrt.Assert("C18.pullauth.verdict-is-the-old-configurations-or-the-new-configurations", got == underOld || got == underNew)
	vrt.Assert("C18.pullauth.after-the-reload-the-new-configuration-decides", decide(state) == underNew)
}
