//go:build verif

package admin

import (
	"encoding/base64"
	"errors"
	"net/http"
	"net/url"

	"github.com/nuetzliches/hookaido/internal/httpheader"
	"github.com/nuetzliches/hookaido/internal/queue"
	vrt "github.com/nuetzliches/hookaido/internal/verifrt"
)

// recording store with batch support; the queue already holds a message "dup"
type hPubStore struct {
	queue.Store
	batches [][]queue.Envelope
	singles []queue.Envelope
	lookups int
}

func (s *hPubStore) EnqueueBatch(items []queue.Envelope) (int, error) {
	s.batches = append(s.batches, append([]queue.Envelope{}, items...))
	return len(items), nil
}
func (s *hPubStore) Enqueue(env queue.Envelope) error { s.singles = append(s.singles, env); return nil }
func (s *hPubStore) LookupMessages(req queue.MessageLookupRequest) (queue.MessageLookupResponse, error) {
	s.lookups++
	var out queue.MessageLookupResponse
	for _, id := range req.IDs {
		if id == "dup" {
			out.Items = append(out.Items, queue.MessageLookupItem{ID: "dup", Route: "/ok", State: queue.StateQueued})
		}
	}
	return out, nil
}

// item kinds: what is wrong with an item (0 = nothing)
const (
	pkOK = iota
	pkNoID
	pkSameIDAsFirst
	pkRouteNoSlash
	pkRouteNoTargets
	pkRouteDisabled
	pkPayloadTooLarge
	pkBadHeader
	pkBadBase64
	pkExistsInQueue
	pkNumKinds
)

func hPublishItem(kind int, n int) messagesPublishItem {
	it := messagesPublishItem{ID: []string{"a", "b", "c"}[n], Route: "/ok", PayloadB64: base64.StdEncoding.EncodeToString([]byte("xy")), Headers: map[string]string{"X-K": "v"}}
	switch kind {
	case pkNoID:
		it.ID = "  "
	case pkSameIDAsFirst:
		it.ID = "a"
	case pkRouteNoSlash:
		it.Route = "ok"
	case pkRouteNoTargets:
		it.Route = "/none"
	case pkRouteDisabled:
		it.Route = "/off"
	case pkPayloadTooLarge:
		it.Route = "/small" // max_body 1 on this route, the payload has 2 bytes
	case pkBadHeader:
		it.Headers = map[string]string{"Bad Name": "v"}
	case pkBadBase64:
		it.PayloadB64 = "@@@"
	case pkExistsInQueue:
		it.ID = "dup"
	}
	return it
}

func hPublishStatus(kind int) int {
	switch kind {
	case pkNoID, pkSameIDAsFirst, pkRouteNoSlash, pkRouteNoTargets, pkBadHeader, pkBadBase64:
		return 400
	case pkRouteDisabled:
		return 403
	case pkPayloadTooLarge:
		return 413
	case pkExistsInQueue:
		return 409
	}
	return 0
}

func hPublishServer(st queue.Store) *Server {
	s := NewServer(st)
	s.TargetsForRoute = func(route string) []string {
		switch route {
		case "/ok", "/off", "/small":
			return []string{"pull"}
		}
		return nil
	}
	s.PublishEnabledForRoute = func(route string) bool { return route != "/off" }
	s.LimitsForRoute = func(route string) (int64, int) {
		if route == "/small" {
			return 1, 0
		}
		return 0, 0
	}
	return s
}

// verif:harness props=C15 tier=quick weight=40
// verif:bounds POST /messages/publish with a batch of 1..3 decoded items (only the JSON decoding is replaced by a stub; the real request parser validates the items), each item independently: fine, blank id, same id as the first item, route without leading slash, route without targets, route with publish disabled, payload over the route's max_body, invalid header name, invalid base64, id that already exists in the queue; audit reason header present or absent; recording store with batch support
func VerifC15PublishAllOrNothing() {
	st := &hPubStore{}
	s := hPublishServer(st)
	n := 1 + vrt.Choose("items", 3)
	kinds := make([]int, n)
	items := make([]messagesPublishItem, n)
	for i := range items {
		kinds[i] = vrt.Choose("item-kind", pkNumKinds)
		items[i] = hPublishItem(kinds[i], i)
	}
	// only the JSON decoding is replaced: the real parsePublishItems validates the decoded items
	vrt.Replace(decodeJSONBodyStrict, func(r *http.Request, dst any) error {
		dst.(*messagesPublishRequest).Items = items
		return nil
	})
	hasReason := vrt.Choose("audit-reason", 2) == 1
	r := &http.Request{Method: "POST", URL: &url.URL{Path: "/messages/publish"}, Header: http.Header{}, Body: http.NoBody}
	if hasReason {
		r.Header.Set("X-Hookaido-Audit-Reason", "ticket-1")
	}
	w := &hRW{}
	s.ServeHTTP(w, r)
	stored := len(st.batches) + len(st.singles)
	if !hasReason {
		vrt.Assert("C15.publish.missing-audit-reason-refused-before-anything", w.status == 400 && stored == 0)
		return
	}
	// the first offending item: the request parser validates every item first (id present, unique within the request,
	// route spelled with a leading slash), then the per-item checks run in order, the lookup of existing ids last
	first, firstStatus := -1, 0
	for i, k := range kinds {
		dupInRequest := false
		for j := 0; j < i; j++ {
			if k != pkNoID && items[j].ID == items[i].ID {
				dupInRequest = true
			}
		}
		if k == pkNoID || k == pkRouteNoSlash || dupInRequest {
			first, firstStatus = i, 400
			break
		}
	}
	if first < 0 {
		for i, k := range kinds {
			if k != pkOK && k != pkSameIDAsFirst && k != pkExistsInQueue {
				first, firstStatus = i, hPublishStatus(k)
				break
			}
		}
	}
	if first < 0 {
		for i, k := range kinds {
			if k == pkExistsInQueue {
				first, firstStatus = i, 409
				break
			}
		}
	}
	if first >= 0 {
		vrt.Cover("publish.rejected")
		vrt.Assert("C15.publish.any-bad-item-means-nothing-is-enqueued", stored == 0)
		vrt.Assert("C15.publish.rejection-has-the-documented-status", w.status == firstStatus)
		// the structured error names the first offending item
		recs := vrt.JSONEncoded()
		okIdx := false
		if len(recs) == 1 {
			if resp, ok := recs[0].(publishErrorResponse); ok && resp.ItemIndex != nil {
				okIdx = *resp.ItemIndex == first
			}
		}
		vrt.Assert("C15.publish.error-names-the-first-offending-item", okIdx)
		return
	}
	vrt.Cover("publish.accepted")
	okBatch := len(st.batches) == 1 && len(st.singles) == 0 && len(st.batches[0]) == n && (w.status == 200 || w.status == 0)
	vrt.Assert("C15.publish.all-items-enqueued-in-one-batch", okBatch)
	if !okBatch {
		return
	}
	for i, env := range st.batches[0] {
		okEnv := env.State == queue.StateQueued && env.Route == "/ok" && env.Target == "pull" && string(env.Payload) == "xy" && env.Headers["X-K"] == "v" && env.LeaseID == "" && env.Attempt == 0
		okID := env.ID == items[i].ID
		vrt.Assert("C15.publish.message-shape-like-ingress-and-order-kept", okEnv && okID)
	}
}

// refTokenChar / refValueByte: RFC 7230 token characters and field-value bytes.
func refTokenChar(c byte) bool {
	if c >= '0' && c <= '9' || c >= 'a' && c <= 'z' || c >= 'A' && c <= 'Z' {
		return true
	}
	switch c {
	case '!', '#', '$', '%', '&', '\'', '*', '+', '-', '.', '^', '_', '`', '|', '~':
		return true
	}
	return false
}

func refValueByte(c byte) bool {
	// VCHAR, SP, HTAB, obs-text; no other control bytes, no DEL
	return c == '\t' || (c >= 0x20 && c != 0x7f)
}

// verif:harness props=C15 tier=quick native=yes weight=15
// verif:bounds one header with an ASCII name of 0..2 symbolic bytes and a value of 0..2 symbolic bytes (every byte value)
func VerifC15HeaderValidation() {
	name := vrt.String("name", 2)
	value := vrt.String("value", 2)
	for i := 0; i < len(name); i++ {
		vrt.Assume(name[i] < 0x80) // (names are trimmed with the Unicode-aware TrimSpace; bytes >= 0x80 are never token characters anyway)
	}
	err := httpheader.ValidateMap(map[string]string{name: value})
	okName := len(name) > 0
	for i := 0; i < len(name); i++ {
		okName = okName && refTokenChar(name[i])
	}
	okValue := true
	for i := 0; i < len(value); i++ {
		okValue = okValue && refValueByte(value[i])
	}
	vrt.Observe("valid", err == nil)
	vrt.Assert("C15.headers.valid-iff-rfc7230-token-and-field-value", (err == nil) == (okName && okValue))
}

// a store whose batch enqueue may be refused; an id refused as "exists" is then visible to lookups (another request won the race)
type hRacyPubStore struct {
	queue.Store
	outcome  int // 0 accepted, 1 ErrEnvelopeExists, 2 ErrQueueFull, 3 other error
	attempts int
	accepted int
	lookups  int
}

func (s *hRacyPubStore) EnqueueBatch(items []queue.Envelope) (int, error) {
	s.attempts++
	switch s.outcome {
	case 1:
		return 0, queue.ErrEnvelopeExists
	case 2:
		return 0, queue.ErrQueueFull
	case 3:
		return 0, errors.New("disk full")
	}
	s.accepted += len(items)
	return len(items), nil
}
func (s *hRacyPubStore) Enqueue(env queue.Envelope) error {
	_, err := s.EnqueueBatch([]queue.Envelope{env})
	return err
}
func (s *hRacyPubStore) LookupMessages(req queue.MessageLookupRequest) (queue.MessageLookupResponse, error) {
	s.lookups++
	var out queue.MessageLookupResponse
	if s.attempts > 0 && s.outcome == 1 {
		// after the refused insert the winner's row is there
		out.Items = append(out.Items, queue.MessageLookupItem{ID: "a", Route: "/ok", State: queue.StateQueued})
	}
	return out, nil
}

// verif:harness props=C01,C15 tier=quick weight=15
// verif:bounds POST /messages/publish and the endpoint-less global path with 2 acceptable items; the store's batch insert is accepted or refused (id exists because a concurrent publish won the race after the duplicate pre-check, queue full, other error) and lookups after a refused insert see the winner's row: the answer is 200 only if the store accepted the whole batch — a refused batch is never acknowledged
func VerifC01PublishAcknowledgesOnlyWhatTheStoreAccepted() {
	st := &hRacyPubStore{outcome: vrt.Choose("store-answer", 4)}
	s := hPublishServer(st)
	items := []messagesPublishItem{hPublishItem(pkOK, 0), hPublishItem(pkOK, 1)}
	vrt.Replace(decodeJSONBodyStrict, func(r *http.Request, dst any) error {
		dst.(*messagesPublishRequest).Items = items
		return nil
	})
	r := &http.Request{Method: "POST", URL: &url.URL{Path: "/messages/publish"}, Header: http.Header{}, Body: http.NoBody}
	r.Header.Set("X-Hookaido-Audit-Reason", "ticket-1")
	w := &hRW{}
	s.ServeHTTP(w, r)
	acknowledged := w.status == 200 || w.status == 0
	vrt.Assert("C01.publish.acknowledged-only-if-the-store-accepted-the-whole-batch", !acknowledged || st.accepted == 2)
	vrt.Assert("C15.publish.accepted-batch-is-acknowledged", st.outcome != 0 || acknowledged)
	if st.outcome != 0 {
		vrt.Assert("C15.publish.refused-batch-has-an-error-status", w.status == 409 || w.status == 503 || w.status == 500)
	}
}
