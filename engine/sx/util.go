package sx

import (
	"fmt"
	"go/types"
)

func mustDeref(t types.Type) types.Type {
	if p, ok := t.Underlying().(*types.Pointer); ok {
		return p.Elem()
	}
	panic(fmt.Sprintf("mustDeref: %v is not a pointer", t))
}
