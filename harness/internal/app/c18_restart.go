//go:build verif

package app

import (
	"strings"

	"github.com/nuetzliches/hookaido/internal/config"
	vrt "github.com/nuetzliches/hookaido/internal/verifrt"
)

// hRestartBase renders a configuration text from named settings; a variant overrides exactly one of them.
type hCfg map[string]string

func hRestartText(c hCfg) string {
	get := func(k, def string) string {
		if v, ok := c[k]; ok {
			return v
		}
		return def
	}
	opt := func(indent, directive, k string) string {
		if v, ok := c[k]; ok && v != "" {
			return indent + directive + " " + v + "\n"
		}
		return ""
	}
	var b strings.Builder
	b.WriteString("ingress {\n  listen " + get("ingress.listen", ":8080") + "\n}\n")
	b.WriteString("pull_api {\n  listen " + get("pull.listen", ":9443") + "\n  auth token raw:t\n")
	b.WriteString(opt("  ", "grpc_listen", "pull.grpc_listen") + opt("  ", "prefix", "pull.prefix") + opt("  ", "max_batch", "pull.max_batch"))
	b.WriteString(opt("  ", "default_lease_ttl", "pull.default_lease_ttl") + opt("  ", "max_lease_ttl", "pull.max_lease_ttl"))
	b.WriteString(opt("  ", "default_max_wait", "pull.default_max_wait") + opt("  ", "max_wait", "pull.max_wait") + "}\n")
	b.WriteString("admin_api {\n  listen " + get("admin.listen", "127.0.0.1:2019") + "\n" + opt("  ", "prefix", "admin.prefix") + "}\n")
	b.WriteString("queue_limits {\n  max_depth " + get("limits.max_depth", "100") + "\n  drop_policy " + get("limits.drop_policy", "reject") + "\n}\n")
	b.WriteString("queue_retention {\n  max_age " + get("retention.max_age", "7d") + "\n  prune_interval " + get("retention.prune_interval", "5m") + "\n}\n")
	b.WriteString("delivered_retention {\n  max_age " + get("delivered.max_age", "off") + "\n}\n")
	b.WriteString("dlq_retention {\n  max_age " + get("dlq.max_age", "30d") + "\n  max_depth " + get("dlq.max_depth", "100") + "\n}\n")
	b.WriteString("defaults {\n  max_body " + get("defaults.max_body", "2mb") + "\n  max_headers " + get("defaults.max_headers", "64kb") + "\n")
	b.WriteString("  egress {\n    https_only " + get("egress.https_only", "on") + "\n    redirects " + get("egress.redirects", "off") + "\n    dns_rebind_protection " + get("egress.rebind", "on") + "\n" + opt("    ", "allow", "egress.allow") + opt("    ", "deny", "egress.deny") + "  }\n")
	b.WriteString("  publish_policy {\n    direct " + get("publish.direct", "on") + "\n    require_actor " + get("publish.require_actor", "off") + "\n  }\n}\n")
	if get("route.pull", "yes") == "yes" {
		b.WriteString("/a {\n  queue { backend " + get("queue.backend", "sqlite") + " }\n  pull {\n    path /pa\n  }\n}\n")
	}
	if get("route.deliver", "yes") == "yes" {
		b.WriteString("/d {\n  queue { backend " + get("queue.backend", "sqlite") + " }\n  deliver \"" + get("deliver.url", "https://t.example/h") + "\" {\n")
		b.WriteString("    retry exponential max " + get("deliver.retry_max", "3") + " base 1s cap 10s jitter 0.2\n    timeout " + get("deliver.timeout", "5s") + "\n")
		b.WriteString(opt("    ", "sign hmac", "deliver.sign") + "  }\n" + opt("  ", "deliver_concurrency", "deliver.concurrency") + "}\n")
	}
	// a route whose settings ARE live-reloadable (so that a reload has something to switch)
	if get("route.live", "yes") == "yes" {
		b.WriteString("/live {\n  queue { backend " + get("queue.backend", "sqlite") + " }\n  pull {\n    path " + get("live.pull_path", "/plive") + "\n  }\n}\n")
	}
	return b.String()
}

// the documented "Restart Required" table (docs/configuration.md), one changed setting per row
var hRestartRows = []struct{ key, val string }{
	{"ingress.listen", ":8081"},
	{"pull.listen", ":9444"},
	{"pull.grpc_listen", "127.0.0.1:9943"},
	{"admin.listen", "127.0.0.1:2020"},
	{"pull.prefix", "/pull"},
	{"admin.prefix", "/admin"},
	{"pull.max_batch", "7"},
	{"pull.default_lease_ttl", "45s"},
	{"pull.max_lease_ttl", "5m"},
	{"pull.default_max_wait", "2s"},
	{"pull.max_wait", "30s"},
	{"defaults.max_body", "1mb"},
	{"defaults.max_headers", "32kb"},
	{"publish.direct", "off"},
	{"publish.require_actor", "on"},
	{"deliver.url", "https://other.example/h"},
	{"deliver.retry_max", "5"},
	{"deliver.timeout", "9s"},
	{"deliver.concurrency", "3"},
	{"deliver.sign", "raw:k"},
	{"egress.https_only", "off"},
	{"egress.redirects", "on"},
	{"egress.rebind", "off"},
	{"egress.allow", "\"*.example.com\""},
	{"egress.deny", "\"10.0.0.0/8\""},
	{"queue.backend", "memory"},
	{"limits.max_depth", "50"},
	{"limits.drop_policy", "drop_oldest"},
	{"retention.max_age", "1d"},
	{"retention.prune_interval", "1m"},
	{"delivered.max_age", "1h"},
	{"dlq.max_age", "1d"},
	{"dlq.max_depth", "5"},
	{"route.pull", "no"},    // removing the last... (the /live pull route stays: see below)
	{"route.deliver", "no"}, // removing the last deliver route
}

// verif:harness props=C18 tier=quick native=yes weight=60
// verif:bounds the documented "Restart Required" table: a base configuration TEXT (ingress, pull_api, admin_api, queue limits, the three retention blocks, defaults with egress and publish policy, a pull route, a deliver route, a live-reloadable route) rendered in 8 contexts (queue retention on/off, delivered retention on/off, DLQ retention on/off) and, for each of 35 rows, the same text with that ONE setting changed (plus a live-reloadable change riding along or not); real Parse and Compile on both texts, real requiresRestartForReload
func VerifC18RestartRequiredTable() {
	base := hCfg{}
	if vrt.Choose("queue-retention-off", 2) == 1 {
		base["retention.max_age"] = "off"
	}
	if vrt.Choose("delivered-retention-on", 2) == 1 {
		base["delivered.max_age"] = "2h"
	}
	if vrt.Choose("dlq-retention-off", 2) == 1 {
		base["dlq.max_age"] = "off"
		base["dlq.max_depth"] = "0"
	}
	row := hRestartRows[vrt.Choose("row", len(hRestartRows))]
	if base[row.key] == row.val {
		return
	}
	if row.key == "route.pull" {
		base["route.live"] = "no" // so that /a is the LAST pull route
	}
	variant := hCfg{}
	for k, v := range base {
		variant[k] = v
	}
	variant[row.key] = row.val
	if vrt.Choose("live-change-rides-along", 2) == 1 {
		variant["live.pull_path"] = "/plive2"
	}
	oldCfg, err1 := config.Parse([]byte(hRestartText(base)))
	newCfg, err2 := config.Parse([]byte(hRestartText(variant)))
	vrt.Assert("C18.restart.texts-parse", err1 == nil && err2 == nil)
	if err1 != nil || err2 != nil {
		return
	}
	running, r1 := config.Compile(oldCfg)
	compiled, r2 := config.Compile(newCfg)
	vrt.Assert("C18.restart.base-compiles", r1.OK)
	if !r1.OK || !r2.OK {
		if r1.OK && !r2.OK {
			// a reload that does not compile changes nothing either (VerifC18FailedReloadChangesNothing)
			vrt.Observe("variant-refused-by-compile", true)
		}
		return
	}
	vrt.Cover("restart.pair-compiled")
	need := requiresRestartForReload(compiled, running)
	vrt.Observe("needs-restart", need)
	vrt.Assert("C18.restart.documented-restart-required-setting-is-never-applied-live", need)
	// and the other direction of the same change
	vrt.Assert("C18.restart.symmetric", requiresRestartForReload(running, compiled))
}
