//go:build verif

package workerapi

import (
	"context"
	"time"

	"google.golang.org/grpc/codes"
	"google.golang.org/grpc/metadata"
	"google.golang.org/grpc/status"
	"google.golang.org/protobuf/types/known/durationpb"

	"github.com/nuetzliches/hookaido/internal/pullapi"
	"github.com/nuetzliches/hookaido/internal/queue"
	workerapipb "github.com/nuetzliches/hookaido/internal/workerapi/proto"

	vrt "github.com/nuetzliches/hookaido/internal/verifrt"
)

func isBlank(c byte) bool { return c == ' ' || (c >= '\t' && c <= '\r') }

func lower(c byte) byte {
	if c >= 'A' && c <= 'Z' {
		return c + 32
	}
	return c
}

// refParseBearer: trimmed value = "bearer " (any case) + non-blank token (trimmed).
func refParseBearer(raw string) (string, bool) {
	i, j := 0, len(raw)
	for i < j && isBlank(raw[i]) {
		i++
	}
	for j > i && isBlank(raw[j-1]) {
		j--
	}
	h := raw[i:j]
	const p = "bearer "
	if len(h) < len(p) {
		return "", false
	}
	for k := 0; k < len(p); k++ {
		if lower(h[k]) != p[k] {
			return "", false
		}
	}
	rest := h[len(p):]
	a, b := 0, len(rest)
	for a < b && isBlank(rest[a]) {
		a++
	}
	for b > a && isBlank(rest[b-1]) {
		b--
	}
	if a == b {
		return "", false
	}
	return rest[a:b], true
}

// verif:harness props=C11 tier=quick native=yes weight=25
// verif:bounds gRPC metadata authorization value: any ASCII string of 0..8 bytes (thorough 0..10)
func VerifC11WorkerParseBearer() {
	max := 8
	if vrt.Thorough() {
		max = 10
	}
	raw := vrt.String("authorization", max)
	for i := 0; i < len(raw); i++ {
		vrt.Assume(raw[i] < 0x80)
	}
	got, ok := parseBearerToken(raw)
	want, wantOK := refParseBearer(raw)
	vrt.Observe("ok", ok)
	vrt.Assert("C11.worker.parse-bearer", ok == wantOK && got == want)
}

// verif:harness props=C11 tier=quick native=yes weight=15
// verif:bounds one configured token "tk1"; metadata absent, or 1..2 authorization values each from {correct, prefix of it, suffixed, other case, other scheme, empty}
func VerifC11WorkerBearer() {
	auth := BearerTokenAuthorizer([][]byte{[]byte("tk1")})
	menu := []string{"Bearer tk1", "Bearer tk", "Bearer tk1x", "Bearer TK1", "Basic tk1", ""}
	ctx := context.Background()
	n := vrt.Choose("values", 3)
	anyGood := false
	if n > 0 {
		var vals []string
		for i := 0; i < n; i++ {
			k := vrt.Choose("value", len(menu))
			vals = append(vals, menu[k])
			if k == 0 {
				anyGood = true
			}
		}
		ctx = metadata.NewIncomingContext(ctx, metadata.MD{"authorization": vals})
	}
	got := auth(ctx, "/e")
	vrt.Observe("authorized", got)
	vrt.Assert("C11.worker.authorized-iff-some-value-carries-the-exact-token", got == anyGood)
}

type hStore struct {
	queue.Store
	calls int
}

func (s *hStore) Ack(string) error                   { s.calls++; return nil }
func (s *hStore) Nack(string, time.Duration) error   { s.calls++; return nil }
func (s *hStore) Extend(string, time.Duration) error { s.calls++; return nil }
func (s *hStore) MarkDead(string, string) error      { s.calls++; return nil }
func (s *hStore) Dequeue(queue.DequeueRequest) (queue.DequeueResponse, error) {
	s.calls++
	return queue.DequeueResponse{}, nil
}

// verif:harness props=C11 tier=quick native=yes weight=15
// verif:bounds each of Dequeue / Ack / Nack / Extend (well-formed requests) with Authorize answering arbitrarily and the endpoint configured, not configured, or a non-canonical spelling of the configured one (trailing slash, double slash, dot segments); the endpoint string handed to Authorize and the one handed to route resolution are compared
func VerifC11WorkerAuthorizeFirst() {
	st := &hStore{}
	s := NewServer(pullapi.NewServer(st))
	authorized := vrt.Bool("authorized")
	asked := 0
	var authFor, resolvedFor []string
	s.Authorize = func(_ context.Context, endpoint string) bool {
		asked++
		authFor = append(authFor, endpoint)
		return authorized
	}
	s.ResolveRoute = func(endpoint string) (string, bool) {
		resolvedFor = append(resolvedFor, endpoint)
		return "/r", endpoint == "/e"
	}
	ep := []string{"/e", "/zz", "/e/", "//e", "/e/.", "/zz/../e"}[vrt.Choose("endpoint", 6)]
	ctx := context.Background()
	var err error
	switch vrt.Choose("op", 4) {
	case 0:
		_, err = s.Dequeue(ctx, &workerapipb.DequeueRequest{Endpoint: ep, Batch: 1})
	case 1:
		_, err = s.Ack(ctx, &workerapipb.AckRequest{Endpoint: ep, LeaseId: "L1"})
	case 2:
		_, err = s.Nack(ctx, &workerapipb.NackRequest{Endpoint: ep, LeaseId: "L1"})
	case 3:
		_, err = s.Extend(ctx, &workerapipb.ExtendRequest{Endpoint: ep, LeaseId: "L1", ExtendBy: durationpb.New(time.Second)})
	}
	if st.calls > 0 {
		vrt.Cover("worker.store-touched")
		vrt.Assert("C11.worker.queue-touched-only-after-authorize-said-yes", authorized && asked == 1 && ep == "/e")
	}
	// the endpoint whose credentials were checked is the endpoint that is served (no second spelling of it)
	sameEndpoint := true
	for _, a := range authFor {
		for _, r := range resolvedFor {
			sameEndpoint = sameEndpoint && a == r
		}
	}
	vrt.Assert("C11.worker.authorized-endpoint-is-the-resolved-endpoint", sameEndpoint)
	if !authorized {
		vrt.Assert("C11.worker.unauthorized-is-Unauthenticated-and-touches-nothing", status.Code(err) == codes.Unauthenticated && st.calls == 0)
	}
}
