import json,jsonschema,sys,glob
es=json.load(open('/root/.vp/EVIDENCE.schema.json'))
for f in sorted(glob.glob('/verif/evidence/*.json')):
    try:
        jsonschema.validate(json.load(open(f)),es); print(f,'valid')
    except Exception as e: print(f,'INVALID',str(e)[:300])
jsonschema.validate(json.load(open('/verif/MANIFEST.json')),json.load(open('/root/.vp/MANIFEST.schema.json'))); print('MANIFEST valid')
