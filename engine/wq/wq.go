// Package wq: a work queue of decision prefixes shared by the interpreter copies that explore
// one harness together (dynamic load balancing; a prefix can be executed by any copy).
package wq

import (
	"sync"
	"sync/atomic"
)

type Queue struct {
	mu      sync.Mutex
	cond    *sync.Cond
	items   [][]int
	active  int
	waiting int
	done    bool
	Paths   atomic.Int64
	Stop    atomic.Bool
}

// New returns a queue seeded with the root prefix for the given number of workers.
func New(workers int) *Queue {
	q := &Queue{active: workers, items: [][]int{nil}}
	q.cond = sync.NewCond(&q.mu)
	return q
}

// Get blocks until a prefix is available (true) or every worker is idle and the queue is empty (false).
func (q *Queue) Get() ([]int, bool) {
	q.mu.Lock()
	defer q.mu.Unlock()
	q.active--
	for {
		if q.done || q.Stop.Load() {
			q.done = true
			q.cond.Broadcast()
			return nil, false
		}
		if n := len(q.items); n > 0 {
			p := q.items[n-1]
			q.items = q.items[:n-1]
			q.active++
			return p, true
		}
		if q.active == 0 {
			q.done = true
			q.cond.Broadcast()
			return nil, false
		}
		q.waiting++
		q.cond.Wait()
		q.waiting--
	}
}

// Hungry reports whether idle workers are waiting for work.
func (q *Queue) Hungry() bool {
	q.mu.Lock()
	defer q.mu.Unlock()
	return q.waiting > len(q.items)
}

func (q *Queue) Put(p []int) {
	q.mu.Lock()
	q.items = append(q.items, p)
	q.mu.Unlock()
	q.cond.Signal()
}

// Leave is called by a worker that stops while still counted active (limit reached, panic): it hands
// back its pending prefixes so that the others can finish or stop.
func (q *Queue) Leave(remaining [][]int) {
	q.mu.Lock()
	q.active--
	if !q.Stop.Load() {
		q.items = append(q.items, remaining...)
	}
	if q.active == 0 && len(q.items) == 0 {
		q.done = true
	}
	q.mu.Unlock()
	q.cond.Broadcast()
}
