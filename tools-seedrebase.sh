#!/bin/bash
# usage: tools-seedrebase.sh <seed dir>   — rebases patch.diff (made on the pinned snapshot) onto /repo HEAD by 3-way merge
d="$1"
wt=/tmp/wt-rebase-$$
git -C /repo worktree add -q --detach $wt HEAD || exit 3
trap "git -C /repo worktree remove --force $wt; git -C /repo worktree prune" EXIT
cd $wt
[ -f "$d/patch.orig.diff" ] || cp "$d/patch.diff" "$d/patch.orig.diff"
if git apply --3way "$d/patch.orig.diff" >/tmp/rebase-$$.log 2>&1; then
  git diff HEAD > "$d/patch.diff"
  echo "rebased $d: $(grep -c '^@@' $d/patch.diff) hunks"
else
  echo "CONFLICT $d: $(tail -2 /tmp/rebase-$$.log | tr '\n' ' ')"
fi
rm -f /tmp/rebase-$$.log
