package main

import (
	"fmt"
	"os"
	"path/filepath"
	"regexp"
	"sort"
	"strconv"
	"strings"
)

// Harness is one Verif* function with its annotation:
//
//	// verif:harness props=C04,C02 tier=quick native=yes shards=4 weight=20 maxpaths=50000
//	// verif:bounds N=2 items, lease ids from {current, stale, unknown, blank}
//	func VerifC04AckFencing() {
type Harness struct {
	Props    []string
	TProps   []string // properties this harness serves in the thorough tier only
	TOnly    []string // if set: thorough BOUNDS apply only when checking one of these properties (elsewhere the quick bounds run)
	Pkg      string // directory relative to the repo root, e.g. internal/queue
	Fn       string
	Tier     string // quick: runs in both tiers; thorough: thorough tier only
	Native   bool   // replayable against the natively compiled code
	Shards   int
	ShardsT  int // shards in the thorough tier (default = Shards)
	Weight   int // rough seconds, for scheduling
	MaxPaths int
	MaxSteps int64 // interpreter steps per path (default 4e6)
	Bounds   string
	File     string
	ExpectAbort []string // abort reasons (substring) that are part of the stated bounds
	QTimeout int
	ShardDepth int
}

var annRe = regexp.MustCompile(`(?m)^// verif:harness (.*)\n((?://.*\n)*)func (Verif\w+)\(\)`)

func scanHarnesses() ([]Harness, error) {
	var out []Harness
	root := filepath.Join(verifRoot, "harness")
	err := filepath.Walk(root, func(p string, info os.FileInfo, err error) error {
		if err != nil || info.IsDir() || !strings.HasSuffix(p, ".go") || strings.HasSuffix(p, "_test.go") {
			return err
		}
		b, err := os.ReadFile(p)
		if err != nil {
			return err
		}
		rel, _ := filepath.Rel(root, filepath.Dir(p))
		for _, m := range annRe.FindAllStringSubmatch(string(b), -1) {
			h := Harness{Pkg: rel, Fn: m[3], Tier: "quick", Native: false, Shards: 1, Weight: 5, File: p}
			for _, kv := range strings.Fields(m[1]) {
				k, v, _ := strings.Cut(kv, "=")
				switch k {
				case "props":
					h.Props = strings.Split(v, ",")
				case "tprops":
					h.TProps = strings.Split(v, ",")
				case "tier":
					h.Tier = v
				case "tonly":
					h.TOnly = strings.Split(v, ",")
				case "native":
					h.Native = v == "yes" || v == "true"
				case "shards":
					h.Shards, _ = strconv.Atoi(v)
				case "tshards":
					h.ShardsT, _ = strconv.Atoi(v)
				case "weight":
					h.Weight, _ = strconv.Atoi(v)
				case "maxpaths":
					h.MaxPaths, _ = strconv.Atoi(v)
				case "maxsteps":
					h.MaxSteps, _ = strconv.ParseInt(v, 10, 64)
				case "sharddepth":
					h.ShardDepth, _ = strconv.Atoi(v)
				case "qtimeout":
					h.QTimeout, _ = strconv.Atoi(v)
				default:
					return fmt.Errorf("%s: %s: unknown annotation key %q", p, h.Fn, k)
				}
			}
			for _, line := range strings.Split(m[2], "\n") {
				line = strings.TrimSpace(strings.TrimPrefix(line, "//"))
				if rest, ok := strings.CutPrefix(line, "verif:bounds "); ok {
					h.Bounds = strings.TrimSpace(h.Bounds + " " + rest)
				}
				if rest, ok := strings.CutPrefix(line, "verif:expect-abort "); ok {
					h.ExpectAbort = append(h.ExpectAbort, strings.TrimSpace(rest))
				}
			}
			if h.ShardsT == 0 {
				h.ShardsT = h.Shards
			}
			if len(h.Props) == 0 {
				return fmt.Errorf("%s: %s: no props", p, h.Fn)
			}
			out = append(out, h)
		}
		return nil
	})
	sort.Slice(out, func(i, j int) bool {
		if out[i].Pkg != out[j].Pkg {
			return out[i].Pkg < out[j].Pkg
		}
		return out[i].Fn < out[j].Fn
	})
	return out, err
}

// overlayFor builds the go/packages (and go build) overlay for the given harness package dirs.
// Returned map: virtual path under the repo -> real file.
func overlayFiles(pkgs []string) (map[string]string, error) {
	ov := map[string]string{
		filepath.Join(repoRoot, "internal/verifrt/rt.go"): filepath.Join(verifRoot, "rt/rt.go"),
	}
	if _, err := os.Stat(filepath.Join(verifRoot, "sqlmodel/sql.go")); err == nil {
		ov[filepath.Join(repoRoot, "internal/verifsql/sql.go")] = filepath.Join(verifRoot, "sqlmodel/sql.go")
	}
	for _, pkg := range pkgs {
		dir := filepath.Join(verifRoot, "harness", pkg)
		ents, err := os.ReadDir(dir)
		if err != nil {
			return nil, err
		}
		for _, e := range ents {
			if e.IsDir() || !strings.HasSuffix(e.Name(), ".go") {
				continue
			}
			virt := filepath.Join(repoRoot, pkg, "zz_verif_"+e.Name())
			if _, skip := skippedOverlay[virt]; skip {
				continue
			}
			ov[virt] = filepath.Join(dir, e.Name())
		}
	}
	return ov, nil
}
