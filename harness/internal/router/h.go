//go:build verif

package router

import vrt "github.com/nuetzliches/hookaido/internal/verifrt"

// refMatch is the property's rule: equal, or route "/", or the route followed by a '/'.
func refMatch(req, route string) bool {
	if route == "" {
		return false
	}
	if route == "/" {
		return true
	}
	if len(req) < len(route) {
		return false
	}
	for i := 0; i < len(route); i++ {
		if req[i] != route[i] {
			return false
		}
	}
	if len(req) == len(route) {
		return true
	}
	return req[len(route)] == '/'
}

// verif:harness props=C10 tier=quick native=yes weight=2
// verif:bounds request path <= 4 bytes (thorough 7), route path <= 3 bytes (thorough 5), every byte value
func VerifC10MatchPath() {
	lr, lp := 4, 3
	if vrt.Thorough() {
		lr, lp = 7, 5
	}
	req := vrt.String("req", lr)
	route := vrt.String("route", lp)
	got := MatchPath(req, route)
	vrt.Observe("match", got)
	vrt.Assert("C10.matchpath", got == refMatch(req, route))
}
