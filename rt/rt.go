// Package verifrt: nondeterministic inputs, assumptions and assertions for verification
// harnesses. The symbolic engine (gosym) intercepts every exported function of this package;
// the bodies below are the NATIVE TWIN: compiled with `go test -tags verif -overlay ...` they
// replay a recorded solver model (a JSON list with one record per nondet call, in call order)
// against the natively compiled real code.
package verifrt

import (
	"crypto/hmac"
	"crypto/sha256"
	"database/sql"
	"encoding/json"
	"fmt"
	"net/http"
	"os"
	"path/filepath"
	"sort"
	"strings"
	"testing"
	"time"
)

type Rec struct {
	K string `json:"k"`
	L string `json:"l"`
	V int64  `json:"v"`
	B []int  `json:"b,omitempty"`
}

type AssertRec struct {
	Label string `json:"label"`
	OK    bool   `json:"ok"`
}

type ObsRec struct {
	Label string  `json:"label"`
	V     []int64 `json:"v"`
}

// ReplayFile is what gosym writes for the native twin.
type ReplayFile struct {
	Harness  string `json:"harness"`
	Tier     string `json:"tier"`
	Script   []Rec  `json:"script"`
	Kind     string `json:"kind,omitempty"`
	Label    string `json:"label,omitempty"`
	Expect   *Outcome `json:"expect,omitempty"`
}

// Outcome is what one run of a harness produced.
type Outcome struct {
	Asserts  []AssertRec `json:"asserts"`
	Observes []ObsRec    `json:"observes"`
	Covers   []string    `json:"covers,omitempty"`
	Failed   string      `json:"failed,omitempty"` // label of the first failing assertion
	Panic    string      `json:"panic,omitempty"`
	AssumeViolated bool  `json:"assume_violated,omitempty"`
}

var (
	script   []Rec
	pos      int
	thorough bool
	out      *Outcome
)

type assertFailed struct{ label string }
type AssumptionViolated struct{}

func next(kind, label string) Rec {
	if pos >= len(script) {
		panic(fmt.Sprintf("verifrt: replay script exhausted at %s(%q)", kind, label))
	}
	r := script[pos]
	pos++
	if r.K != kind {
		panic(fmt.Sprintf("verifrt: replay divergence at #%d: script has %s(%q), harness asks %s(%q)", pos-1, r.K, r.L, kind, label))
	}
	return r
}

// RunScript runs fn natively against one recorded script.
func RunScript(s []Rec, tier string, fn func()) (res Outcome) {
	script, pos, thorough = s, 0, tier == "thorough"
	out = &res
	defer func() {
		out = nil
		if r := recover(); r != nil {
			switch r := r.(type) {
			case assertFailed:
				res.Failed = r.label
			case AssumptionViolated:
				res.AssumeViolated = true
			default:
				res.Panic = fmt.Sprint(r)
			}
		}
	}()
	fn()
	return
}

// RunReplays is called by the generated TestVerifReplay: it runs every replay file in
// $VERIF_REPLAY_DIR whose harness is in fns and writes <file>.out with the native outcome.
func RunReplays(t *testing.T, fns map[string]func()) {
	dir := os.Getenv("VERIF_REPLAY_DIR")
	if dir == "" {
		t.Skip("VERIF_REPLAY_DIR not set")
	}
	files, _ := filepath.Glob(filepath.Join(dir, "*.json"))
	sort.Strings(files)
	for _, f := range files {
		b, err := os.ReadFile(f)
		if err != nil {
			t.Fatal(err)
		}
		var rf ReplayFile
		if err := json.Unmarshal(b, &rf); err != nil {
			t.Fatalf("%s: %v", f, err)
		}
		fn := fns[rf.Harness]
		if fn == nil {
			continue
		}
		res := RunScript(rf.Script, rf.Tier, fn)
		ob, _ := json.Marshal(res)
		if err := os.WriteFile(strings.TrimSuffix(f, ".json")+".out", ob, 0o644); err != nil {
			t.Fatal(err)
		}
	}
}

// Thorough reports whether the thorough tier's bounds are in force (concrete in both worlds).
func Thorough() bool { return thorough }

func Int(label string) int           { return int(next("int", label).V) }
func Int64(label string) int64       { return next("int64", label).V }
func Byte(label string) byte         { return byte(next("byte", label).V) }
func Bool(label string) bool         { return next("bool", label).V != 0 }
func Choose(label string, n int) int { return int(next("choose", label).V) }

// String returns an arbitrary string of length 0..max (every byte value).
func String(label string, max int) string {
	r := next("string", label)
	b := make([]byte, len(r.B))
	for i, x := range r.B {
		b[i] = byte(x)
	}
	return string(b)
}

// StringN returns an arbitrary string of exactly n bytes.
func StringN(label string, n int) string { return String(label, n) }

// Bytes / BytesN: like String/StringN for []byte.
func Bytes(label string, max int) []byte { return []byte(String(label, max)) }
func BytesN(label string, n int) []byte  { return []byte(String(label, n)) }

// Time returns an arbitrary instant in [1970, ~2116]; Duration an arbitrary duration in (-2^62, 2^61).
func Time(label string) time.Time         { return time.Unix(0, next("time", label).V).UTC() }
func Duration(label string) time.Duration { return time.Duration(next("duration", label).V) }

func Assume(c bool) {
	if !c {
		panic(AssumptionViolated{})
	}
}

// Assert records the outcome; a failing assertion ends the native run.
func Assert(label string, c bool) {
	if out != nil {
		out.Asserts = append(out.Asserts, AssertRec{label, c})
	}
	if !c {
		panic(assertFailed{label})
	}
}

// Cover marks a point every harness run is expected to be able to reach (vacuity guard).
func Cover(label string) {
	if out != nil {
		out.Covers = append(out.Covers, label)
	}
}

// KnownFinding declares the discriminator of a recorded finding for the rest of the path.
func KnownFinding(id string, cond bool) {}

// Observe records a value for translator validation: the interpreter's prediction under the
// witness model must equal what the native run computes.
func Observe(label string, v any) {
	if out == nil {
		return
	}
	out.Observes = append(out.Observes, ObsRec{label, flatten(v)})
}

func flatten(v any) []int64 {
	switch x := v.(type) {
	case bool:
		if x {
			return []int64{1}
		}
		return []int64{0}
	case int:
		return []int64{int64(x)}
	case int64:
		return []int64{x}
	case int32:
		return []int64{int64(x)}
	case uint8:
		return []int64{int64(x)}
	case uint64:
		return []int64{int64(x)}
	case uint32:
		return []int64{int64(x)}
	case time.Duration:
		return []int64{int64(x)}
	case string:
		o := make([]int64, 0, len(x)+1)
		o = append(o, int64(len(x)))
		for i := 0; i < len(x); i++ {
			o = append(o, int64(x[i]))
		}
		return o
	case []byte:
		return flatten(string(x))
	case time.Time:
		if x.IsZero() {
			return []int64{0, 0}
		}
		return []int64{1, x.UnixNano()}
	case error:
		if x == nil {
			return []int64{0}
		}
		return []int64{1}
	case nil:
		return []int64{0}
	}
	panic(fmt.Sprintf("verifrt.Observe: unsupported type %T", v))
}

// Event / Trace: harness-visible event log (the engine also appends stub events).
var events []string

func Event(name string)  { events = append(events, name) }
func Trace() []string    { return events }
func ResetTrace()        { events = nil }

// ---- crypto as uninterpreted functions (engine) / real crypto (native) ----

// HMACModel stands in for crypto/hmac's hash.Hash; the engine maps hmac.New to it
// and treats HMACSHA256 / SHA256 as uninterpreted functions.
type HMACModel struct{ Key, Msg []byte }

func NewHMACModel(key []byte) *HMACModel {
	return &HMACModel{Key: append([]byte(nil), key...)}
}
func (h *HMACModel) Write(p []byte) (int, error) { h.Msg = append(h.Msg, p...); return len(p), nil }
func (h *HMACModel) Sum(b []byte) []byte {
	d := HMACSHA256(h.Key, h.Msg)
	return append(b, d[:]...)
}
func (h *HMACModel) Reset()         { h.Msg = nil }
func (h *HMACModel) Size() int      { return 32 }
func (h *HMACModel) BlockSize() int { return 64 }

func HMACSHA256(key, msg []byte) (out [32]byte) {
	m := hmac.New(sha256.New, key)
	m.Write(msg)
	copy(out[:], m.Sum(nil))
	return
}
func SHA256(data []byte) (out [32]byte) { return sha256.Sum256(data) }

// ---- int/real mode (float obligations) ----

func IntMode()                                     {}
func Float01(label string) float64                 { return float64(next("float", label).V) / (1 << 53) }
func FloatIn(label string, lo, hi float64) float64 { return lo }
func ExactBegin()                                  {}
func ExactEnd()                                    {}

// ---- engine-only facilities (harnesses that use them replay in the interpreter) ----

type SQLResult struct{ N int64 }

func (r SQLResult) LastInsertId() (int64, error) { return 0, nil }
func (r SQLResult) RowsAffected() (int64, error) { return r.N, nil }
func StubDB() *sql.DB                            { panic("verifrt.StubDB: engine only") }
func Pending(steps ...func())                    { panic("verifrt.Pending: engine only") }
func SQLModel()                                  { panic("verifrt.SQLModel: engine only") }
func Replace(fn any, with any)                   { panic("verifrt.Replace: engine only") }

// Nop is the no-op cancel function the engine hands out for context.WithTimeout/WithCancel.
func Nop() {}

// HTTPDoError makes the stubbed (*http.Client).Do answer every later call with this error (engine only): the harness
// supplies what the real client would return, e.g. the *url.Error wrapping a CheckRedirect refusal.
func HTTPDoError(err error) { panic("verifrt.HTTPDoError: engine only") }

// HTTPResponseHeader gives every later stubbed response this header set (engine only).
func HTTPResponseHeader(h http.Header) { panic("verifrt.HTTPResponseHeader: engine only") }

// HTTPRequests returns the requests handed to the stubbed (*http.Client).Do (engine only).
func HTTPRequests() []*http.Request { panic("verifrt.HTTPRequests: engine only") }

// LastHTTPStatus returns the status the stubbed (*http.Client).Do answered last (engine only).
func LastHTTPStatus() int { panic("verifrt.LastHTTPStatus: engine only") }

// Go starts f as a second thread; Join runs it to completion. The engine interleaves the two threads
// at every mutex acquisition (engine only).
func Go(f func()) { panic("verifrt.Go: engine only") }
func Join()       { panic("verifrt.Join: engine only") }

// LockTrace lists every mutex acquisition so far as "<Lock|RLock>#<mutex number>@<thread A|B>" (engine only).
func LockTrace() []string { panic("verifrt.LockTrace: engine only") }

// JSONEncoded returns every value handed to a (*json.Encoder).Encode so far (engine only; the encoder is a stub).
func JSONEncoded() []any { panic("verifrt.JSONEncoded: engine only") }

// ---------------------------------------------------------------- JSON string-map codec model
//
// encoding/json reaches its string encoder/decoder through reflection, which the engine does not execute.
// For the one shape hookaido stores (map[string]string: headers_json, trace_json) the two functions below
// mirror json.Marshal and json.Unmarshal; the engine routes those calls here (engine only; natively the real
// encoding/json runs). They are validated natively against the real encoding/json on every check that
// uses them (rt/validate: every code point, every 1- and 2-byte string, random documents).

const jsonHex = "0123456789abcdef"

// JSONModelAppendString mirrors encoding/json's string encoder (HTML escaping on, as json.Marshal has it).
func JSONModelAppendString(dst []byte, s string) []byte {
	dst = append(dst, '"')
	for i := 0; i < len(s); {
		b := s[i]
		if b < 0x80 {
			switch {
			case b == '\\' || b == '"':
				dst = append(dst, '\\', b)
			case b == '\b':
				dst = append(dst, '\\', 'b')
			case b == '\f':
				dst = append(dst, '\\', 'f')
			case b == '\n':
				dst = append(dst, '\\', 'n')
			case b == '\r':
				dst = append(dst, '\\', 'r')
			case b == '\t':
				dst = append(dst, '\\', 't')
			case b < 0x20 || b == '<' || b == '>' || b == '&':
				dst = append(dst, '\\', 'u', '0', '0', jsonHex[b>>4], jsonHex[b&0xf])
			default:
				dst = append(dst, b)
			}
			i++
			continue
		}
		r, n := jsonDecodeRune(s[i:])
		if r == 0xFFFD && n == 1 {
			dst = append(dst, '\\', 'u', 'f', 'f', 'f', 'd')
			i++
			continue
		}
		if r == 0x2028 || r == 0x2029 {
			dst = append(dst, '\\', 'u', '2', '0', '2', jsonHex[r&0xf])
			i += n
			continue
		}
		dst = append(dst, s[i:i+n]...)
		i += n
	}
	return append(dst, '"')
}

// jsonDecodeRune is utf8.DecodeRuneInString written out (invalid or short sequences: U+FFFD, width 1).
func jsonDecodeRune(s string) (rune, int) {
	n := len(s)
	if n < 1 {
		return 0xFFFD, 0
	}
	b0 := s[0]
	switch {
	case b0 < 0x80:
		return rune(b0), 1
	case b0 >= 0xC2 && b0 <= 0xDF:
		if n >= 2 && s[1]&0xC0 == 0x80 {
			return rune(b0&0x1F)<<6 | rune(s[1]&0x3F), 2
		}
	case b0 >= 0xE0 && b0 <= 0xEF:
		if n >= 3 && s[1]&0xC0 == 0x80 && s[2]&0xC0 == 0x80 {
			lo, hi := byte(0x80), byte(0xBF)
			if b0 == 0xE0 {
				lo = 0xA0
			}
			if b0 == 0xED {
				hi = 0x9F
			}
			if s[1] >= lo && s[1] <= hi {
				return rune(b0&0x0F)<<12 | rune(s[1]&0x3F)<<6 | rune(s[2]&0x3F), 3
			}
		}
	case b0 >= 0xF0 && b0 <= 0xF4:
		if n >= 4 && s[1]&0xC0 == 0x80 && s[2]&0xC0 == 0x80 && s[3]&0xC0 == 0x80 {
			lo, hi := byte(0x80), byte(0xBF)
			if b0 == 0xF0 {
				lo = 0x90
			}
			if b0 == 0xF4 {
				hi = 0x8F
			}
			if s[1] >= lo && s[1] <= hi {
				return rune(b0&0x07)<<18 | rune(s[1]&0x3F)<<12 | rune(s[2]&0x3F)<<6 | rune(s[3]&0x3F), 4
			}
		}
	}
	return 0xFFFD, 1
}

func jsonAppendRune(dst []byte, r rune) []byte {
	switch {
	case r < 0x80:
		return append(dst, byte(r))
	case r < 0x800:
		return append(dst, 0xC0|byte(r>>6), 0x80|byte(r)&0x3F)
	case r < 0x10000:
		return append(dst, 0xE0|byte(r>>12), 0x80|byte(r>>6)&0x3F, 0x80|byte(r)&0x3F)
	}
	return append(dst, 0xF0|byte(r>>18), 0x80|byte(r>>12)&0x3F, 0x80|byte(r>>6)&0x3F, 0x80|byte(r)&0x3F)
}

// JSONModelMarshalStringMap mirrors json.Marshal(map[string]string): keys in byte order, no white space; nil map = null.
func JSONModelMarshalStringMap(m map[string]string) []byte {
	if m == nil {
		return []byte("null")
	}
	keys := make([]string, 0, len(m))
	for k := range m {
		keys = append(keys, k)
	}
	for i := 1; i < len(keys); i++ {
		for j := i; j > 0 && keys[j] < keys[j-1]; j-- {
			keys[j], keys[j-1] = keys[j-1], keys[j]
		}
	}
	out := []byte{'{'}
	for i, k := range keys {
		if i > 0 {
			out = append(out, ',')
		}
		out = JSONModelAppendString(out, k)
		out = append(out, ':')
		out = JSONModelAppendString(out, m[k])
	}
	return append(out, '}')
}

func jsonSpace(b byte) bool { return b == ' ' || b == '\t' || b == '\r' || b == '\n' }

func jsonHexVal(b byte) int {
	switch {
	case b >= '0' && b <= '9':
		return int(b - '0')
	case b >= 'a' && b <= 'f':
		return int(b-'a') + 10
	case b >= 'A' && b <= 'F':
		return int(b-'A') + 10
	}
	return -1
}

func jsonU4(d []byte, i int) (rune, bool) {
	if i+4 > len(d) {
		return 0, false
	}
	var r rune
	for k := 0; k < 4; k++ {
		h := jsonHexVal(d[i+k])
		if h < 0 {
			return 0, false
		}
		r = r<<4 | rune(h)
	}
	return r, true
}

// jsonString parses a JSON string literal starting at d[i] == '"'; returns the decoded text and the index after it.
func jsonString(d []byte, i int) (string, int, bool) {
	if i >= len(d) || d[i] != '"' {
		return "", i, false
	}
	i++
	var out []byte
	for {
		if i >= len(d) {
			return "", i, false
		}
		b := d[i]
		switch {
		case b == '"':
			return string(out), i + 1, true
		case b < 0x20:
			return "", i, false
		case b == '\\':
			if i+1 >= len(d) {
				return "", i, false
			}
			e := d[i+1]
			i += 2
			switch e {
			case '"', '\\', '/':
				out = append(out, e)
			case 'b':
				out = append(out, '\b')
			case 'f':
				out = append(out, '\f')
			case 'n':
				out = append(out, '\n')
			case 'r':
				out = append(out, '\r')
			case 't':
				out = append(out, '\t')
			case 'u':
				r, ok := jsonU4(d, i)
				if !ok {
					return "", i, false
				}
				i += 4
				if r >= 0xD800 && r < 0xE000 {
					// surrogate: a valid pair combines, anything else becomes U+FFFD (the second escape is then read on its own)
					r2, ok2 := rune(0), false
					if r < 0xDC00 && i+6 <= len(d) && d[i] == '\\' && d[i+1] == 'u' {
						r2, ok2 = jsonU4(d, i+2)
					}
					if ok2 && r2 >= 0xDC00 && r2 < 0xE000 {
						r = (r-0xD800)<<10 | (r2 - 0xDC00) + 0x10000
						i += 6
					} else {
						r = 0xFFFD
					}
				}
				out = jsonAppendRune(out, r)
			default:
				return "", i, false
			}
		case b < 0x80:
			out = append(out, b)
			i++
		default:
			r, n := jsonDecodeRune(string(d[i:]))
			if r == 0xFFFD && n == 1 {
				out = append(out, 0xEF, 0xBF, 0xBD)
			} else {
				out = append(out, d[i:i+n]...)
			}
			i += n
		}
	}
}

// JSONModelUnmarshalStringMap mirrors json.Unmarshal(data, &m) for m map[string]string (initially nil):
// ok=false where json.Unmarshal returns an error (syntax error, or a value that is not a string or null).
func JSONModelUnmarshalStringMap(d []byte) (map[string]string, bool) {
	i := 0
	for i < len(d) && jsonSpace(d[i]) {
		i++
	}
	if i+4 <= len(d) && string(d[i:i+4]) == "null" {
		i += 4
		for i < len(d) && jsonSpace(d[i]) {
			i++
		}
		return nil, i == len(d)
	}
	if i >= len(d) || d[i] != '{' {
		return nil, false
	}
	i++
	m := map[string]string{}
	for i < len(d) && jsonSpace(d[i]) {
		i++
	}
	if i < len(d) && d[i] == '}' {
		i++
	} else {
		for {
			for i < len(d) && jsonSpace(d[i]) {
				i++
			}
			k, j, ok := jsonString(d, i)
			if !ok {
				return nil, false
			}
			i = j
			for i < len(d) && jsonSpace(d[i]) {
				i++
			}
			if i >= len(d) || d[i] != ':' {
				return nil, false
			}
			i++
			for i < len(d) && jsonSpace(d[i]) {
				i++
			}
			if i+4 <= len(d) && string(d[i:i+4]) == "null" {
				i += 4
				if _, seen := m[k]; !seen {
					m[k] = ""
				}
			} else {
				v, j, ok := jsonString(d, i)
				if !ok {
					return nil, false // (numbers, booleans, arrays, objects: a type error; malformed text: a syntax error)
				}
				i = j
				m[k] = v
			}
			for i < len(d) && jsonSpace(d[i]) {
				i++
			}
			if i < len(d) && d[i] == ',' {
				i++
				continue
			}
			if i < len(d) && d[i] == '}' {
				i++
				break
			}
			return nil, false
		}
	}
	for i < len(d) && jsonSpace(d[i]) {
		i++
	}
	if i != len(d) {
		return nil, false
	}
	return m, true
}

// JSONModel turns on the model codec for json.Marshal/json.Unmarshal of map[string]string (engine only; natively a no-op).
func JSONModel() {}
