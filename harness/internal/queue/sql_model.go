//go:build verif

package queue

// SQLiteStore over the interpreted SQL model (DESIGN.md §5, tier 2): the SQL text the store builds is
// parsed and evaluated by internal/verifsql on a table whose scalar columns are symbolic.

import (
	"time"

	vrt "github.com/nuetzliches/hookaido/internal/verifrt"
	vsql "github.com/nuetzliches/hookaido/internal/verifsql"
)

type qWorld struct {
	s   *SQLiteStore
	db  *vsql.DB
	now time.Time
	ids []string
	n   int
}

func qSet(row *vsql.Row, col string, v vsql.Val) {
	for k, c := range vsql.Columns {
		if c == col {
			row.V[k] = v
		}
	}
}

func qCol(r *vsql.Row, col string) vsql.Val {
	for k, c := range vsql.Columns {
		if c == col {
			return r.V[k]
		}
	}
	return vsql.NullVal
}

// qNew builds a table of n rows satisfying InvSQL (leased <=> lease_id and lease_until non-NULL) and,
// when mem is non-nil, the SAME state in a MemoryStore (abstraction R of DESIGN.md appendix A).
func qNew(n int, withMemory bool, routes ...bool) (*qWorld, *mWorld) {
	vrt.SQLModel()
	w := &qWorld{n: n, ids: mIDs[:n]}
	w.now = vrt.Time("now")
	w.db = &vsql.DB{}
	vsql.Current = w.db
	w.s = &SQLiteStore{db: vrt.StubDB(), nowFn: func() time.Time { return w.now }, metrics: newSQLiteRuntimeMetrics(), notify: make(chan struct{})}
	var m *mWorld
	if withMemory {
		m = &mWorld{n: n, ids: w.ids, now: w.now}
		m.s = NewMemoryStore(WithNowFunc(func() time.Time { return w.now }))
	}
	for i := 0; i < n; i++ {
		st := mStates[vrt.Choose("state", len(mStates))]
		recv, next, attempt := vrt.Time("recv"), vrt.Time("next"), vrt.Int("attempt")
		vrt.Assume(attempt >= 0 && attempt < 1<<30)
		row := &vsql.Row{V: make([]vsql.Val, len(vsql.Columns))}
		qSet(row, "id", vsql.Text(w.ids[i]))
		route := "r0"
		if len(routes) > 0 && routes[0] {
			route = []string{"r0", "r1"}[vrt.Choose("route", 2)]
		}
		qSet(row, "route", vsql.Text(route))
		qSet(row, "target", vsql.Text("t0"))
		qSet(row, "state", vsql.Text(string(st)))
		qSet(row, "received_at", vsql.Int(recv.UnixNano()))
		qSet(row, "attempt", vsql.Int(int64(attempt)))
		qSet(row, "payload", vsql.Text("p"))
		qSet(row, "headers_json", vsql.NullVal)
		qSet(row, "trace_json", vsql.NullVal)
		qSet(row, "schema_version", vsql.Int(1))
		qSet(row, "dead_reason", vsql.NullVal)
		env := &Envelope{ID: w.ids[i], Route: route, Target: "t0", State: st, ReceivedAt: recv, NextRunAt: next, Attempt: attempt, Payload: []byte("p"), SchemaVersion: 1}
		if st == StateLeased {
			until := vrt.Time("until")
			qSet(row, "lease_id", vsql.Text(mLeases[i]))
			qSet(row, "lease_until", vsql.Int(until.UnixNano()))
			qSet(row, "next_run_at", vsql.Int(until.UnixNano()))
			env.LeaseID, env.LeaseUntil, env.NextRunAt = mLeases[i], until, until
		} else {
			qSet(row, "lease_id", vsql.NullVal)
			qSet(row, "lease_until", vsql.NullVal)
			qSet(row, "next_run_at", vsql.Int(next.UnixNano()))
		}
		if st == StateDead {
			qSet(row, "dead_reason", vsql.Text("max_retries"))
			env.DeadReason = "max_retries"
		}
		w.db.Rows = append(w.db.Rows, row)
		if m != nil {
			m.s.items[w.ids[i]] = env
			m.s.order = append(m.s.order, w.ids[i])
			if st == StateLeased {
				m.s.leases[env.LeaseID] = w.ids[i]
			}
		}
	}
	return w, m
}

// qSnap reads the table back into the snapshot type shared with the memory harnesses.
func (w *qWorld) snap() []mSnap {
	out := make([]mSnap, w.n)
	for i, id := range w.ids {
		for _, r := range w.db.Rows {
			if qCol(r, "id").S != id {
				continue
			}
			sn := mSnap{present: true, id: id, state: State(qCol(r, "state").S), route: qCol(r, "route").S, target: qCol(r, "target").S,
				attempt: int(qCol(r, "attempt").I), npayload: 1, payload: 'p'}
			sn.receivedAt = time.Unix(0, qCol(r, "received_at").I)
			sn.nextRunAt = time.Unix(0, qCol(r, "next_run_at").I)
			if l := qCol(r, "lease_id"); !l.Null {
				sn.leaseID = l.S
			}
			if u := qCol(r, "lease_until"); !u.Null {
				sn.leaseUntil = time.Unix(0, u.I)
			}
			if d := qCol(r, "dead_reason"); !d.Null {
				sn.deadReason = d.S
			}
			out[i] = sn
		}
	}
	return out
}

// sameRow: like sameItem, for snapshots read from the table (payload/headers are not modelled per byte here).
func sameRow(a, b mSnap) bool {
	if a.present != b.present {
		return false
	}
	if !a.present {
		return true
	}
	e1 := a.state == b.state
	e2 := a.leaseID == b.leaseID
	e3 := a.leaseUntil.Equal(b.leaseUntil)
	e4 := a.nextRunAt.Equal(b.nextRunAt)
	e5 := a.attempt == b.attempt
	e6 := a.deadReason == b.deadReason
	e7 := a.receivedAt.Equal(b.receivedAt)
	e8 := a.route == b.route && a.target == b.target && a.id == b.id
	return e1 && e2 && e3 && e4 && e5 && e6 && e7 && e8
}

func qInv(w *qWorld) bool {
	ok := true
	for _, r := range w.db.Rows {
		leased := qCol(r, "state").S == string(StateLeased)
		hasID := !qCol(r, "lease_id").Null
		hasUntil := !qCol(r, "lease_until").Null
		ok = ok && leased == hasID && leased == hasUntil
	}
	return ok
}

var qLeaseMenu = []string{"L0", "L1", "zz", "", " L0 "}

// verif:harness props=C04,C02 tier=quick weight=40 tonly=C04
// verif:bounds SQLiteStore.Ack/Nack/Extend/MarkDead over the SQL model: N=2 rows (thorough 3) in any state with arbitrary timestamps; presented lease id from {current of each row, unknown, blank, blank-padded}; arbitrary delay/extension; delivered-retention on/off
func VerifC04SQLLeaseOps() {
	n := 2
	if vrt.Thorough() {
		n = 3
	}
	w, _ := qNew(n, false)
	retention := vrt.Bool("deliveredRetention")
	if retention {
		w.s.deliveredRetentionMaxAge = time.Hour
	}
	pre := w.snap()
	presented := qLeaseMenu[vrt.Choose("lease", len(qLeaseMenu))]
	trimmed := presented
	if presented == " L0 " {
		trimmed = "L0" // the SQLite store trims the presented id
	}
	op := vrt.Choose("op", 4)
	d := vrt.Duration("d")
	var err error
	switch op {
	case opAck:
		err = w.s.Ack(presented)
	case opNack:
		err = w.s.Nack(presented, d)
	case opExtend:
		err = w.s.Extend(presented, d)
	case opMarkDead:
		err = w.s.MarkDead(presented, "why")
	}
	post := w.snap()
	noop := op == opExtend && d <= 0
	anyCurrent := false
	for i := 0; i < n; i++ {
		current := pre[i].state == StateLeased && pre[i].leaseID == trimmed && trimmed != ""
		if !current || noop {
			vrt.Assert("C04.sql.single.others-untouched", sameRow(pre[i], post[i]))
			continue
		}
		anyCurrent = true
		if w.now.Before(pre[i].leaseUntil) {
			want := refLeaseEffect(op, pre[i], w.now, d, "why", retention)
			vrt.Assert("C04.sql.single.effective", err == nil && sameRow(want, post[i]))
		} else {
			want := refRequeued(pre[i], w.now)
			vrt.Assert("C04.sql.single.expired-only-requeues", err == ErrLeaseExpired && sameRow(want, post[i]))
		}
	}
	if noop {
		vrt.Assert("C04.sql.single.extend-nonpositive-noop", err == nil)
	} else if !anyCurrent {
		vrt.Assert("C04.sql.single.conflict", err == ErrLeaseNotFound)
	}
	vrt.Assert("C02.sql.inv.lease-single", qInv(w))
}

// verif:harness props=C04,C03 tier=quick weight=60 tonly=C04
// verif:bounds SQLiteStore.AckBatch/NackBatch/MarkDeadBatch over the SQL model: N=2 rows (thorough 3); batch of 2 lease ids with repetition from {current ids, unknown, blank, padded}; arbitrary clock and delay
func VerifC04SQLLeaseBatch() {
	n, k := 2, 2
	if vrt.Thorough() {
		n, k = 3, 2
	}
	w, _ := qNew(n, false)
	retention := vrt.Bool("deliveredRetention")
	if retention {
		w.s.deliveredRetentionMaxAge = time.Hour
	}
	pre := w.snap()
	ids := make([]string, k)
	for j := range ids {
		ids[j] = qLeaseMenu[vrt.Choose("lease", len(qLeaseMenu))]
	}
	op := []int{opAck, opNack, opMarkDead}[vrt.Choose("op", 3)]
	d := vrt.Duration("d")
	var res LeaseBatchResult
	var err error
	switch op {
	case opAck:
		res, err = w.s.AckBatch(ids)
	case opNack:
		res, err = w.s.NackBatch(ids, d)
	case opMarkDead:
		res, err = w.s.MarkDeadBatch(ids, "why")
	}
	post := w.snap()
	want := append([]mSnap{}, pre...)
	succ, nf, exp := refBatch(op, want, ids, w.now, d, "why", retention)
	vrt.Assert("C04.sql.batch.noerr", err == nil)
	for i := 0; i < n; i++ {
		vrt.Assert("C04.sql.batch.state-per-id-rule", sameRow(want[i], post[i]))
	}
	gotExp := 0
	for _, c := range res.Conflicts {
		if c.Expired {
			gotExp++
		}
	}
	vrt.Assert("C04.sql.batch.counts", res.Succeeded == succ && len(res.Conflicts) == nf+exp && gotExp == exp)
	vrt.Assert("C02.sql.inv.lease-batch", qInv(w))
}

// verif:harness props=C14 tier=quick weight=40
// verif:bounds SQLiteStore cancel/requeue/resume by id, DLQ requeue/delete over the SQL model: N=2 rows in any state; id list of 2 entries (thorough 3) with repetition from {each id, padded id, empty, absent id}
func VerifC14SQLManageIDs() {
	n, k := 2, 2
	if vrt.Thorough() {
		n, k = 2, 3
	}
	w, _ := qNew(n, false)
	pre := w.snap()
	ids := make([]string, k)
	for j := range ids {
		ids[j] = mIDMenu[vrt.Choose("id", len(mIDMenu))]
	}
	op := vrt.Choose("op", 5)
	count, err := qManage(w.s, op, ids)
	post := w.snap()
	vrt.Assert("C14.sql.ids.noerr", err == nil)
	changed := 0
	for i := 0; i < n; i++ {
		named := false
		for _, raw := range ids {
			if trimID(raw) == w.ids[i] {
				named = true
			}
		}
		if named && refManageAllowed(op, pre[i].state) {
			changed++
			vrt.Assert("C14.sql.ids.named-and-allowed-changes", sameRow(refManageEffect(op, pre[i], w.now), post[i]))
		} else {
			vrt.Assert("C14.sql.ids.everything-else-untouched", sameRow(pre[i], post[i]))
		}
	}
	vrt.Assert("C14.sql.ids.count-equals-changed", count == changed)
	vrt.Assert("C02.sql.inv.manage-ids", qInv(w))
}

func trimID(s string) string {
	i, j := 0, len(s)
	for i < j && s[i] == ' ' {
		i++
	}
	for j > i && s[j-1] == ' ' {
		j--
	}
	return s[i:j]
}

type qManager interface {
	CancelMessages(MessageCancelRequest) (MessageCancelResponse, error)
	RequeueMessages(MessageRequeueRequest) (MessageRequeueResponse, error)
	ResumeMessages(MessageResumeRequest) (MessageResumeResponse, error)
	RequeueDead(DeadRequeueRequest) (DeadRequeueResponse, error)
	DeleteDead(DeadDeleteRequest) (DeadDeleteResponse, error)
}

func qManage(s qManager, op int, ids []string) (int, error) {
	switch op {
	case mgCancel:
		r, err := s.CancelMessages(MessageCancelRequest{IDs: ids})
		return r.Canceled, err
	case mgRequeue:
		r, err := s.RequeueMessages(MessageRequeueRequest{IDs: ids})
		return r.Requeued, err
	case mgResume:
		r, err := s.ResumeMessages(MessageResumeRequest{IDs: ids})
		return r.Resumed, err
	case mgRequeueDead:
		r, err := s.RequeueDead(DeadRequeueRequest{IDs: ids})
		return r.Requeued, err
	}
	r, err := s.DeleteDead(DeadDeleteRequest{IDs: ids})
	return r.Deleted, err
}

// ---- C13: memory and SQLite side by side ----

func errClass(err error) int {
	switch err {
	case nil:
		return 0
	case ErrLeaseNotFound:
		return 1
	case ErrLeaseExpired:
		return 2
	}
	return 3
}

// verif:harness props=C13 tier=quick weight=90
// verif:bounds the same state (N=2 rows/items on routes r0/r1; thorough 3 for the single-lease and dequeue families; any states, arbitrary timestamps) in a MemoryStore and in a SQLiteStore over the SQL model, one operation with the same arguments on both: ack/nack/extend/mark-dead with a lease id from {current ids, unknown, blank} and arbitrary durations; ack/nack/mark-dead batch of 2; cancel/requeue/resume/DLQ requeue/DLQ delete by an id list of 2; dequeue with route filter none/r0/r1, batch N and arbitrary TTL (sweep due); single enqueue of a fresh or existing id (received_at and next_run_at each absent or arbitrary) under max_depth 1..N+1 with reject/drop_oldest (received_at in insertion order, active count within the limit); delivered-retention on/off on both
func VerifC13MemoryVsSQLite() {
	family := vrt.Choose("family", 5)
	n := 2
	if vrt.Thorough() && (family == 0 || family == 3) {
		n = 3 // (three rows for the single-lease and dequeue families; the other families do not finish with three)
	}
	w, m := qNew(n, true, true)
	if vrt.Bool("deliveredRetention") {
		w.s.deliveredRetentionMaxAge = time.Hour
		m.s.deliveredRetentionMaxAge = time.Hour
	}
	genLease := map[string]bool{}
	retention := w.s.deliveredRetentionMaxAge > 0
	d := vrt.Duration("d")
	lm := []string{"L0", "L1", "zz", ""} // (blank-padded ids: see the single-lease note in DESIGN.md — memory does not trim them, SQLite does)
	switch family {
	case 0:
		lease := lm[vrt.Choose("lease", len(lm))]
		op := vrt.Choose("op", 4)
		var e1, e2 error
		switch op {
		case opAck:
			e1, e2 = m.s.Ack(lease), w.s.Ack(lease)
		case opNack:
			e1, e2 = m.s.Nack(lease, d), w.s.Nack(lease, d)
		case opExtend:
			e1, e2 = m.s.Extend(lease, d), w.s.Extend(lease, d)
		case opMarkDead:
			e1, e2 = m.s.MarkDead(lease, "why"), w.s.MarkDead(lease, "why")
		}
		vrt.Assert("C13.single.same-error-class", errClass(e1) == errClass(e2))
	case 1:
		ids := []string{lm[vrt.Choose("lease", len(lm))], lm[vrt.Choose("lease", len(lm))]}
		op := vrt.Choose("op", 3)
		var r1, r2 LeaseBatchResult
		var e1, e2 error
		switch op {
		case 0:
			r1, e1 = m.s.AckBatch(ids)
			r2, e2 = w.s.AckBatch(ids)
		case 1:
			r1, e1 = m.s.NackBatch(ids, d)
			r2, e2 = w.s.NackBatch(ids, d)
		case 2:
			r1, e1 = m.s.MarkDeadBatch(ids, "why")
			r2, e2 = w.s.MarkDeadBatch(ids, "why")
		}
		x1, x2 := 0, 0
		for _, c := range r1.Conflicts {
			if c.Expired {
				x1++
			}
		}
		for _, c := range r2.Conflicts {
			if c.Expired {
				x2++
			}
		}
		vrt.Assert("C13.batch.same-counts-and-conflict-classes", errClass(e1) == errClass(e2) && r1.Succeeded == r2.Succeeded && len(r1.Conflicts) == len(r2.Conflicts) && x1 == x2)
	case 2:
		ids := []string{mIDMenu[vrt.Choose("id", len(mIDMenu))], mIDMenu[vrt.Choose("id", len(mIDMenu))]}
		op := vrt.Choose("op", 5)
		c1, e1 := qManage(m.s, op, ids)
		c2, e2 := qManage(w.s, op, ids)
		vrt.Assert("C13.manage.same-counts", errClass(e1) == errClass(e2) && c1 == c2)
	case 3:
		// dequeue with enough capacity for every ready message (which of several equally eligible messages a smaller batch
		// picks is left open by the property); the SQLite sweep is due (its throttle is the 10 ms granularity of C05)
		vrt.Assume(w.now.UnixNano() > int64(time.Hour))
		w.s.lastLeaseSweepNanos = 0
		filter := []string{"", "r0", "r1"}[vrt.Choose("filter", 3)]
		ttl := vrt.Duration("ttl")
		vrt.Assume(ttl > 0 && ttl < 1000*time.Hour)
		req := DequeueRequest{Route: filter, Batch: n, LeaseTTL: ttl}
		r1, e1 := m.s.Dequeue(req)
		r2, e2 := w.s.Dequeue(req)
		same := errClass(e1) == errClass(e2) && len(r1.Items) == len(r2.Items)
		if same {
			for _, a := range r1.Items {
				found := false
				for _, b := range r2.Items {
					if a.ID == b.ID {
						found = a.Attempt == b.Attempt && a.State == b.State && a.LeaseUntil.Equal(b.LeaseUntil) && a.Route == b.Route && a.Target == b.Target && a.ReceivedAt.Equal(b.ReceivedAt) && string(a.Payload) == string(b.Payload)
					}
				}
				same = same && found
				genLease[a.LeaseID] = true
			}
			for _, b := range r2.Items {
				genLease[b.LeaseID] = true
			}
		}
		vrt.Assert("C13.dequeue.same-messages-with-identical-fields", same)
	case 4:
		// single enqueue under a depth limit (received_at in insertion order, as every real history has it: drop_oldest then
		// picks the same victim on both)
		for i := 1; i < n; i++ {
			vrt.Assume(!m.s.items[w.ids[i]].ReceivedAt.Before(m.s.items[w.ids[i-1]].ReceivedAt))
		}
		vrt.Replace(isSQLiteConstraintError, func(err error) bool { return err == vsql.ErrConstraint })
		depth := 1 + vrt.Choose("max-depth", n+1)
		policy := []string{"reject", "drop_oldest"}[vrt.Choose("drop-policy", 2)]
		active, delivered := 0, 0
		for i := 0; i < n; i++ {
			if st := m.s.items[w.ids[i]].State; st == StateQueued || st == StateLeased {
				active++
			} else if st == StateDelivered {
				delivered++
			}
		}
		vrt.Assume(active <= depth) // (histories that lifted the active count above max_depth are excluded by C12)
		// recorded finding: with delivered retention on, the memory backend (only) counts retained delivered messages against max_depth
		vrt.KnownFinding("C13-memory-depth-guard-counts-retained-delivered", retention && delivered > 0 && active+delivered >= depth)
		w.s.maxDepth, w.s.dropPolicy = depth, policy
		m.s.maxDepth, m.s.dropPolicy = depth, policy
		id := []string{"n1", "m0"}[vrt.Choose("new-id", 2)]
		env := Envelope{ID: id, Route: "r1", Target: "t0", Payload: []byte("p")}
		// the caller may fix the instants itself (admin publish with received_at / next_run_at); absent ones are defaulted
		if vrt.Bool("explicit-received-at") {
			env.ReceivedAt = vrt.Time("new-received-at")
			for i := 0; i < n; i++ {
				vrt.Assume(!env.ReceivedAt.Before(m.s.items[w.ids[i]].ReceivedAt)) // (still the newest: same drop_oldest victim)
			}
		}
		if vrt.Bool("explicit-next-run-at") {
			env.NextRunAt = vrt.Time("new-next-run-at")
		}
		e1 := m.s.Enqueue(env)
		e2 := w.s.Enqueue(env)
		cls := func(err error) int {
			switch err {
			case nil:
				return 0
			case ErrQueueFull:
				return 1
			case ErrEnvelopeExists:
				return 2
			}
			return 3
		}
		vrt.Assert("C13.enqueue.same-verdict", cls(e1) == cls(e2))
		// the new message itself
		var a, b mSnap
		if it, ok := m.s.items["n1"]; ok {
			a = mSnap{present: true, id: it.ID, state: it.State, route: it.Route, target: it.Target, attempt: it.Attempt, receivedAt: it.ReceivedAt, nextRunAt: it.NextRunAt}
		}
		for _, r := range w.db.Rows {
			if qCol(r, "id").S == "n1" {
				b = mSnap{present: true, id: "n1", state: State(qCol(r, "state").S), route: qCol(r, "route").S, target: qCol(r, "target").S, attempt: int(qCol(r, "attempt").I),
					receivedAt: time.Unix(0, qCol(r, "received_at").I), nextRunAt: time.Unix(0, qCol(r, "next_run_at").I)}
			}
		}
		vrt.Assert("C13.enqueue.same-new-message", sameRow(a, b))
	}
	// same observable contents afterwards (so the comparison extends to every history by induction)
	ms, qs := m.snap(), w.snap()
	for i := 0; i < n; i++ {
		a, b := ms[i], qs[i]
		if a.present {
			a.npayload, a.payload, a.nhdr, a.hdr = 1, 'p', 0, ""
		}
		if genLease[a.leaseID] && genLease[b.leaseID] {
			a.leaseID, b.leaseID = "generated", "generated" // lease ids handed out by this step differ by construction
		}
		vrt.Assert("C13.same-contents-afterwards", sameRow(a, b))
	}
}
