package sx

import (
	"fmt"
	"strings"
	"go/types"

	"golang.org/x/tools/go/ssa"
)

// Externals aware of symbolic values. Keys are Function.String().
var symExternals = map[string]externalFn{}
var symExternalPrefixes = map[string]externalFn{}

const rtPkg = "github.com/nuetzliches/hookaido/internal/verifrt."

func labelOf(v value) string {
	if s, ok := v.(string); ok {
		return s
	}
	return "sym"
}

func init() {
	symExternals[rtPkg+"Int"] = func(fr *frame, args []value) value {
		t := X.fresh(labelOf(args[0]), X.intSort())
		X.InputLog = append(X.InputLog, InputRec{K: "int", L: labelOf(args[0]), Vars: []string{t.Name}})
		return mkScalar(X.pinOr(t), types.Int)
	}
	symExternals[rtPkg+"Int64"] = func(fr *frame, args []value) value {
		t := X.fresh(labelOf(args[0]), X.intSort())
		X.InputLog = append(X.InputLog, InputRec{K: "int64", L: labelOf(args[0]), Vars: []string{t.Name}})
		return mkScalar(X.pinOr(t), types.Int64)
	}
	symExternals[rtPkg+"Byte"] = func(fr *frame, args []value) value {
		t := X.fresh(labelOf(args[0]), BV(8))
		X.InputLog = append(X.InputLog, InputRec{K: "byte", L: labelOf(args[0]), Vars: []string{t.Name}})
		return mkScalar(X.pinOr(t), types.Uint8)
	}
	symExternals[rtPkg+"Bool"] = func(fr *frame, args []value) value {
		t := X.fresh(labelOf(args[0]), BoolSort)
		X.InputLog = append(X.InputLog, InputRec{K: "bool", L: labelOf(args[0]), Vars: []string{t.Name}})
		return mkScalar(X.pinOr(t), types.Bool)
	}
	symExternals[rtPkg+"Choose"] = func(fr *frame, args []value) value {
		c := X.choose(int(asInt64(args[1])))
		X.InputLog = append(X.InputLog, InputRec{K: "choose", L: labelOf(args[0]), V: int64(c)})
		return c
	}
	symExternals[rtPkg+"String"] = func(fr *frame, args []value) value {
		max := int(asInt64(args[1]))
		n := X.choose(max + 1)
		b := make([]value, n)
		rec := InputRec{K: "string", L: labelOf(args[0])}
		for i := range b {
			t := X.fresh(fmt.Sprintf("%s[%d/%d]", labelOf(args[0]), i, n), BV(8))
			rec.Vars = append(rec.Vars, t.Name)
			b[i] = mkScalar(X.pinOr(t), types.Uint8)
		}
		X.InputLog = append(X.InputLog, rec)
		return mkStr(b)
	}
	symExternals[rtPkg+"StringN"] = func(fr *frame, args []value) value {
		n := int(asInt64(args[1]))
		b := make([]value, n)
		rec := InputRec{K: "string", L: labelOf(args[0])}
		for i := range b {
			t := X.fresh(fmt.Sprintf("%s[%d/%d]", labelOf(args[0]), i, n), BV(8))
			rec.Vars = append(rec.Vars, t.Name)
			b[i] = mkScalar(X.pinOr(t), types.Uint8)
		}
		X.InputLog = append(X.InputLog, rec)
		return mkStr(b)
	}
	symExternals[rtPkg+"Replace"] = func(fr *frame, args []value) value {
		target, ok := args[0].(iface).v.(*ssa.Function)
		if !ok {
			panic("vrt.Replace: first argument must be a top-level function")
		}
		// a method expression (*T).m is a synthetic thunk around the declared method: replace the method
		if strings.HasPrefix(target.Synthetic, "thunk") || strings.HasPrefix(target.Synthetic, "wrapper") {
			for _, b := range target.Blocks {
				for _, in := range b.Instrs {
					if c, isCall := in.(ssa.CallInstruction); isCall {
						if callee := c.Common().StaticCallee(); callee != nil {
							target = callee
						}
					}
				}
			}
		}
		if X.replaced == nil {
			X.replaced = map[*ssa.Function]value{}
			X.inReplace = map[*ssa.Function]bool{}
		}
		X.replaced[target] = args[1].(iface).v
		return nil
	}
	symExternals[rtPkg+"Assume"] = func(fr *frame, args []value) value {
		X.assume(args[0])
		return nil
	}
	symExternals[rtPkg+"Assert"] = func(fr *frame, args []value) value {
		X.assert(labelOf(args[0]), args[1])
		return nil
	}

	// bytealg primitives used by strings/bytes (assembly in the real runtime).
	symExternals["internal/bytealg.IndexByteString"] = func(fr *frame, args []value) value {
		b, _ := strBytes(args[0])
		return indexByte(b, args[1])
	}
	symExternals["internal/bytealg.IndexByte"] = func(fr *frame, args []value) value {
		return indexByte(args[0].([]value), args[1])
	}
	symExternals["internal/bytealg.CountString"] = func(fr *frame, args []value) value {
		b, _ := strBytes(args[0])
		n := 0
		for _, e := range b {
			if X.decide(Eq(termOf(e), termOf(args[1]))) {
				n++
			}
		}
		return n
	}
	symExternals["strings.IndexByte"] = symExternals["internal/bytealg.IndexByteString"]
	symExternals["internal/stringslite.IndexByte"] = symExternals["internal/bytealg.IndexByteString"]
}

func indexByte(b []value, c value) value {
	for i, e := range b {
		if X.decide(Eq(termOf(e), termOf(c))) {
			return i
		}
	}
	return -1
}
