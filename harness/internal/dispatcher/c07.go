//go:build verif

package dispatcher

import (
	"io"
	"net/http"
	"time"

	"github.com/nuetzliches/hookaido/internal/queue"
	vrt "github.com/nuetzliches/hookaido/internal/verifrt"
)

// verif:harness props=C07 tier=quick weight=60
// verif:bounds store -> push: one leased message with a payload of 3 arbitrary bytes and stored headers X-A = any 3 printable ASCII bytes (commas, semicolons, quotes, blanks inside included; no leading/trailing blank), X-List = "1, 2,3" and User-Agent = "a (b, c) d", through the real classifyDelivery and the real HTTPDeliverer.Deliver (havoc HTTP client): the request that leaves carries exactly the stored header values, one line each, and the payload byte for byte
func VerifC07PushCarriesStoredHeadersAndPayload() {
	v := vrt.StringN("x-a", 3)
	for i := 0; i < len(v); i++ {
		vrt.Assume(v[i] >= 0x20 && v[i] < 0x7f)
	}
	vrt.Assume(v[0] != ' ' && v[2] != ' ')
	payload := vrt.StringN("payload", 3)
	st := &hStore{}
	dl := NewHTTPDeliverer(&http.Client{}, EgressPolicy{})
	dl.Resolver = nil
	d := &PushDispatcher{Store: st, Deliverer: dl}
	env := queue.Envelope{ID: "m", Route: "/r", Target: "https://t.example/h", LeaseID: "L", Attempt: 1, Payload: []byte(payload),
		Headers: map[string]string{"X-A": v, "X-List": "1, 2,3", "User-Agent": "a (b, c) d"}}
	target := TargetConfig{URL: "https://t.example/h", Timeout: time.Second, Retry: RetryConfig{Type: "exponential", Max: 3, Base: time.Second, Cap: time.Minute}}
	d.classifyDelivery(nil, env, target)
	reqs := vrt.HTTPRequests()
	vrt.Assert("C07.push.one-request-goes-out", len(reqs) == 1)
	if len(reqs) != 1 {
		return
	}
	r := reqs[0]
	one := func(k, want string) bool { vs := r.Header[k]; return len(vs) == 1 && vs[0] == want }
	vrt.Assert("C07.push.stored-header-values-arrive-verbatim-one-line-each", one("X-A", v) && one("X-List", "1, 2,3") && one("User-Agent", "a (b, c) d"))
	body, err := io.ReadAll(r.Body)
	vrt.Assert("C07.push.body-is-the-stored-payload-byte-for-byte", err == nil && string(body) == payload)
}
